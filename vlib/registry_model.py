"""C15 helper: registry reference model, history generator, executor/oracle and the fresh-interpreter worker.

Layout
  Model            pure-Python reference model of the element registry + class default values (tokens, no library)
  gen_history      concrete JSON operation histories (the generator drives the model to know what is registered)
  Executor         runs a history on the REAL library, compares every observable with the model after every step
  worker_main      entry point of the fresh interpreter: snapshot right after import = "as freshly imported" ground truth;
                   histories separated by a reset() + snapshot-equality barrier

Nothing here mutates the library in the process that merely imports this module; all mutation happens in the worker
subprocess (python -B vlib/registry_model.py < job.json).
"""
import json
import math
import os
import re
import sys
import time
import traceback
import warnings

if __name__ == "__main__":  # worker: make `vlib` importable
    sys.path.insert(0, os.path.dirname(os.path.dirname(os.path.abspath(__file__))))

MARK = "C15RESULT "
IDENT = re.compile(r"[A-Za-z][a-z0-9_]*")  # tokenizer rule for element identifiers (first char any ASCII letter)
VALID_SYMBOL = re.compile(r"^[A-Z][a-z0-9_]*$")  # registry rule for element symbols
VFREQ = (1e6, 1e3, 1e0, 1e-3, 1e-6)  # frequencies at which the library compares equation and _impedance


# ------------------------------------------------------------------------------------------------
# reference model (tokens: "b:<symbol>" for built-ins, "u<k>" for user classes)
# ------------------------------------------------------------------------------------------------
class Model:
    def __init__(self, binfo):
        self.B = {s: "b:" + s for s in binfo}
        self.Bpriv = {s for s, i in binfo.items() if i["private"]}
        self.D0 = {"b:" + s: dict(i["defaults"]) for s, i in binfo.items()}
        self.E = dict(self.B)
        self.P = set(self.Bpriv)
        self.D = {t: dict(d) for t, d in self.D0.items()}

    def view(self, default_only, private):
        return {s: self.E[s] for s in (self.B if default_only else self.E) if private or s not in self.P}

    def register(self, tok, symbol, ok, private, params):
        sym = symbol.strip() if isinstance(symbol, str) else symbol
        if not ok or not isinstance(sym, str) or (sym in self.E and self.E[sym] != tok):
            return False  # refused: registry unchanged
        self.E[sym] = tok
        if private is True:
            self.P.add(sym)
        self.D[tok] = dict(params)
        return True

    def remove(self, toks):
        if not toks or any(t is None for t in toks) or any(t in self.D0 for t in toks):
            return False  # refused (empty list / not a class / a built-in in the list): nothing is removed
        for t in toks:
            for s in [s for s, v in self.E.items() if v == t][:1]:
                del self.E[s]
                self.P.discard(s)
        return True

    def reset(self, elements, default_parameters):
        if elements:
            self.E = dict(self.B)
            self.P = set(self.Bpriv)
        if default_parameters:
            self.reset_defaults(None)

    def set_defaults(self, tok, pairs):
        self.D[tok].update({k: float(v) for k, v in pairs})

    def reset_defaults(self, toks):
        for t in self.D0 if toks is None else toks:
            if t in self.D0:
                self.D[t] = dict(self.D0[t])

    def fresh(self):
        return self.E == self.B and self.P == self.Bpriv and all(self.D[t] == d for t, d in self.D0.items())

    def expect_parse(self, text):
        """Longest symbol wins: an identifier runs from a letter over lower-case/digits/underscore."""
        syms = IDENT.findall(text)
        return [self.E[s] for s in syms] if all(s in self.E for s in syms) else None


def _selfcheck():
    m = Model({"L": {"private": False, "defaults": {"L": 1.0}}, "La": {"private": False, "defaults": {"L": 1.0}},
               "K": {"private": True, "defaults": {"R": 1.0}}})
    assert m.view(False, False) == {"L": "b:L", "La": "b:La"} and set(m.view(True, True)) == {"L", "La", "K"}
    assert m.register("u0", "Lab", True, True, {"R": 2.0}) and "Lab" not in m.view(False, False) and "Lab" in m.view(False, True)
    assert not m.register("u1", "La", True, None, {}) and not m.register("u1", "Lab", True, None, {}) and not m.register("u1", "X", False, None, {})
    assert m.expect_parse("LLaLabK") == ["b:L", "b:La", "u0", "b:K"] and m.expect_parse("LaLb") is None
    assert not m.remove(["u0", "b:L"]) and "Lab" in m.E and m.remove(["u0"]) and "Lab" not in m.E and "Lab" not in m.P
    m.register("u0", "Lab", True, True, {"R": 2.0})
    m.set_defaults("b:K", [["R", 5]])
    m.reset(True, False)
    assert "Lab" not in m.E and "Lab" not in m.P and m.D["b:K"]["R"] == 5.0 and not m.fresh()
    m.register("u2", "Lab", True, None, {"R": 1.0})
    assert "Lab" in m.view(False, False)
    m.reset(True, True)
    assert m.fresh()


_selfcheck()


# ------------------------------------------------------------------------------------------------
# user-element templates: numeric impedance (numpy), matching equation, contradicting equations
# (re: differs in the real part only, im: in the imaginary part only, both)
# ------------------------------------------------------------------------------------------------
def _np():
    import numpy as np

    return np


TEMPLATES = {
    "R": {"params": {"R": (1.0, 1e4)}, "good": "R",
          "bad": {"re": "2*R", "im": "R + 1/(2*pi*f*I)", "both": "R*(2+I)"},
          "num": lambda f, R: R + 0j * f,
          "badnum": {"re": lambda f, R: 2 * R + 0j * f, "im": lambda f, R: R + 1 / (2j * math.pi * f), "both": lambda f, R: R * (2 + 1j) + 0j * f}},
    "C": {"params": {"C": (1e-7, 1e-3)}, "good": "1/(2*pi*f*C*I)",
          "bad": {"re": "1/(2*pi*f*C*I) + 5", "im": "1/(pi*f*C*I)", "both": "1/(2*pi*f*C)"},
          "num": lambda f, C: 1 / (2j * math.pi * f * C),
          "badnum": {"re": lambda f, C: 1 / (2j * math.pi * f * C) + 5, "im": lambda f, C: 1 / (1j * math.pi * f * C), "both": lambda f, C: 1 / (2 * math.pi * f * C) + 0j}},
    "L": {"params": {"L": (1e-6, 1e-1)}, "good": "2*pi*f*L*I",
          "bad": {"re": "2*pi*f*L*I + 1", "im": "pi*f*L*I", "both": "2*pi*f*L"},
          "num": lambda f, L: 2j * math.pi * f * L,
          "badnum": {"re": lambda f, L: 2j * math.pi * f * L + 1, "im": lambda f, L: 1j * math.pi * f * L, "both": lambda f, L: 2 * math.pi * f * L + 0j}},
    "RC": {"params": {"R": (2.0, 1e4), "C": (1e-7, 1e-4)}, "good": "R/(1+2*pi*f*I*R*C)",
           "bad": {"both": "2*R/(1+2*pi*f*I*R*C)", "im": "R/(1-2*pi*f*I*R*C)", "re": "R/(1+2*pi*f*I*R*C) + 3"},
           "num": lambda f, R, C: R / (1 + 2j * math.pi * f * R * C),
           "badnum": {"both": lambda f, R, C: 2 * R / (1 + 2j * math.pi * f * R * C), "im": lambda f, R, C: R / (1 - 2j * math.pi * f * R * C),
                      "re": lambda f, R, C: R / (1 + 2j * math.pi * f * R * C) + 3}},
    "Q": {"params": {"Y": (1e-6, 1e-2), "n": (0.5, 1.0)}, "good": "1/(Y*(2*pi*f*I)^n)",
          "bad": {"both": "1/(Y*(2*pi*f)^n)", "re": "1/(Y*(2*pi*f*I)^n) + 7", "im": "1/(Y*(2*pi*f*I)^n) + 7*I"},
          "num": lambda f, Y, n: 1 / (Y * (2j * math.pi * f) ** n),
          "badnum": {"both": lambda f, Y, n: 1 / (Y * (2 * math.pi * f) ** n) + 0j, "re": lambda f, Y, n: 1 / (Y * (2j * math.pi * f) ** n) + 7,
                     "im": lambda f, Y, n: 1 / (Y * (2j * math.pi * f) ** n) + 7j}},
    # subclass of the built-in Resistor (inherits _impedance): its defaults must never alias the built-in's
    "subR": {"params": {"R": (1.0, 1e4)}, "good": "R", "bad": {"re": "3*R", "im": "R + I", "both": "R*(2+I)"},
             "num": lambda f, R: R + 0j * f,
             "badnum": {"re": lambda f, R: 3 * R + 0j * f, "im": lambda f, R: R + 1j + 0j * f, "both": lambda f, R: R * (2 + 1j) + 0j * f}},
    # minor-component family: one component is < 1e-5 of |Z| at all five comparison frequencies, yet far above its OWN
    # tolerance (atol 1e-8 + rtol 1e-5*|component|) at one or more of them; the contradicting equations get exactly that
    # component wrong (sign flipped / omitted / doubled), so only a per-component comparison can see it
    "Rl": {"params": {"R": (1e3, 1e4), "L": (3e-11, 1.5e-10)}, "minor": "imag", "good": "R + 2*pi*f*L*I",
           "bad": {"neg": "R - 2*pi*f*L*I", "zero": "R", "dbl": "R + 4*pi*f*L*I"},
           "num": lambda f, R, L: R + 2j * math.pi * f * L,
           "badnum": {"neg": lambda f, R, L: R - 2j * math.pi * f * L, "zero": lambda f, R, L: R + 0j * f, "dbl": lambda f, R, L: R + 4j * math.pi * f * L}},
    "Cr": {"params": {"C": (5e-10, 1e-9), "r": (1e-4, 6e-4)}, "minor": "real", "good": "r + 1/(2*pi*f*C*I)",
           "bad": {"neg": "-r + 1/(2*pi*f*C*I)", "zero": "1/(2*pi*f*C*I)", "dbl": "2*r + 1/(2*pi*f*C*I)"},
           "num": lambda f, C, r: r + 1 / (2j * math.pi * f * C),
           "badnum": {"neg": lambda f, C, r: -r + 1 / (2j * math.pi * f * C), "zero": lambda f, C, r: 1 / (2j * math.pi * f * C),
                      "dbl": lambda f, C, r: 2 * r + 1 / (2j * math.pi * f * C)}},
    "Rk": {"params": {"R": (1e3, 1e4), "k": (2e-7, 9e-7)}, "minor": "imag", "good": "R*(1+I*k)",
           "bad": {"neg": "R*(1-I*k)", "zero": "R", "dbl": "R*(1+2*I*k)"},
           "num": lambda f, R, k: R * (1 + 1j * k) + 0j * f,
           "badnum": {"neg": lambda f, R, k: R * (1 - 1j * k) + 0j * f, "zero": lambda f, R, k: R + 0j * f, "dbl": lambda f, R, k: R * (1 + 2j * k) + 0j * f}},
    # container with one sub-circuit X (default: a 20 ohm resistor)
    "cont": {"params": {"R": (1.0, 1e4)}, "good": "R + X", "bad": {"re": "2*R + X", "im": "R + X + 4*I", "both": "R*(2+I) + X"},
             "num": lambda f, R: R + 20.0 + 0j * f,
             "badnum": {"re": lambda f, R: 2 * R + 20.0 + 0j * f, "im": lambda f, R: R + 20.0 + 4j + 0j * f, "both": lambda f, R: R * (2 + 1j) + 20.0 + 0j * f}},
}


TEMPLATE_NAMES = ["R", "C", "L", "RC", "Q", "subR", "cont", "Rl", "Cr", "Rk"]
TEMPLATE_P = [0.17, 0.11, 0.10, 0.11, 0.10, 0.12, 0.08, 0.07, 0.07, 0.07]
assert set(TEMPLATE_NAMES) == set(TEMPLATES) and abs(sum(TEMPLATE_P) - 1) < 1e-12


def minor_relative_size(tmpl, params, eq="good"):
    """max over the comparison frequencies of |minor component| / |Z| (and of |dZ| / (1e-8 + 1e-5*|Z_eq|) for a bad equation)."""
    np = _np()
    f = np.array(VFREQ)
    T = TEMPLATES[tmpl]
    a = np.asarray(T["num"](f, **params), dtype=complex)
    comp = a.imag if T["minor"] == "imag" else a.real
    rel = float(np.max(np.abs(comp) / np.abs(a)))
    if eq == "good":
        return rel, 0.0
    b = np.asarray(T["badnum"][eq](f, **params), dtype=complex)
    return rel, float(np.max(np.abs(a - b) / (1e-8 + 1e-5 * np.abs(b))))


def allclose_ratio(tmpl, params, eq):
    """max over the 5 validation frequencies and over (re, im) of |a-b| / (atol + rtol*|b|) with numpy.allclose's
    defaults: > 1 means 'the library's comparison must see a contradiction', << 1 means 'agrees'."""
    np = _np()
    f = np.array(VFREQ)
    T = TEMPLATES[tmpl]
    a = np.asarray(T["num"](f, **params), dtype=complex)
    b = np.asarray((T["num"] if eq == "good" else T["badnum"][eq])(f, **params), dtype=complex)
    worst = 0.0
    for x, y in ((a.real, b.real), (a.imag, b.imag)):
        worst = max(worst, float(np.max(np.abs(x - y) / (1e-8 + 1e-5 * np.abs(y)))))
    return worst


# ------------------------------------------------------------------------------------------------
# history generator (JSON-able; the generator runs the model to know the registry state)
# ------------------------------------------------------------------------------------------------
HOSTILE_SYMBOLS = ["Lab", "Lb", "L1", "L_", "La1", "Lsx", "Ls_", "Ra", "Rab", "R2", "Cx", "Ca", "Cab", "T", "Tl", "Tlmx", "Tlmb", "Tlmbq1",
                   "Tlmn", "Kx", "Ky1", "K_", "Wsx", "Wa", "Z", "Za", "Zar", "Zarcx", "Ha1", "Hb", "Gab", "Qa", "Q_1", "X", "Xy", "Xyz", "X_1",
                   "A", "Ab", "A_b", "A0", "U", "Uv", "Uvw", "E", "Ee", "M1", "M12"]
INVALID_SYMBOLS = ["", " ", "r", "lab", "1R", "_R", "RR", "RC", "LaB", "R-a", "R a", "R.", "Rß", "Äb", "R{", "X:", 5, None]
NEG_STATIC = ["Lab", "Lb", "La1", "Lsx", "Rab", "Ra", "Cx", "Tl", "Tlmx", "Tlmbq1", "Kx", "Kyz", "Wsx", "Zar", "Zarcx", "Q_1", "Q_", "Xy", "X",
              "r", "lab", "la", "tlm", "c1", "A_b", "U"]


def _rand_symbol(rng):
    alpha = "abcdefghijklmnopqrstuvwxyz0123456789_"
    n = int(rng.integers(0, 5))
    return "ABCDEFGHIJKLMNOPQRSTUVWXYZ"[int(rng.integers(0, 26))] + "".join(alpha[int(i)] for i in rng.integers(0, len(alpha), size=n))


def _draw_params(rng, tmpl):
    out = {}
    for k, (lo, hi) in TEMPLATES[tmpl]["params"].items():
        if k == "n":
            out[k] = float(round(rng.uniform(lo, hi), 3))
        else:
            out[k] = float("%.4g" % (10 ** rng.uniform(math.log10(lo), math.log10(hi))))
    return out


def _new_default(rng, info, key, wild):
    v, lo, hi = info["defaults"][key], info["lower"][key], info["upper"][key]
    r = rng.random()
    if wild and r < 0.12:
        return float(rng.choice([0.0, -1.0, 1e30, -1e-30, float("inf")]))  # outside the limit box: set_default_values does not validate
    if math.isfinite(lo) and math.isfinite(hi) and hi - lo <= 2:
        return float(round(rng.uniform(lo, hi), 4))
    base = abs(v) if v not in (0.0,) and math.isfinite(v) else 1.0
    return float("%.5g" % (base * 10 ** rng.uniform(-3, 3)))


def gen_history(rng, binfo, tier="quick", long=False):
    """One concrete history. binfo: {symbol: {private, defaults, lower, upper}} of the built-ins."""
    m = Model(binfo)
    bsyms = sorted(binfo)
    wide = tier != "quick" or long
    pool = [str(s) for s in rng.choice(HOSTILE_SYMBOLS, size=int(rng.integers(2, 8 if wide else 5)), replace=False)]
    pool += [_rand_symbol(rng) for _ in range(int(rng.integers(0, 5 if wide else 3)))]
    pool = [s for s in dict.fromkeys(pool) if s not in binfo]
    users = {}  # tok -> last definition op (dict)
    ever_ok = set()  # user tokens that were successfully registered at least once (own their default dicts)
    nops = int(rng.integers(8, 21 if tier == "quick" else 41)) * (2 if long else 1)
    ops = []
    kinds = ["register", "remove", "reset", "set_defaults", "reset_defaults", "parse", "tamper"]
    weights = [0.34, 0.12, 0.10, 0.17, 0.08, 0.13, 0.06]
    wild = bool(rng.random() < 0.5)

    def held(tok):
        return [s for s, v in m.E.items() if v == tok]

    def new_def(tok, symbol, eq="good"):
        tmpl = users[tok]["tmpl"] if tok in users else str(rng.choice(TEMPLATE_NAMES, p=TEMPLATE_P))
        if eq == "bad":
            eq = str(rng.choice(list(TEMPLATES[tmpl]["bad"])))
        for _ in range(50):
            params = _draw_params(rng, tmpl)
            if eq == "good" or allclose_ratio(tmpl, params, eq) >= 1e3:
                break
        else:  # pragma: no cover - the parameter boxes make this unreachable
            eq = "good"
        return {"op": "register", "tok": tok, "tmpl": tmpl, "symbol": symbol, "params": params,
                "fixed": {k: bool(rng.random() < 0.2) for k in params}, "eq": eq, "ok": eq == "good",
                "private": [None, True, False][int(rng.choice(3, p=[0.4, 0.4, 0.2]))],
                "validate": [None, True][int(rng.integers(0, 2))], "variant": "valid" if eq == "good" else "inconsistent:" + eq}

    for _ in range(nops):
        k = str(rng.choice(kinds, p=weights))
        registered_users = [t for t in users if held(t)]
        if k == "register":
            v = str(rng.choice(["valid", "dup-builtin", "dup-user", "inconsistent", "invalid-symbol", "again", "padded", "reuse-inconsistent", "redefine"],
                               p=[0.42, 0.07, 0.07, 0.10, 0.07, 0.05, 0.05, 0.13, 0.04]))
            idle = [t for t in users if t in ever_ok and not held(t)]  # accepted earlier, currently unregistered
            free = [s for s in pool if s not in m.E]
            new_tok = "u%d" % len(users)
            if v == "again":
                if not registered_users:
                    continue
                op = dict(users[str(rng.choice(registered_users))])  # identical re-registration of a registered class: idempotent
                op["variant"] = "again"
            elif v == "reuse-inconsistent":
                # the SAME class object that was accepted before comes back with an equation contradicting its _impedance,
                # optionally after remove_elements / reset, under its old symbol or another free one: must be refused
                if not ever_ok:
                    continue
                tok = str(rng.choice(sorted(ever_ok)))
                after = str(rng.choice(["nothing", "remove", "reset"]))
                if after == "remove" and held(tok):
                    m.remove([tok])
                    ops.append({"op": "remove", "toks": [tok], "form": str(rng.choice(["single", "list"]))})
                elif after == "reset" and held(tok):
                    d = bool(rng.integers(0, 2))
                    m.reset(True, d)
                    ops.append({"op": "reset", "elements": True, "default_parameters": d, "form": "kw"})
                elif not held(tok):
                    after = "unregistered-earlier"
                old_sym = users[tok]["symbol"].strip()
                free = [s for s in pool if s not in m.E]
                if held(tok):
                    symkind = "same" if rng.random() < 0.6 or not free else "other"
                    sym = held(tok)[0] if symkind == "same" else str(rng.choice(free))
                else:
                    symkind = "same" if old_sym not in m.E and rng.random() < 0.6 else "other"
                    sym = old_sym if symkind == "same" else (str(rng.choice([s for s in free if s != old_sym])) if [s for s in free if s != old_sym] else None)
                    if sym is None:
                        sym, symkind = (old_sym, "same") if old_sym not in m.E else (None, None)
                    if sym is None:
                        continue
                op = new_def(tok, sym, eq="bad")
                if op["eq"] == "good":
                    continue
                op["variant"] = "reuse-inconsistent:" + op["eq"]
                op["after"] = after
                op["symkind"] = symkind
            elif v == "redefine":
                # still-registered class, same symbol, same private flag, changed but consistent definition (either outcome accepted)
                if not registered_users:
                    continue
                tok = str(rng.choice(registered_users))
                op = new_def(tok, held(tok)[0])
                op["private"] = users[tok]["private"]
                op["variant"] = "redefine"
            elif v == "dup-builtin":
                op = new_def(new_tok, str(rng.choice(bsyms)))
                op["variant"] = "dup-builtin"
            elif v == "dup-user":
                if not registered_users:
                    continue
                op = new_def(new_tok, held(str(rng.choice(registered_users)))[0])
                op["variant"] = "dup-user"
            elif v == "inconsistent":  # always a class that was never accepted
                op = new_def(new_tok, str(rng.choice(free)) if free else _rand_symbol(rng), eq="bad")
            elif v == "invalid-symbol":
                op = new_def(new_tok, INVALID_SYMBOLS[int(rng.integers(0, len(INVALID_SYMBOLS)))])
                op["ok"] = False
                op["variant"] = "invalid-symbol"
            else:
                sym = str(rng.choice(free)) if free else _rand_symbol(rng)
                if sym in m.E:
                    continue
                op = new_def(str(rng.choice(idle)) if idle and rng.random() < 0.4 else new_tok, sym)
                if v == "padded":
                    op["symbol"] = " " + sym + "  "
                    op["variant"] = "padded"
                if rng.random() < 0.15:
                    op["validate"] = False
            ok = m.register(op["tok"], op["symbol"], op["ok"], op["private"], op["params"])
            if ok or op["tok"] not in users:
                users[op["tok"]] = dict(op)
            if ok:
                ever_ok.add(op["tok"])
                if op["symbol"].strip() not in pool:
                    pool.append(op["symbol"].strip())
            ops.append(op)
        elif k == "remove":
            r = rng.random()
            if r < 0.12:
                ops.append({"op": "remove", "toks": [], "form": str(rng.choice(["empty", "string", "instance"]))})
                continue
            cand = list(users)
            toks = [str(t) for t in rng.choice(cand, size=min(len(cand), int(rng.integers(1, 3))), replace=False)] if cand else []
            if r < 0.35 or not toks:
                toks.insert(int(rng.integers(0, len(toks) + 1)), "b:" + str(rng.choice(bsyms)))
            form = "single" if len(toks) == 1 and rng.random() < 0.6 else "list"
            m.remove(toks)
            ops.append({"op": "remove", "toks": toks, "form": form})
        elif k == "reset":
            e, d = [(True, True), (True, True), (True, False), (False, True), (False, False)][int(rng.integers(0, 5))]
            m.reset(e, d)
            ops.append({"op": "reset", "elements": e, "default_parameters": d, "form": str(rng.choice(["default", "kw", "pos"])) if (e and d) else str(rng.choice(["kw", "pos"]))})
        elif k == "set_defaults":
            own = [t for t in ever_ok]
            if own and rng.random() < 0.3:
                tok = str(rng.choice(own))
                info = {"defaults": m.D[tok], "lower": {k_: 0.0 for k_ in m.D[tok]}, "upper": {k_: (1.0 if k_ == "n" else float("inf")) for k_ in m.D[tok]}}
            else:
                s = str(rng.choice(bsyms + [b for b in bsyms if binfo[b]["private"]] * 3))
                tok, info = "b:" + s, {"defaults": m.D["b:" + s], "lower": binfo[s]["lower"], "upper": binfo[s]["upper"]}
            keys = list(m.D[tok])
            chosen = [str(x) for x in rng.choice(keys, size=int(rng.integers(1, len(keys) + 1)), replace=False)]
            pairs = [[k_, _new_default(rng, info, k_, wild)] for k_ in chosen]
            inv = None
            if rng.random() < 0.15:
                inv = str(rng.choice(["unknown-key", "odd", "dup", "non-numeric"]))
            form = str(rng.choice(["kw", "args", "mixed"]))
            if inv == "unknown-key":
                pairs.insert(int(rng.integers(0, len(pairs) + 1)), ["not_a_parameter", 1.0])
            elif inv == "non-numeric":
                pairs[int(rng.integers(0, len(pairs)))][1] = "abc"
            elif inv in ("odd", "dup"):
                form = "args" if inv == "odd" else "mixed"
            if inv is None:
                m.set_defaults(tok, pairs)
            ops.append({"op": "set_defaults", "tok": tok, "pairs": pairs, "form": form, "invalid": inv})
        elif k == "reset_defaults":
            r = rng.random()
            if r < 0.3:
                toks = None
            elif r < 0.4:
                ops.append({"op": "reset_defaults", "toks": [], "form": str(rng.choice(["empty", "string", "instance"]))})
                continue
            else:
                cand = ["b:" + s for s in bsyms] + list(ever_ok)
                toks = [str(t) for t in rng.choice(cand, size=int(rng.integers(1, 4)), replace=False)]
            form = "none" if toks is None else ("single" if len(toks) == 1 and rng.random() < 0.6 else "list")
            m.reset_defaults(toks)
            ops.append({"op": "reset_defaults", "toks": toks, "form": form})
        elif k == "parse":
            reg = sorted(m.E)
            n = int(rng.integers(1, 7))
            items = []
            for _ in range(n):
                if rng.random() < 0.12:
                    s = str(rng.choice([x for x in pool + NEG_STATIC if x not in m.E and IDENT.fullmatch(x)] or ["Nope"]))
                    items.append({"s": s, "p": None})
                else:
                    s = str(rng.choice(reg + [x for x in reg if m.E[x] in users] * 3))
                    p = None
                    if rng.random() < 0.3 and m.D.get(m.E[s]):
                        key = str(rng.choice(list(m.D[m.E[s]])))
                        p = [key, "%.6E" % (abs(m.D[m.E[s]][key]) if math.isfinite(m.D[m.E[s]][key]) and m.D[m.E[s]][key] != 0 else 1.0)]
                    items.append({"s": s, "p": p})
            ops.append({"op": "parse", "items": items, "style": str(rng.choice(["series", "parallel", "mixed", "bracket"]))})
        else:
            ops.append({"op": "tamper", "flags": [bool(rng.integers(0, 2)), bool(rng.integers(0, 2))], "sym": str(rng.choice(bsyms)),
                        "how": str(rng.choice(["clear", "pop-builtin", "insert", "defaults"]))})
    if rng.random() < 0.35:
        ops.append({"op": "reset", "elements": True, "default_parameters": True, "form": "default"})
    return {"ops": ops, "pool": pool}


def build_cdc(items, style):
    parts = [it["s"] + ("{%s=%s}" % (it["p"][0], it["p"][1]) if it["p"] else "") for it in items]
    if style == "parallel" and len(parts) >= 2:
        return "(" + "".join(parts) + ")"
    if style == "bracket":
        return "[" + "".join(parts) + "]"
    if style == "mixed" and len(parts) >= 3:
        return parts[0] + "(" + parts[1] + "[" + "".join(parts[2:]) + "])"
    return "".join(parts)


def signature(hist):
    sig = []
    for o in hist["ops"]:
        k = o["op"]
        if k == "register":
            sig.append((k, o["variant"], o["tmpl"], str(o["symbol"]), o["private"], o["validate"], o["tok"]))
        elif k in ("remove", "reset_defaults"):
            sig.append((k, tuple(o["toks"] or ()) if o.get("toks") is not None else None, o["form"]))
        elif k == "reset":
            sig.append((k, o["elements"], o["default_parameters"]))
        elif k == "set_defaults":
            sig.append((k, o["tok"], tuple(p[0] for p in o["pairs"]), o["invalid"]))
        elif k == "parse":
            sig.append((k, tuple(i["s"] for i in o["items"]), o["style"]))
        else:
            sig.append((k, o["how"]))
    return tuple(sig)


# ------------------------------------------------------------------------------------------------
# executor + oracle (needs the library)
# ------------------------------------------------------------------------------------------------
def _fl(x):
    return repr(float(x))


def builtin_info():
    """Facts about the built-ins read from the (unmutated) library: used by the generator and by the model."""
    from pyimpspec import get_elements

    allb = get_elements(default_only=True, private=True)
    pub = get_elements(default_only=True, private=False)
    return {s: {"private": s not in pub, "defaults": {k: float(v) for k, v in c.get_default_values().items()},
                "lower": {k: float(v) for k, v in c.get_default_lower_limits().items()},
                "upper": {k: float(v) for k, v in c.get_default_upper_limits().items()}} for s, c in allb.items()}


PROBES_POS = ["LLaLs", "LsLaL", "R{R=5}C{C=1e-5}", "(RC)", "[R(LaLs)L]", "KKy", "WWoWs", "TlmTlmboTlmbqTlmbsTlmnoTlmnqTlmns", "GGaHHaQZarc",
              "Tlm{X_1=RLa, X_2=short, Z_A=open}", "R{R=2.5F/1/3:lbl}"]


class Executor:
    def __init__(self):
        import pyimpspec
        from pyimpspec import get_elements, parse_cdc, register_element
        from pyimpspec.circuit import registry
        from pyimpspec.circuit.base import Container, Element

        self.lib = pyimpspec
        self.reg = registry
        self.get_elements = get_elements
        self.parse_cdc = parse_cdc
        self.register_element = register_element
        self.Element = Element
        self.Container = Container
        self.fresh_classes = dict(get_elements(default_only=True, private=True))  # strong refs to the original class objects
        self.binfo = builtin_info()
        self.stats = {}
        self.maxobs = {}
        self.ratio_seen = set()
        self.snapshot0 = self.full_snapshot()

    # -- bookkeeping --------------------------------------------------------------------------
    def count(self, name, n=1):
        self.stats[name] = self.stats.get(name, 0) + n

    def obs(self, name, v):
        self.maxobs[name] = max(self.maxobs.get(name, v), v)

    # -- full observable state of the built-ins ("as freshly imported") --------------------------------
    def _try_parse(self, text):
        try:
            with warnings.catch_warnings():
                warnings.simplefilter("ignore")
                return "ok:" + self.parse_cdc(text).to_string(12)
        except Exception as e:
            return "raised:" + type(e).__name__

    def full_snapshot(self):
        snap = {}
        for d in (False, True):
            for p in (False, True):
                try:
                    v = self.get_elements(default_only=d, private=p)
                    snap["views/d%dp%d" % (d, p)] = sorted((s, c.__module__ + "." + c.__qualname__, id(c) == id(self.fresh_classes.get(s))) for s, c in v.items())
                except Exception as e:
                    snap["views/d%dp%d" % (d, p)] = "raised:" + type(e).__name__
        for s, c in sorted(self.fresh_classes.items()):
            pre = "class/%s/" % s
            snap[pre + "defaults/values"] = {k: _fl(v) for k, v in c.get_default_values().items()}
            snap[pre + "limits/lower"] = {k: _fl(v) for k, v in c.get_default_lower_limits().items()}
            snap[pre + "limits/upper"] = {k: _fl(v) for k, v in c.get_default_upper_limits().items()}
            snap[pre + "limits/fixed"] = {k: bool(v) for k, v in c.are_fixed_by_default().items()}
            snap[pre + "static/symbol"] = c.get_symbol()
            snap[pre + "static/name"] = c._name
            snap[pre + "static/description"] = c.get_description()
            snap[pre + "static/doc"] = c.get_extended_description()
            snap[pre + "static/equation"] = c._equation
            snap[pre + "static/units"] = dict(c.get_units())
            snap[pre + "static/value_descriptions"] = dict(c.get_value_descriptions())
            snap[pre + "static/kwargs_keys"] = sorted(c._valid_kwargs_keys)
            if issubclass(c, self.Container):
                snap[pre + "static/subcircuits"] = {k: (None if v is None else v.to_string(12)) for k, v in c.get_default_subcircuits().items()}
            try:
                snap[pre + "instance/to_string"] = c().to_string(12)
            except Exception as e:
                snap[pre + "instance/to_string"] = "raised:" + type(e).__name__
            snap["probe/" + s] = self._try_parse(s)
        for t in PROBES_POS:
            snap["probe/" + t] = self._try_parse(t)
        for t in NEG_STATIC + [b + x for b in self.fresh_classes for x in ("a1", "_")]:
            if t not in self.fresh_classes:
                snap["negprobe/" + t] = self._try_parse(t)
        return snap

    def snapshot_diff(self, snap):
        return sorted(k for k in set(snap) | set(self.snapshot0) if snap.get(k) != self.snapshot0.get(k))

    # -- class materialisation ----------------------------------------------------------------
    def make_class(self, tok, tmpl):
        np = _np()
        T = TEMPLATES[tmpl]
        name = "User_%s_%s" % (tmpl, tok)
        if tmpl == "subR":
            return type(name, (self.fresh_classes["R"],), {})
        if tmpl == "cont":
            def _impedance(self, f, R, X):
                if X is None:
                    return np.full(np.shape(f), np.inf, dtype=complex)
                return R + X.get_impedances(f)

            return type(name, (self.Container,), {"_impedance": _impedance})
        num = T["num"]

        def _impedance(self, f, **kw):
            return np.asarray(num(f, **kw), dtype=complex)

        return type(name, (self.Element,), {"_impedance": _impedance})

    def make_definition(self, cls, op):
        from numpy import inf
        from pyimpspec import ContainerDefinition, ElementDefinition, ParameterDefinition, Resistor, Series, SubcircuitDefinition

        T = TEMPLATES[op["tmpl"]]
        params = [ParameterDefinition(symbol=k, unit="unit_" + k, description="parameter " + k, value=v, lower_limit=0.0,
                                      upper_limit=1.0 if k == "n" else inf, fixed=bool(op["fixed"].get(k, False))) for k, v in op["params"].items()]
        common = dict(Class=cls, symbol=op["symbol"], name="User element " + op["tmpl"], description="User-defined test element.",
                      equation=T["good"] if op["eq"] == "good" else T["bad"][op["eq"]], parameters=params)
        if op["tmpl"] == "cont":
            return ContainerDefinition(subcircuits=[SubcircuitDefinition("X", "ohm", "inner circuit", Series([Resistor(R=20.0)]))], **common)
        return ElementDefinition(**common)

    def sympy_ratio(self, op):
        """Independent (sympy) evaluation of the declared equation vs the template's numeric impedance, in units of
        numpy.allclose's tolerance: the generator's precondition made visible in the evidence."""
        import sympy

        np = _np()
        T = TEMPLATES[op["tmpl"]]
        expr = sympy.sympify(T["good"] if op["eq"] == "good" else T["bad"][op["eq"]]).subs({**op["params"], "X": 20.0})
        zs = np.array([complex(expr.subs("f", x)) for x in VFREQ])
        zf = np.asarray(T["num"](np.array(VFREQ), **op["params"]), dtype=complex)
        w = 0.0
        for a, b in ((zf.real, zs.real), (zf.imag, zs.imag)):
            w = max(w, float(np.max(np.abs(a - b) / (1e-8 + 1e-5 * np.abs(b)))))
        return w

    # -- one history ----------------------------------------------------------------------------
    def run_history(self, hist, hidx=0):
        H = _History(self, hist, hidx)
        H.run()
        return H

    # -- barrier between histories ----------------------------------------------------------------
    def barrier(self, H):
        """reset() must bring every observable back to the import-time snapshot, and a registration after it must behave
        as on a fresh import. Returns (violations, clean)."""
        viol = []
        self.count("barrier")
        public_dirty = any(H.m.D[t] != d0 for t, d0 in H.m.D0.items() if not self.binfo[t[2:]]["private"])
        try:
            self.reg.reset()
        except Exception as e:
            return [H.mk("C15/op-raised:reset:" + type(e).__name__, "barrier reset() raised: " + _tb(e), step=None)], False
        diff = self.snapshot_diff(self.full_snapshot())
        self.count("snapshot-compare")
        if diff:
            viol.append(H.mk(_fresh_key(diff, self, public_dirty), "after reset() the library differs from its freshly imported state in: %s" % _diff_text(diff, self), step=None,
                             extra={"barrier": True}))
            return viol, False
        # a subsequent registration behaves as on a fresh import: every symbol the history used is free again and public
        syms = [s for s in H.used_symbols if s not in self.fresh_classes][:6]
        for i, s in enumerate(syms):
            op = {"op": "register", "tok": "probe%d" % i, "tmpl": "R", "symbol": s, "params": {"R": 11.0 + i}, "fixed": {"R": False}, "eq": "good"}
            cls = self.make_class(op["tok"], "R")
            self.count("postreset-registration")
            try:
                with warnings.catch_warnings():
                    warnings.simplefilter("ignore")
                    self.register_element(self.make_definition(cls, op))
            except Exception as e:
                viol.append(H.mk("C15/postreset-registration-refused:" + type(e).__name__, "after reset() registering a fresh public element %r raised: %s" % (s, _tb(e)),
                                 step=None, extra={"barrier": True, "symbol": s}))
                continue
            pub, allv = self.get_elements(), self.get_elements(private=True)
            if allv.get(s) is not cls:
                viol.append(H.mk("C15/view-missing:postreset-registration", "after reset() a freshly registered %r is not in get_elements(private=True)" % s, step=None,
                                 extra={"barrier": True, "symbol": s}))
            elif pub.get(s) is not cls:
                key = "C15/reset-keeps-private-flag" if s in H.ever_private else "C15/view-hidden:postreset-registration"
                viol.append(H.mk(key, "after reset() a freshly registered PUBLIC element %r is hidden from get_elements()%s" % (s, " (the symbol was registered with private=True before the reset)" if s in H.ever_private else ""),
                                 step=None, extra={"barrier": True, "symbol": s}))
            if s in self.get_elements(default_only=True, private=True):
                viol.append(H.mk("C15/view-extra:postreset-registration", "user element %r listed among the default elements" % s, step=None, extra={"barrier": True}))
            got = self._try_parse(s)
            if not got.startswith("ok:[" + s + "{"):
                viol.append(H.mk("C15/parser-unrecognised-registered", "after reset()+register the parser answers %r for %r" % (got, s), step=None, extra={"barrier": True}))
        if syms:
            try:
                self.reg.reset()
            except Exception as e:
                return viol + [H.mk("C15/op-raised:reset:" + type(e).__name__, _tb(e), step=None)], False
            diff = self.snapshot_diff(self.full_snapshot())
            self.count("snapshot-compare")
            if diff:
                viol.append(H.mk(_fresh_key(diff, self), "after register+reset() the library differs from its freshly imported state in: %s" % _diff_text(diff, self),
                                 step=None, extra={"barrier": True}))
                return viol, False
        return viol, not viol  # a failed registration probe means hidden state leaked: do not run further histories here


def _tb(e):
    return "".join(traceback.format_exception(type(e), e, e.__traceback__)[-4:])[-900:]


def _diff_text(diff, ex, snap=None):
    return ", ".join(diff[:8]) + (" ..." if len(diff) > 8 else "")


def _fresh_key(diff, ex, public_dirty=False):
    cdiff = [d for d in diff if d.startswith("class/")]
    kinds = sorted({d.split("/")[2] if d.startswith("class/") else d.split("/")[0] for d in diff})
    if cdiff and all(d.split("/")[2] in ("defaults", "instance") for d in cdiff) and all(d.startswith(("class/", "probe/")) for d in diff):
        priv = {s for s, i in ex.binfo.items() if i["private"]}
        if public_dirty and {d.split("/")[1] for d in cdiff} <= priv:  # changed public built-ins came back, private ones did not
            return "C15/reset-skips-private-builtin-defaults"
        return "C15/not-fresh-after-reset:defaults"
    return "C15/not-fresh-after-reset:" + "+".join(kinds)


class _History:
    def __init__(self, ex, hist, hidx):
        self.ex = ex
        self.hist = hist
        self.hidx = hidx
        self.m = Model(ex.binfo)
        self.cls = {"b:" + s: c for s, c in ex.fresh_classes.items()}  # token -> class object
        self.viol = []
        self.steps = 0
        self.used_symbols = []
        self.ever_private = set()
        self.reset_since_private = set()
        self.aborted = False
        self.nontrivial = False

    # -- helpers --------------------------------------------------------------------------------
    def mk(self, key, msg, step, extra=None):
        ops = self.hist["ops"] if step is None else self.hist["ops"][: step + 1]
        w = {"history_index": self.hidx, "step": step, "replay_case": {"kind": "explicit", "histories": [{"ops": ops, "pool": self.hist.get("pool", [])}]}}
        if extra:
            w.update(extra)
        where = "history %d, " % self.hidx + ("barrier" if step is None else "step %d (%s)" % (step, _op_text(self.hist["ops"][step])))
        return {"key": key, "msg": where + ": " + msg, "witness": w}

    def bad(self, key, msg, step, extra=None):
        self.viol.append(self.mk(key, msg, step, extra))

    def klass(self, tok, tmpl=None):
        if tok not in self.cls:
            self.cls[tok] = self.ex.make_class(tok, tmpl)
        return self.cls[tok]

    def tok_of(self, c):
        for t, k in self.cls.items():
            if k is c:
                return t
        return "?" + getattr(c, "__name__", repr(c))

    # -- main loop ------------------------------------------------------------------------------
    def run(self):
        for step, op in enumerate(self.hist["ops"]):
            self.ex.count("op:" + op["op"] + (":" + op["variant"].split(":")[0] if op["op"] == "register" else ""))
            before_D = {t: dict(d) for t, d in self.m.D.items()}
            ctx = getattr(self, "do_" + op["op"])(step, op)
            self.observe(step, op, ctx or op["op"], before_D)
            self.steps += 1
            if self.viol:
                self.aborted = True
                break

    def call(self, fn, *a, **kw):
        try:
            with warnings.catch_warnings():
                warnings.simplefilter("ignore")
                return ("ok", fn(*a, **kw))
        except Exception as e:  # library exception: an outcome, judged by the caller
            return ("raised", e)

    # -- operations ------------------------------------------------------------------------------
    def do_register(self, step, op):
        ex = self.ex
        cls = self.klass(op["tok"], op["tmpl"])
        sym = op["symbol"].strip() if isinstance(op["symbol"], str) else None
        if sym and VALID_SYMBOL.match(sym) and sym not in self.used_symbols:
            self.used_symbols.append(sym)
        rkey = (op["tmpl"], json.dumps(op["params"], sort_keys=True), op["eq"])
        if op["variant"].split(":")[0] in ("valid", "inconsistent", "padded", "reuse-inconsistent", "redefine") and rkey not in ex.ratio_seen:
            ex.ratio_seen.add(rkey)
            r = ex.sympy_ratio(op)
            if op["eq"] == "good":
                ex.obs("valid_def_mismatch_in_allclose_units", r)
            else:
                ex.obs("inconsistent_def_inverse_margin_in_allclose_units", 1.0 / r if r > 0 else float("inf"))
                if "minor" in TEMPLATES[op["tmpl"]]:
                    ex.obs("minor_component_inverse_margin_in_own_allclose_units", 1.0 / r if r > 0 else float("inf"))
            if "minor" in TEMPLATES[op["tmpl"]]:
                rel, whole = minor_relative_size(op["tmpl"], op["params"], op["eq"])
                ex.obs("minor_component_over_modulus", rel)
                ex.obs("minor_contradiction_in_complex_allclose_units", whole)
        try:
            definition = ex.make_definition(cls, op)
        except Exception as e:  # ParameterDefinition validates value vs limits; the generator never violates that -> harness problem
            raise RuntimeError("harness: could not build definition for %r: %r" % (op, e))
        kwargs = {}
        if op["private"] is not None:
            kwargs["private"] = op["private"]
        if op["validate"] is not None:
            kwargs["validate_impedances"] = op["validate"]
        dup = isinstance(sym, str) and sym in self.m.E and self.m.E[sym] != op["tok"]
        dup_kind = "builtin" if dup and sym in self.m.B else "user"
        expected = self.m.register(op["tok"], op["symbol"], op["ok"], op["private"], op["params"])
        out, val = self.call(ex.register_element, definition, **kwargs)
        variant = op["variant"].split(":")[0]
        if "minor" in TEMPLATES[op["tmpl"]] and op["eq"] != "good":
            ex.count("pattern:minor-component")
            ex.count("pattern:minor-component:%s:%s:%s" % (op["tmpl"], op["eq"], "refused" if out == "raised" else "accepted"))
        if variant == "reuse-inconsistent":
            ex.count("pattern:reuse-inconsistent")
            ex.count("pattern:reuse-inconsistent:after=%s:symbol=%s:eq=%s" % (op.get("after"), op.get("symkind"), op["eq"]))
        if variant == "redefine":
            ex.count("pattern:redefine:" + ("accepted" if out == "ok" else "refused"))
            if out == "raised":  # statement is silent on redefining a registered class: a refusal is accepted, the class stays registered
                self.m.D[op["tok"]] = {k: float(v) for k, v in cls.get_default_values().items()}
                return "register-refused"
        if expected and out == "raised":
            self.bad("C15/valid-registration-refused:%s:%s" % (variant, type(val).__name__), "a valid definition (symbol %r, template %s) was refused: %s" % (op["symbol"], op["tmpl"], _tb(val)), step)
        if not expected and out == "ok":
            if not op["ok"] and variant == "invalid-symbol":
                key = "C15/invalid-symbol-accepted"
            elif not op["ok"]:
                key = "C15/inconsistent-accepted:" + ("minor-" if "minor" in TEMPLATES[op["tmpl"]] else "") + op["eq"]
            else:
                key = "C15/duplicate-symbol-accepted:" + dup_kind
            self.bad(key, "register_element accepted a definition that must be refused (symbol %r, equation %r, variant %s)" % (op["symbol"], definition.equation, op["variant"]), step)
        self.ex.count("register-cell:%s:%s:private=%s:%s" % (variant, op["tmpl"], op["private"], "accepted" if out == "ok" else "refused"))
        if expected:
            self.nontrivial = True
            if op["private"] is True:
                self.ever_private.add(sym)
        return "register" if expected else "register-refused"

    def _class_args(self, toks, form):
        if form == "empty":
            return []
        if form == "string":
            return "R"
        if form == "instance":
            return self.ex.fresh_classes["R"]()
        objs = [self.klass(t, self._tmpl_of(t)) for t in toks]
        return objs[0] if form == "single" else objs

    def _tmpl_of(self, tok):
        for o in self.hist["ops"]:
            if o["op"] == "register" and o["tok"] == tok:
                return o["tmpl"]
        return "R"

    def do_remove(self, step, op):
        arg = self._class_args(op["toks"], op["form"])
        if op["form"] in ("empty", "string", "instance"):
            self.call(self.ex.reg.remove_elements, arg)  # raising or not: nothing may change (statement is silent on the exception)
            return "remove-invalid"
        expected = self.m.remove(op["toks"])
        out, val = self.call(self.ex.reg.remove_elements, arg)
        if expected and out == "raised":
            self.bad("C15/op-raised:remove:" + type(val).__name__, "remove_elements of user-defined classes raised: " + _tb(val), step)
        if not expected and out == "ok":
            self.bad("C15/remove-builtin-accepted", "remove_elements accepted a built-in class (%s)" % op["toks"], step)
        return "remove" if expected else "remove-refused"

    def do_reset(self, step, op):
        self.m.reset(op["elements"], op["default_parameters"])
        self.ex.count("reset-cell:elements=%d:default_parameters=%d" % (op["elements"], op["default_parameters"]))
        if op["elements"]:
            self.reset_since_private |= self.ever_private
        if op["form"] == "default":
            out, val = self.call(self.ex.reg.reset)
        elif op["form"] == "pos":
            out, val = self.call(self.ex.reg.reset, op["elements"], op["default_parameters"])
        else:
            out, val = self.call(self.ex.reg.reset, elements=op["elements"], default_parameters=op["default_parameters"])
        if out == "raised":
            self.bad("C15/op-raised:reset:" + type(val).__name__, "reset raised: " + _tb(val), step)
        return "reset"

    def do_set_defaults(self, step, op):
        cls = self.klass(op["tok"], self._tmpl_of(op["tok"]))
        pairs = op["pairs"]
        args, kw = [], {}
        if op["form"] == "kw":
            kw = {k: v for k, v in pairs}
        elif op["form"] == "args":
            for k, v in pairs:
                args += [k, v]
        else:
            h = len(pairs) // 2
            kw = {k: v for k, v in pairs[:h]}
            for k, v in pairs[h:]:
                args += [k, v]
        if op["invalid"] == "odd":
            args = args[:-1] if args else ["R"]
        elif op["invalid"] == "dup":
            k0 = pairs[0][0]
            kw = {k0: pairs[0][1]}
            args = [k0, pairs[0][1]]
        out, val = self.call(cls.set_default_values, *args, **kw)
        if op["invalid"] is None:
            self.m.set_defaults(op["tok"], pairs)
            if out == "raised":
                self.bad("C15/op-raised:set_default_values:" + type(val).__name__, "set_default_values%r raised: %s" % (pairs, _tb(val)), step)
            return "set_defaults"
        # refused call (or a call the statement says nothing about): keys are unchanged as a set, the other values may be old or new
        obs = cls.get_default_values()
        if set(obs) != set(self.m.D[op["tok"]]):
            self.bad("C15/defaults-keys-changed", "after an invalid set_default_values(%s) the parameter set is %s" % (op["invalid"], sorted(obs)), step)
        for k, v in obs.items():
            if k in self.m.D[op["tok"]]:
                old = self.m.D[op["tok"]][k]
                new = [float(p[1]) for p in pairs if p[0] == k and not isinstance(p[1], str)]
                if not (_same(v, old) or any(_same(v, n) for n in new)):
                    self.bad("C15/defaults-mismatch:set_defaults-invalid", "default %s=%r is neither the old (%r) nor a requested value" % (k, v, old), step)
                self.m.D[op["tok"]][k] = float(v)
        return "set_defaults-invalid"

    def do_reset_defaults(self, step, op):
        if op["form"] in ("empty", "string", "instance"):
            self.call(self.ex.reg.reset_default_parameter_values, self._class_args([], op["form"]))
            return "reset_defaults-invalid"
        if op["toks"] is None:
            out, val = self.call(self.ex.reg.reset_default_parameter_values)
        else:
            arg = self._class_args(op["toks"], op["form"])
            out, val = self.call(self.ex.reg.reset_default_parameter_values, arg) if step % 2 else self.call(self.ex.reg.reset_default_parameter_values, elements=arg)
        self.m.reset_defaults(op["toks"])
        if out == "raised":
            self.bad("C15/op-raised:reset_default_parameter_values:" + type(val).__name__, "reset_default_parameter_values raised: " + _tb(val), step)
        return "reset_defaults"

    def do_parse(self, step, op):
        text = build_cdc(op["items"], op["style"])
        syms = [i["s"] for i in op["items"]]
        expected = self.m.expect_parse("".join(IDENT.findall(re.sub(r"\{[^}]*\}", "", text))))
        out, val = self.call(self.ex.parse_cdc, text)
        self.ex.count("parse-op:" + ("registered" if expected is not None else "with-unregistered"))
        if expected is None:
            if out == "ok":
                self.bad("C15/parser-accepts-unregistered", "parse_cdc(%r) succeeded although %s is not registered" % (text, [s for s in syms if s not in self.m.E]), step)
            return "parse"
        if out == "raised":
            self.bad("C15/parser-unrecognised-registered:" + type(val).__name__, "parse_cdc(%r) raised although every symbol is registered: %s" % (text, _tb(val)), step)
            return "parse"
        got = [type(e) for e in val.get_elements()]
        want = [self.cls[t] for t in expected]
        if len(got) != len(want) or any(a is not b for a, b in zip(got, want)):
            self.bad("C15/parser-wrong-class", "parse_cdc(%r) gave %s, expected %s" % (text, [self.tok_of(c) for c in got], expected), step)
            return "parse"
        for it, el in zip(op["items"], val.get_elements()):
            if it["p"] and not _same(el.get_value(it["p"][0]), float(it["p"][1])):
                self.bad("C15/parser-wrong-value", "parse_cdc(%r): %s=%r" % (text, it["p"][0], el.get_value(it["p"][0])), step)
        return "parse"

    def do_tamper(self, step, op):
        ex = self.ex
        out, d = self.call(ex.get_elements, default_only=op["flags"][0], private=op["flags"][1])
        if out == "ok":
            if op["how"] == "clear":
                d.clear()
            elif op["how"] == "pop-builtin":
                d.pop(op["sym"], None)
            elif op["how"] == "insert":
                d["Zz9"] = ex.fresh_classes["R"]
                d[op["sym"]] = ex.fresh_classes["C"]
        if op["how"] == "defaults":
            c = ex.fresh_classes[op["sym"]]
            for getter in (c.get_default_values, c.get_default_lower_limits, c.get_default_upper_limits, c.are_fixed_by_default, c.get_units):
                g = getter()
                for k in list(g):
                    g[k] = 12345.0
                g["zz"] = 1.0
        return "tamper"

    # -- observation after every step --------------------------------------------------------------
    def observe(self, step, op, ctx, before_D):
        ex, m = self.ex, self.m
        ex.count("observe")
        # 1. the four get_elements views
        for d in (False, True):
            for p in (False, True):
                name = "d%dp%d" % (d, p)
                out, got = self.call(ex.get_elements, d, p) if step % 2 else self.call(ex.get_elements, default_only=d, private=p)
                ex.count("view:" + name)
                if out == "raised":
                    self.bad("C15/get-elements-raised:" + type(got).__name__, "get_elements(default_only=%s, private=%s) raised: %s" % (d, p, _tb(got)), step)
                    continue
                want = m.view(d, p)
                for s, c in ex.fresh_classes.items():  # model-free: built-ins are never removed or shadowed
                    if p and s not in got:
                        self.bad("C15/builtin-removed", "built-in %r missing from get_elements(%s)" % (s, name), step)
                    elif s in got and got[s] is not c:
                        self.bad("C15/builtin-shadowed", "built-in symbol %r now maps to %s" % (s, self.tok_of(got[s])), step)
                missing = [s for s in want if s not in got]
                extra = [s for s in got if s not in want]
                wrong = [s for s in want if s in got and got[s] is not self.cls.get(want[s])]
                if missing:
                    hidden = [s for s in missing if not p and not d and s in self.call(ex.get_elements, private=True)[1]]
                    if hidden and all(s in self.reset_since_private for s in hidden):
                        key = "C15/reset-keeps-private-flag"
                    elif hidden:
                        key = "C15/view-hidden:" + ctx
                    else:
                        key = "C15/view-missing:" + ctx
                    self.bad(key, "get_elements(%s) lacks %s (expected %s)" % (name, missing, sorted(want)), step)
                if extra:
                    self.bad("C15/view-extra:" + ctx, "get_elements(%s) has unexpected %s" % (name, extra), step)
                if wrong:
                    self.bad("C15/view-wrong-class:" + ctx, "get_elements(%s) maps %s to other classes" % (name, wrong), step)
        if self.viol:
            return
        # 2. class defaults: built-ins follow the model (original values unless set_default_values changed them), limits never change
        mism = []  # (token, observed, expected, stale)
        for tok, want in m.D.items():
            c = self.cls.get(tok)
            if c is None:
                continue
            got = {k: float(v) for k, v in c.get_default_values().items()}
            ex.count("defaults-compare")
            if set(got) != set(want) or any(not _same(got[k], want[k]) for k in want):
                if tok in m.D0:
                    mism.append((tok, got, want, all(_same(got.get(k), before_D[tok].get(k)) for k in want)))
                elif ctx in ("reset", "reset_defaults") or (ctx == "register-refused" and tok == op.get("tok")):
                    m.D[tok] = dict(got)  # statement is silent about user-class defaults under reset / after a refused redefinition: follow
                else:
                    self.bad("C15/user-defaults-mismatch:" + ctx, "default values of user class %s are %s, expected %s" % (tok, got, want), step)
        if mism:
            full_reset = (op["op"] == "reset" and op["default_parameters"]) or (op["op"] == "reset_defaults" and op.get("toks") is None and op["form"] == "none")
            public_restored = any(before_D[t] != d0 and t not in [x[0] for x in mism] for t, d0 in m.D0.items() if not ex.binfo[t[2:]]["private"])
            only_private_stale = all(ex.binfo[t[2:]]["private"] and stale for t, _, _, stale in mism)
            # narrow mechanism: a full reset restored changed public built-ins but left the private ones (K, Ky) as they were
            key = "C15/reset-skips-private-builtin-defaults" if (full_reset and only_private_stale and public_restored) else "C15/defaults-mismatch:" + ctx
            for tok, got, want, stale in mism:
                self.bad(key, "default values of built-in %s are %s, expected %s%s" % (tok[2:], got, want, " (unchanged by this operation)" if stale else ""), step)
        for s, c in ex.fresh_classes.items():
            i = ex.binfo[s]
            if ({k: float(v) for k, v in c.get_default_lower_limits().items()} != i["lower"] or {k: float(v) for k, v in c.get_default_upper_limits().items()} != i["upper"]
                    or c.get_symbol() != s):
                self.bad("C15/builtin-static-changed:" + ctx, "limits or symbol of built-in %s changed" % s, step)
        if self.viol:
            return
        # 3. parser recognises exactly the registered symbols; longest symbol wins
        reg = sorted(m.E)
        for s in reg:
            out, val = self.call(ex.parse_cdc, s)
            ex.count("probe:registered")
            if out == "raised":
                self.bad("C15/parser-unrecognised-registered:" + type(val).__name__, "parse_cdc(%r) raised although the symbol is registered: %s" % (s, _tb(val)), step)
                continue
            els = val.get_elements()
            if len(els) != 1 or type(els[0]) is not self.cls[m.E[s]]:
                self.bad("C15/parser-wrong-class", "parse_cdc(%r) gave %s, expected [%s]" % (s, [self.tok_of(type(e)) for e in els], m.E[s]), step)
                continue
            want = m.D.get(m.E[s])
            if want is not None and any(not _same(v, want.get(k)) for k, v in els[0].get_values().items()):
                self.bad("C15/parsed-element-not-at-defaults", "parse_cdc(%r) has values %s, class defaults are %s" % (s, els[0].get_values(), want), step)
        for text in ("".join(reg), "".join(reversed(reg))):
            want = m.expect_parse(text)
            assert want is not None and len(want) == len(reg), "harness: concatenation of registered symbols does not split back"
            out, val = self.call(ex.parse_cdc, text)
            ex.count("probe:concatenation")
            if out == "raised":
                self.bad("C15/parser-longest-match:" + type(val).__name__, "parse_cdc(%r) raised: %s" % (text, str(val)[:200]), step)
            else:
                got = [type(e) for e in val.get_elements()]
                if len(got) != len(want) or any(a is not self.cls[b] for a, b in zip(got, want)):
                    self.bad("C15/parser-longest-match", "parse_cdc(%r) gave %s" % (text, [self.tok_of(c) for c in got]), step)
        neg = set(NEG_STATIC) | {s for s in self.hist.get("pool", []) if IDENT.fullmatch(s)} | set(self.used_symbols)
        for s in reg:
            if s not in m.B:
                neg |= {s[:i] for i in range(1, len(s))} | {s + "a", s + "1", s + "_x"}
        for s in sorted(neg - set(reg)):
            out, val = self.call(ex.parse_cdc, s)
            ex.count("probe:unregistered")
            if out == "ok":
                self.bad("C15/parser-accepts-unregistered", "parse_cdc(%r) succeeded (%s) although the symbol is not registered" % (s, val.to_string()), step)
        ex.obs("registered_user_symbols_at_once", float(len(reg) - len(m.B)))
        if self.viol:
            return
        # 4. model back in its initial state => every observable equals the import-time snapshot
        if m.fresh() and op["op"] in ("reset", "reset_defaults", "remove", "set_defaults"):
            diff = ex.snapshot_diff(ex.full_snapshot())
            ex.count("snapshot-compare")
            if diff:
                self.bad(_fresh_key(diff, ex) if op["op"] == "reset" else "C15/not-fresh:" + ctx, "state differs from the freshly imported library in: %s" % _diff_text(diff, ex), step)


def _same(a, b):
    if a is None or b is None:
        return False
    a, b = float(a), float(b)
    return a == b or (a != a and b != b)


def _op_text(op):
    k = op["op"]
    if k == "register":
        return "register %s as %r [%s, private=%s]" % (op["tok"], op["symbol"], op["variant"], op["private"])
    if k in ("remove", "reset_defaults"):
        return "%s %s (%s)" % (k, op.get("toks"), op["form"])
    if k == "reset":
        return "reset(elements=%s, default_parameters=%s)" % (op["elements"], op["default_parameters"])
    if k == "set_defaults":
        return "%s.set_default_values(%s)%s" % (op["tok"], op["pairs"], " [invalid: %s]" % op["invalid"] if op["invalid"] else "")
    if k == "parse":
        return "parse_cdc(%r)" % build_cdc(op["items"], op["style"])
    return "%s %s" % (k, op.get("how"))


# ------------------------------------------------------------------------------------------------
# worker entry point (fresh interpreter)
# ------------------------------------------------------------------------------------------------
def worker_main():
    job = json.load(sys.stdin)
    t0 = time.time()
    from vlib import env

    env.import_pyimpspec()
    ex = Executor()
    t_import = time.time() - t0
    results = []
    clean = True
    for i, hist in enumerate(job["histories"]):
        if not clean:
            results.append({"executed": False})
            continue
        H = ex.run_history(hist, i)
        viol = list(H.viol)
        bviol, clean = ex.barrier(H)
        if not H.viol:  # a history that already failed explains a dirty barrier
            viol += bviol
        elif bviol and not clean:
            pass
        results.append({"executed": True, "viol": viol, "steps": H.steps, "nontrivial": H.nontrivial, "aborted": H.aborted})
    sys.stdout.write("\n" + MARK + json.dumps({"results": results, "stats": ex.stats, "maxobs": ex.maxobs, "import_s": t_import,
                                               "builtins": len(ex.fresh_classes)}) + "\n")


if __name__ == "__main__":
    worker_main()
