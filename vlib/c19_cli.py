"""C19 helpers: drive the pyimpspec command-line interface (in-process and as a real subprocess), cut the text it
prints / writes into tables (csv, json, Markdown) and compare a table cell by cell with a pandas DataFrame obtained
from the API.

Nothing in here knows what the numbers mean; the property module decides which DataFrame belongs to which table.

Printed precision (what "equal" means for a printed number; the statement cannot mean more than the digits shown):
  csv   pandas writes the shortest text that round-trips a float  -> equal within TOL_CSV relative (measured 0.0)
  md    tabulate formats floats with '.{N}g', N = --output-significant-digits (default 6); columns that also hold text
        are printed in full                                         -> |printed - x| <= 0.5 * 10**(1-N) * |x| (+ 4 ulp)
  json  pandas' default double_precision=10: ten DECIMALS (round half up); outside [1e-15, 1e16) exponent form with
        ten significant digits                                      -> |printed - x| <= 0.5e-10 (+ 1e-15 |x|), resp. 0.5e-9 |x|
        non-finite numbers become null.
The json rule above is the *number check*.  Separately, a json value that carries fewer significant digits than
min(--output-significant-digits, the documented default 6) is reported under its own mechanism key
(`.../json-fewer-significant-digits-than-requested`), see the property module.
"""
import contextlib
import csv
import io
import json
import math
import os
import re
import subprocess
import sys

import numpy as np

TOL_CSV = 1e-12          # relative; worst observed 0.0 (repr round trip), smallest mutant effect > 1e-6
REL_ITERATIVE = 1e-9     # extra relative slack for the results of iterative analyses (fit, drt); worst observed 0.0
JSON_ABS = 0.5e-10       # half a unit of the tenth decimal
JSON_SLACK = 1.001       # the rounding is done in binary floating point
MD_SLACK = 1.0 + 1e-9
MD_ULPS = 4.0            # at 15+ requested digits the half-unit bound is as small as the spacing of doubles
JSON_SIG_DIGITS = 6      # a json number is reported as "short of digits" when it misses min(requested, documented default 6) digits

KNOWN_COLS = {
    "f (Hz)", "Re(Z) (ohm)", "Im(Z) (ohm)", "Mod(Z) (ohm)", "Phase(Z) (deg.)",
    "Element", "Parameter", "Value", "Std. err. (%)", "Unit", "Fixed", "Label",
    "tau (s)", "gamma (ohm)", "tau, RC (s)", "gamma, RC (ohm)", "tau, RL (s)", "gamma, RL (ohm)", "R_peak (ohm)",
}


# ------------------------------------------------------------------------------------------------
# running the CLI
# ------------------------------------------------------------------------------------------------
def run_inproc(argv, cwd=None):
    """pyimpspec.cli.main() with patched sys.argv and captured stdout.  Returns (stdout, exception or None)."""
    import pyimpspec.cli as cli

    old_argv = sys.argv
    old_cwd = os.getcwd()
    buf = io.StringIO()
    err = io.StringIO()
    exc = None
    sys.argv = ["pyimpspec"] + [str(a) for a in argv]
    try:
        if cwd:
            os.chdir(cwd)
        with contextlib.redirect_stdout(buf), contextlib.redirect_stderr(err):
            try:
                cli.main()
            except SystemExit as e:  # argparse refused the arguments
                exc = e
            except Exception as e:
                exc = e
    finally:
        sys.argv = old_argv
        os.chdir(old_cwd)
        try:
            import matplotlib.pyplot as plt

            plt.close("all")
        except Exception:
            pass
        _drop_default_progress_handlers()
    return buf.getvalue(), exc


def _drop_default_progress_handlers():
    """main() registers the default progress printer on every call without --suppress-progress; remove it again so that
    handlers do not pile up in a long-lived process (harness hygiene, not part of any verdict)."""
    try:
        import pyimpspec.progress as pg

        for ident, cb in list(pg._CALLBACKS.items()):
            if cb is pg._default_handler:
                pg.unregister(ident)
    except Exception:
        pass


class SubprocessFailure(Exception):
    def __init__(self, returncode, stderr):
        self.returncode = returncode
        self.stderr = stderr
        last = [ln for ln in stderr.strip().split("\n") if ln.strip()][-1:] or [""]
        self.type_name = last[0].split(":")[0].strip().split(".")[-1] or f"exit{returncode}"
        super().__init__(f"exit {returncode}: {stderr[-600:]}")


def run_subprocess(argv, cwd, src, xdg, timeout=300):
    """`python -m pyimpspec ...` in a fresh interpreter that imports the tree under test.  Returns (stdout, exc|None)."""
    env = dict(os.environ)
    env["PYTHONPATH"] = src
    env["XDG_CONFIG_HOME"] = xdg
    env["MPLBACKEND"] = "Agg"
    env["PYTHONDONTWRITEBYTECODE"] = "1"
    p = subprocess.run([sys.executable, "-B", "-m", "pyimpspec"] + [str(a) for a in argv], cwd=cwd, env=env,
                       stdout=subprocess.PIPE, stderr=subprocess.PIPE, timeout=timeout)
    out = p.stdout.decode("utf-8", "replace")
    if p.returncode != 0:
        return out, SubprocessFailure(p.returncode, p.stderr.decode("utf-8", "replace"))
    return out, None


def subprocess_tree(src, xdg, cwd):
    """Path of the pyimpspec package a fresh interpreter imports with the same environment."""
    env = dict(os.environ)
    env["PYTHONPATH"] = src
    env["XDG_CONFIG_HOME"] = xdg
    p = subprocess.run([sys.executable, "-B", "-c", "import pyimpspec, os; print(os.path.abspath(pyimpspec.__file__))"], cwd=cwd, env=env,
                       stdout=subprocess.PIPE, stderr=subprocess.PIPE, timeout=300)
    return p.stdout.decode().strip()


# ------------------------------------------------------------------------------------------------
# text -> tables
# ------------------------------------------------------------------------------------------------
def clean_lines(text):
    """Lines of the output; the default progress handler writes '<message>\\r' fragments in front of real output."""
    out = []
    for line in text.replace("\r\n", "\n").split("\n"):
        if "\r" in line:
            line = line.rsplit("\r", 1)[1]
        out.append(line.rstrip())
    return out


def _csv_cells(line):
    return next(csv.reader([line]), [])


_MD_SEP = re.compile(r"^\|[-:| ]+\|$")


def _md_cells(line):
    s = line.strip()
    if not (s.startswith("|") and s.endswith("|") and len(s) >= 2):
        return None
    return [c.strip() for c in s[1:-1].split("|")]


def _split_index(header, rows):
    if header and header[0] == "":
        return header[1:], [r[0] if r else None for r in rows], [r[1:] for r in rows]
    return header, None, rows


def extract_tables(text, fmt):
    """Returns (tables, other_lines).  table = {"cols": [...], "index": [...]|None, "rows": [[cell, ...]], "fmt": fmt}.
    csv/md cells are strings, json cells are python values."""
    lines = clean_lines(text)
    tables, others = [], []
    i = 0
    while i < len(lines):
        line = lines[i]
        if line.strip() == "":
            i += 1
            continue
        if fmt == "json":
            obj = None
            if line.lstrip().startswith("{"):
                try:
                    obj = json.loads(line)
                except Exception:
                    obj = None
            if isinstance(obj, dict) and all(isinstance(v, dict) for v in obj.values()):
                cols = list(obj.keys())
                index = list(obj[cols[0]].keys()) if cols else []
                rows = [[obj[c].get(k, "<missing>") for c in cols] for k in index]
                ragged = any(list(obj[c].keys()) != index for c in cols)
                tables.append({"cols": cols, "index": index, "rows": rows, "fmt": fmt, "ragged": ragged})
            else:
                others.append(line)
            i += 1
            continue
        if fmt == "md":
            if line.lstrip().startswith("|"):
                j = i
                block = []
                while j < len(lines) and lines[j].lstrip().startswith("|"):
                    block.append(lines[j])
                    j += 1
                header = _md_cells(block[0]) or []
                body = block[1:]
                if body and _MD_SEP.match(body[0].strip()):
                    body = body[1:]
                rows = [(_md_cells(b) or []) for b in body]
                cols, index, rows = _split_index(header, rows)
                tables.append({"cols": cols, "index": index, "rows": rows, "fmt": fmt, "ragged": any(len(r) != len(cols) for r in rows)})
                i = j
            else:
                others.append(line)
                i += 1
            continue
        # csv
        cells = _csv_cells(line)
        body = cells[1:] if (cells and cells[0] == "") else cells
        if body and all(c in KNOWN_COLS for c in body):
            j = i + 1
            rows = []
            while j < len(lines) and lines[j].strip() != "":
                r = _csv_cells(lines[j])
                if len(r) != len(cells):
                    break
                rows.append(r)
                j += 1
            cols, index, rows = _split_index(cells, rows)
            tables.append({"cols": cols, "index": index, "rows": rows, "fmt": fmt, "ragged": False})
            i = j
        else:
            others.append(line)
            i += 1
    return tables, others


# ------------------------------------------------------------------------------------------------
# table vs DataFrame
# ------------------------------------------------------------------------------------------------
def _is_nan(v):
    try:
        return v is None or (isinstance(v, (float, np.floating)) and math.isnan(float(v)))
    except Exception:
        return False


def cmp_cell(raw, v, fmt, osd, extra_rel=0.0):
    """Compare one printed cell with the API value.  Returns (problem|None, cls, dev, sigloss) where dev is the deviation
    in units of the format's tolerance (csv: relative error) and sigloss is the relative error of a json number (else None)."""
    if isinstance(v, (bool, np.bool_)):
        want = bool(v)
        got = raw if fmt == "json" else {"True": True, "False": False}.get(str(raw).strip(), raw)
        return (None if got == want else f"printed {raw!r}, API {want!r}"), "bool", 0.0, None
    if isinstance(v, str):
        if fmt == "md":
            ok = isinstance(raw, str) and raw.strip() == v.strip()
        else:
            ok = raw == v
        return (None if ok else f"printed text {raw!r}, API {v!r}"), "text", 0.0, None
    if _is_nan(v):
        ok = raw is None if fmt == "json" else (isinstance(raw, str) and raw.strip().lower() in ("", "nan"))
        return (None if ok else f"printed {raw!r}, API nan/None"), "nan", 0.0, None
    try:
        x = float(v)
    except Exception:
        return f"API value of unexpected type {type(v).__name__}: {v!r}", "other", 0.0, None
    if math.isinf(x):
        if fmt == "json":
            ok = raw is None or raw == x
        else:
            try:
                ok = float(raw) == x
            except Exception:
                ok = False
        return (None if ok else f"printed {raw!r}, API {x!r}"), "inf", 0.0, None
    if fmt == "json":
        if isinstance(raw, bool) or not isinstance(raw, (int, float)):
            return f"printed {raw!r} is not a number, API {x!r}", "num", math.inf, None
        p = float(raw)
    else:
        try:
            p = float(str(raw).strip())
        except Exception:
            return f"printed {raw!r} is not a number, API {x!r}", "num", math.inf, None
    err = abs(p - x)
    if fmt == "csv":
        dev = err / abs(x) if x != 0.0 else err
        ok = dev <= TOL_CSV + extra_rel
        return (None if ok else f"printed {raw!r}, API {x!r} (rel. diff {dev:.3g})"), "num", dev, None
    if fmt == "json":
        if x == 0.0 or 1e-15 <= abs(x) < 1e16:
            tol = JSON_ABS * JSON_SLACK + (1e-15 + extra_rel) * abs(x)
        else:  # exponent form, '%.10g': ten significant digits
            tol = (0.5e-9 * JSON_SLACK + extra_rel) * abs(x)
        dev = err / tol
        sig = err / abs(x) if (x != 0.0 and 1e-15 <= abs(x) < 1e16) else 0.0
        return (None if dev <= 1.0 else f"printed {raw!r}, API {x!r} (diff {err:.3g} > ten-decimal rounding)"), "num", dev, sig
    # md
    if isinstance(v, (int, np.integer)):
        return (None if p == x else f"printed {raw!r}, API integer {v!r}"), "int", 0.0 if p == x else math.inf, None
    tol = 0.5 * 10.0 ** (1 - osd) * abs(x) * MD_SLACK + (MD_ULPS * 2.220446049250313e-16 + extra_rel) * abs(x)
    if x == 0.0:
        return (None if p == 0.0 else f"printed {raw!r}, API 0.0"), "num", 0.0 if p == 0.0 else math.inf, None
    dev = err / tol
    return (None if dev <= 1.0 else f"printed {raw!r}, API {x!r} (rel. diff {err / abs(x):.3g} > {osd} significant digits)"), "num", dev, None


def compare_table(tab, df, osd=6, want_index=False, extra_rel=0.0):
    """Returns dict(problems=[(kind, msg)], n_num, n_text, dev (max, tolerance units), sigloss=[(col,row,printed,api,rel)])."""
    fmt = tab["fmt"]
    out = {"problems": [], "n_num": 0, "n_text": 0, "dev": 0.0, "sigloss": []}
    cols = [str(c) for c in df.columns]
    if tab["cols"] != cols:
        out["problems"].append(("columns", f"printed columns {tab['cols']} but the API table has {cols}"))
        return out
    n = len(df)
    if len(tab["rows"]) != n:
        out["problems"].append(("row-count", f"{len(tab['rows'])} row(s) printed, the API table has {n}"))
        return out
    if tab.get("ragged"):
        out["problems"].append(("ragged", "printed table has rows/columns of different lengths"))
        return out
    idx = tab["index"]
    if fmt == "json" or want_index:
        if idx is None or [str(k).strip() for k in idx] != [str(k) for k in range(n)]:
            out["problems"].append(("index", f"printed index {None if idx is None else idx[:6]} expected 0..{n - 1}"))
    elif idx is not None:
        out["problems"].append(("index", "an index column was printed although --output-indices was not given"))
    data = [df[c].tolist() for c in df.columns]
    for ci, c in enumerate(cols):
        col = data[ci]
        for ri in range(n):
            prob, cls, dev, sig = cmp_cell(tab["rows"][ri][ci], col[ri], fmt, osd, extra_rel)
            if cls in ("num", "int"):
                out["n_num"] += 1
                if dev != math.inf:
                    out["dev"] = max(out["dev"], dev)
            else:
                out["n_text"] += 1
            if prob is not None:
                kind = "number" if cls in ("num", "int", "inf", "nan") else "text"
                if len(out["problems"]) < 8:
                    out["problems"].append((kind, f"column {c!r} row {ri}: {prob}"))
            elif sig is not None and sig > 0.5 * 10.0 ** (1 - min(osd, JSON_SIG_DIGITS)) * (1 + 1e-6):
                out["sigloss"].append((c, ri, tab["rows"][ri][ci], float(col[ri]), sig))
    return out


def _selfcheck():
    import pandas as pd

    df = pd.DataFrame({"Label": ["a", "b", "c", "d"], "Value": [np.float64(1.5e-7), 3, "leastsq", float("nan")]})
    for fmt, text in (("csv", df.to_csv(index=False)), ("json", df.to_json()), ("md", df.to_markdown(index=False, floatfmt=".6g"))):
        tabs, others = extract_tables("CDC: [R,(RC)]\n\n" + text + "\n", fmt)
        assert len(tabs) == 1 and others == ["CDC: [R,(RC)]"], (fmt, tabs, others)
        r = compare_table(tabs[0], df, 6, False)
        assert r["problems"] == [] and r["n_num"] == 2, (fmt, r)
    df2 = pd.DataFrame({"f (Hz)": [1000.0, 0.1234567891234], "Re(Z) (ohm)": [1.23456789e-7, -2.5]})
    t, _ = extract_tables(df2.to_markdown(index=True, floatfmt=".3g"), "md")
    assert compare_table(t[0], df2, 3, True)["problems"] == [] and compare_table(t[0], df2, 6, True)["problems"] != []
    t, _ = extract_tables(df2.to_json(), "json")
    r = compare_table(t[0], df2, 6, False)
    assert r["problems"] == [] and len(r["sigloss"]) == 1 and r["sigloss"][0][0] == "Re(Z) (ohm)"
    df3 = pd.DataFrame({"Value": [9.686953298858742e16, 7.706720202625787e-17, 1.234567890123e-300]})
    t, _ = extract_tables(df3.to_json(), "json")
    assert compare_table(t[0], df3, 6, False)["problems"] == [], t
    t, _ = extract_tables(df2.iloc[:, :1].to_csv(index=False), "csv")
    assert compare_table(t[0], df2, 6, False)["problems"][0][0] == "columns"
    bad = df2.copy()
    bad.iloc[1, 1] = -2.5000001
    t, _ = extract_tables(bad.to_csv(index=False), "csv")
    assert compare_table(t[0], df2, 6, False)["problems"][0][0] == "number"
    assert clean_lines("  1%: x\r     \rCDC: R\n") == ["CDC: R", ""]


_selfcheck()
