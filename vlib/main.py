import argparse
import os
import sys

sys.path.insert(0, os.path.dirname(os.path.dirname(os.path.abspath(__file__))))
from vlib import env  # noqa: E402  (sets sys.path for the tree under test)
from vlib import runner  # noqa: E402


def main():
    ap = argparse.ArgumentParser()
    ap.add_argument("property")
    ap.add_argument("--tier", default=os.environ.get("VERIF_TIER", "quick"), choices=["quick", "thorough"])
    ap.add_argument("--seed", type=int, default=int(os.environ.get("VERIF_SEED", "0") or 0))
    ap.add_argument("--replay")
    ap.add_argument("--shard")
    ap.add_argument("--cases")
    ap.add_argument("--out")
    a = ap.parse_args()
    pid = a.property.upper()
    if a.shard:
        s, n = a.shard.split("/")
        sys.exit(runner.run_shard(pid, a.cases, int(s), int(n), a.out))
    if a.replay:
        sys.exit(runner.replay(pid, a.replay))
    sys.exit(runner.run_property(pid, a.tier, a.seed))


if __name__ == "__main__":
    main()
