"""Monitors attached to the real classes from the harness (no source hooks).

All monitors *record*; they never raise into the library (a raising contract aborts what it observes and could
turn a correct run into a crash).  Each monitor counts its evaluations so that a run in which the deciding monitor
never fired ends INCONCLUSIVE, never "held".
"""
import os
import sys
import traceback

from . import env

COUNTERS = {}
RECORDS = []  # list of {"monitor":..., "msg":..., "witness":...} appended by monitors; drained by property modules


def count(name, n=1):
    COUNTERS[name] = COUNTERS.get(name, 0) + n


def record(monitor, msg, witness=None):
    RECORDS.append({"monitor": monitor, "msg": msg, "witness": witness})


def drain():
    out = list(RECORDS)
    RECORDS.clear()
    return out


# ------------------------------------------------------------------------------------------------
# DataSet: structural invariant after construction and every public mutator; caller's mask untouched
# ------------------------------------------------------------------------------------------------
_DS_INSTALLED = False


def install_dataset_monitor():
    """icontract invariant (recording, never raising) + constructor post-condition on the real DataSet."""
    global _DS_INSTALLED
    if _DS_INSTALLED:
        return
    _DS_INSTALLED = True
    import icontract
    import numpy as np
    from pyimpspec.data.data_set import DataSet

    def dataset_is_consistent(self):
        count("DataSet.invariant")
        try:
            n = self._num_points
            f = np.asarray(self._frequencies)
            ok = (
                len(f) == n == len(self._impedances)
                and sorted(self._mask.keys()) == list(range(n))
                and all(isinstance(v, (bool, np.bool_)) for v in self._mask.values())
            )
            if not ok:
                record(
                    "DataSet.invariant",
                    f"inconsistent DataSet: n={n} len(f)={len(f)} len(Z)={len(self._impedances)} mask_keys={sorted(self._mask.keys())[:8]}",
                )
        except Exception as e:  # monitor must never break the run
            record("DataSet.invariant", f"monitor error {e!r}")
        return True

    icontract.invariant(dataset_is_consistent)(DataSet)

    orig_init = DataSet.__init__

    def __init__(self, frequencies, impedances, mask=None, *args, **kwargs):
        snapshot = dict(mask) if isinstance(mask, dict) else None
        order = list(mask.keys()) if isinstance(mask, dict) else None
        try:
            return orig_init(self, frequencies, impedances, mask, *args, **kwargs)
        finally:
            if snapshot is not None:
                count("DataSet.__init__.mask_post")
                if dict(mask) != snapshot or list(mask.keys()) != order:
                    record(
                        "DataSet.__init__.mask_post",
                        f"caller's mask dictionary was altered by the constructor: before={snapshot} after={dict(mask)}",
                        {"before": {str(k): bool(v) for k, v in snapshot.items()}, "after": {str(k): bool(v) for k, v in mask.items()}},
                    )

    __init__.__wrapped__ = orig_init
    DataSet.__init__ = __init__


# ------------------------------------------------------------------------------------------------
# Exception-origin classifier (C04, C18)
# ------------------------------------------------------------------------------------------------
import linecache


def exception_origin(exc):
    """Describe the innermost frame of an escaping exception.

    Returns dict(type, in_tree, file, func, line, is_raise, progress, text)."""
    tb = exc.__traceback__
    last = None
    while tb is not None:
        last = tb
        tb = tb.tb_next
    if last is None:
        return {"type": type(exc).__name__, "in_tree": False, "file": "?", "func": "?", "line": 0, "is_raise": False, "progress": False, "text": ""}
    code = last.tb_frame.f_code
    fn = code.co_filename
    line = last.tb_lineno
    text = (linecache.getline(fn, line) or "").strip()
    # a raise statement may span several lines: look back a few lines for the 'raise' keyword
    is_raise = text.startswith("raise ")
    if not is_raise:
        for back in range(1, 8):
            t = (linecache.getline(fn, line - back) or "").strip()
            if t.startswith("raise ") or t == "raise":
                # only if no statement boundary in between: heuristic = unbalanced parenthesis
                seg = "".join((linecache.getline(fn, line - k) or "") for k in range(back, -1, -1))
                if seg.count("(") > seg.count(")") or seg.rstrip().endswith(")"):
                    is_raise = True
                break
            if t.endswith(":") or t == "":
                break
    return {
        "type": type(exc).__name__,
        "in_tree": env.in_tree(fn),
        "file": os.path.relpath(fn, env.SRC) if env.in_tree(fn) else os.path.basename(os.path.dirname(fn)) + "/" + os.path.basename(fn),
        "func": code.co_name,
        "line": line,
        "is_raise": is_raise,
        "progress": fn.endswith(os.sep + "progress.py"),
        "text": text[:160],
    }


def tb_tail(exc, n=6):
    return "".join(traceback.format_exception(type(exc), exc, exc.__traceback__)[-n:])[-1500:]
