"""C17 - pool-schedule perturbation and completion-order recorder (DESIGN section 2.4).

The module-level worker functions that pyimpspec hands to its process pools are re-bound to wrappers that carry the
same __module__/__qualname__/__name__ (so they pickle by reference and resolve, in the forked pool worker, to the
wrapper again).  A wrapper

  * sleeps a deterministic delay *around* the real call (before and/or after it, never inside it), the delay being a
    function of the current schedule and of the task's identifying arguments only;
  * appends one JSON line {kind, key, pid, t_start, t_end} to the per-run log file (O_APPEND, one write per line).

The schedule and the log path live in the module global STATE.  It is set by the parent immediately before the
library call; the pools are created inside the library call and use the fork start method, so every worker sees the
value that was current when its pool was created.  Wrappers never raise: a failing log write is counted by its
absence (the oracle compares the number of records with the number of tasks it expected).
"""
import hashlib
import json
import os
import time

STATE = {"log": None, "sched": None}
INSTALLED = {}

# kind -> (module, attribute names that must point at the wrapper, function that extracts the task key from args)
def _key_fit(a):
    return f"{a[3]}/{a[4]}"


def _key_rec(a):
    return f"{a[3]}/{a[4]}"


def _key_off(a):
    return f"{a[6]}/{a[7]}/{a[8]}"


def _key_ext(a):
    return float(a[0]).hex()


def _key_cnls(a):
    return f"{int(a[3])}@{float(a[7]).hex()}"


def _val_fit(res):
    return float(res[1]).hex()  # pseudo chi-squared of this (method, weight) candidate (inf when the fit failed)


def _val_off(res):
    return float(res[0]).hex()  # pseudo chi-squared of this (smoothing, interpolation, window) candidate


VALUES = {"fit": _val_fit, "off": _val_off}  # candidate scores, logged so that the oracle can count exact ties

TARGETS = {
    "fit": ("pyimpspec.analysis.fitting", "_fit_process", [], _key_fit),
    "rec": ("pyimpspec.analysis.zhit.reconstruction", "_reconstruct", [], _key_rec),
    "off": ("pyimpspec.analysis.zhit.offset", "_adjust_offset", [], _key_off),
    "ext": ("pyimpspec.analysis.kramers_kronig.exploratory", "_wrapper", [], _key_ext),
    # exploratory imports the cnls worker under another name; both names must resolve to the wrapper
    "cnls": (
        "pyimpspec.analysis.kramers_kronig.cnls",
        "_test_wrapper",
        [("pyimpspec.analysis.kramers_kronig.exploratory", "_cnls_test")],
        _key_cnls,
    ),
}


def _u(salt, kind, key):
    """deterministic pseudo-uniform number in [0, 1) from (salt, kind, key)."""
    h = hashlib.blake2b(f"{salt}|{kind}|{key}".encode(), digest_size=8).digest()
    return int.from_bytes(h, "big") / 2.0**64


def position(kind, key, sched):
    """relative submission position of the task in [0, 1] (or None when unknown)."""
    r = (sched.get("ranks") or {}).get(kind)
    if isinstance(r, dict):
        if key in r and len(r) > 1:
            return r[key] / (len(r) - 1.0)
        return None
    if isinstance(r, list) and len(r) == 3 and r[0] == "lin":  # numeric key, linear in [lo, hi]
        try:
            x = float.fromhex(key) if kind == "ext" else float(key.split("@")[0])
            lo, hi = float(r[1]), float(r[2])
            return min(1.0, max(0.0, (x - lo) / (hi - lo))) if hi > lo else None
        except Exception:
            return None
    return None


def delay(kind, key, sched):
    """(pre_s, post_s) for one task under one schedule.  Pure function of its arguments."""
    if not sched or sched.get("mode", "none") == "none":
        return 0.0, 0.0
    D = float((sched.get("max_ms") or {}).get(kind, sched.get("max_ms_default", 10.0))) / 1000.0
    mode = sched["mode"]
    pos = position(kind, key, sched)
    if mode == "random" or pos is None:
        frac = _u(sched.get("salt", 0), kind, key)
    elif mode == "reverse":
        frac = 1.0 - pos
    elif mode == "rotate":
        frac = (pos + float(sched.get("k", 0.5))) % 1.0
    elif mode == "head":  # only the first head_n submitted tasks are slow: the consumer receives later results first
        n = int(sched.get("head_n", 5))
        r = (sched.get("ranks") or {}).get(kind)
        idx = None
        try:
            if isinstance(r, dict) and key in r:
                idx = r[key]
            elif isinstance(r, list) and r[0] == "lin":
                idx = (float.fromhex(key) if kind == "ext" else float(key.split("@")[0])) - float(r[1])
        except Exception:
            idx = None
        frac = 1.0 if idx is not None and 0 <= idx < n else 0.0
    elif mode == "alternate":  # even submission ranks fast, odd ones slow (interleaves the two halves)
        r = (sched.get("ranks") or {}).get(kind)
        odd = (r[key] % 2) if isinstance(r, dict) and key in r else (_u(1, kind, key) < 0.5)
        frac = 0.15 * pos + (0.8 if odd else 0.0)
    else:
        frac = 0.0
    d = D * frac
    a = float(sched.get("pre", 1.0))
    return d * a, d * (1.0 - a)


def _log(kind, key, t0, t1, res=None):
    path = STATE.get("log")
    if not path:
        return
    try:
        rec = {"k": kind, "t": key, "p": os.getpid(), "s": t0, "e": t1}
        if kind in VALUES:
            try:
                rec["v"] = VALUES[kind](res)
            except Exception:
                pass
        line = json.dumps(rec) + "\n"
        fd = os.open(path, os.O_WRONLY | os.O_APPEND | os.O_CREAT, 0o600)
        try:
            os.write(fd, line.encode())
        finally:
            os.close(fd)
    except Exception:
        pass


def _make(kind, real, keyfn):
    def wrapper(args):
        try:
            key = keyfn(args)
        except Exception:
            key = "?"
        try:
            pre, post = delay(kind, key, STATE.get("sched"))
        except Exception:
            pre, post = 0.0, 0.0
        t0 = time.time()
        if pre > 0:
            time.sleep(pre)
        res = real(args)  # the real worker, untouched; exceptions propagate exactly as without the wrapper
        if post > 0:
            time.sleep(post)
        _log(kind, key, t0, time.time(), res)
        return res

    wrapper.__module__ = real.__module__
    wrapper.__qualname__ = real.__qualname__
    wrapper.__name__ = real.__name__
    wrapper.__doc__ = real.__doc__
    wrapper.__wrapped__ = real
    wrapper._c17_kind = kind
    return wrapper


def install():
    """Re-bind the five worker functions.  Idempotent.  Returns {kind: bool installed}."""
    import importlib

    out = {}
    for kind, (modname, attr, aliases, keyfn) in TARGETS.items():
        if kind in INSTALLED:
            out[kind] = True
            continue
        try:
            mod = importlib.import_module(modname)
            real = getattr(mod, attr)
            if getattr(real, "_c17_kind", None):
                INSTALLED[kind] = real
                out[kind] = True
                continue
            w = _make(kind, real, keyfn)
            setattr(mod, attr, w)
            for amod, aattr in aliases:
                am = importlib.import_module(amod)
                if getattr(am, aattr) is real:
                    setattr(am, aattr, w)
            INSTALLED[kind] = w
            out[kind] = True
        except Exception:
            out[kind] = False
    return out


def begin(log_path, sched):
    STATE["log"] = log_path
    STATE["sched"] = sched


def end():
    STATE["log"] = None
    STATE["sched"] = None


def read_log(path):
    """-> {kind: [record, ...]} in the order the lines were appended (= completion order incl. the post delay)."""
    out = {}
    try:
        with open(path) as fp:
            for line in fp:
                try:
                    r = json.loads(line)
                except Exception:
                    continue
                out.setdefault(r["k"], []).append(r)
    except FileNotFoundError:
        pass
    return out


def order_digest(records):
    """hash of the completion order of one stage (sequence of task keys)."""
    return hashlib.blake2b("|".join(r["t"] for r in records).encode(), digest_size=6).hexdigest()
