"""Circuit-tree generator / enumerator, three builders, grammar-directed CDC printer and structural normal form.

Intended tree (the generator is the oracle; JSON-able, numbers stored as repr strings so +-inf survive):

    node := {"t": "S"|"P", "c": [node, ...]}                       series / parallel connection
          | {"t": "E", "sym": str, "label": str,
             "p": {key: [value, lower, upper, fixed]},             every parameter of the class, in class order
             "subs": {key: None | node}}                           containers only; None = open, {"t":"S","c":[]} = short

The top level of a circuit is always a node of type "S" (Circuit wraps everything in a Series).
"""
import math
from copy import deepcopy as _deepcopy

import numpy as np

INF = float("inf")


# ------------------------------------------------------------------------------------------------
# element catalogue (queried from the real registry at run time)
# ------------------------------------------------------------------------------------------------
_CAT = None


def catalogue(refresh=False):
    """symbol -> dict(cls, container, params{key: (default, lower, upper, fixed)}, subs[keys])"""
    global _CAT
    if _CAT is not None and not refresh:
        return _CAT
    from pyimpspec import get_elements
    from pyimpspec.circuit.base import Container

    cat = {}
    for sym, cls in get_elements(private=True).items():
        cat[sym] = {
            "cls": cls,
            "container": issubclass(cls, Container),
            "params": {
                k: (cls.get_default_value(k), cls.get_default_lower_limit(k), cls.get_default_upper_limit(k), cls.is_fixed_by_default(k))
                for k in cls.get_default_values()
            },
            "subs": list(cls.get_default_subcircuits().keys()) if issubclass(cls, Container) else [],
        }
    _CAT = cat
    return cat


EXPONENT_KEYS = {"n", "a", "b", "n_B"}


def enc(x):
    return repr(float(x))


def dec(s):
    return float(s)


# ------------------------------------------------------------------------------------------------
# labels
# ------------------------------------------------------------------------------------------------
LABEL_CLASSES = {
    "none": [""],
    "word": ["a", "ct", "bulk", "Rs", "x1", "outer_2", "Z"],
    "lead-digit": ["1a", "2nd", "9_9", "0x"],
    "lead-underscore": ["_x", "__", "_1"],
    "inner-space": ["a b", "my label", "x  y"],
    "punct": ["a:b", "a,b", "a=b", "a/b", "a[b]", "a(b)", "a%b", "a!b", "a-b", "a.b", "a+b", "x:y,z=1/2"],
    "balanced-brace": ["a{b}c", "a{}", "a{{b}}"],
    "unbalanced-brace": ["a}b", "a{b", "a}"],  # C03 known finding
    "lead-punct": ["-x", ".5", "(x", "{a}", "=a", "[", "%", "/x"],  # C03 known finding (test suite pins rejection)
}
SAFE_LABEL_CLASSES = ["none", "none", "none", "word", "word", "lead-digit", "lead-underscore", "inner-space", "punct", "balanced-brace"]


def label_class(label):
    if label == "":
        return "none"
    depth = 0
    for ch in label:
        if ch == "{":
            depth += 1
        elif ch == "}":
            depth -= 1
            if depth < 0:
                return "unbalanced-brace"
    if depth != 0:
        return "unbalanced-brace"
    if not (label[0].isalnum() or label[0] == "_"):
        return "lead-punct"
    if label[0].isdigit():
        return "lead-digit"
    if label[0] == "_":
        return "lead-underscore"
    if "{" in label:
        return "balanced-brace"
    if any(ch in label for ch in " \t"):
        return "inner-space"
    if any(not (ch.isalnum() or ch == "_") for ch in label):
        return "punct"
    return "word"


def rand_label(rng, classes=None):
    cl = str(rng.choice(classes or SAFE_LABEL_CLASSES))
    return str(rng.choice(LABEL_CLASSES[cl]))


# ------------------------------------------------------------------------------------------------
# parameter states
# ------------------------------------------------------------------------------------------------
def _logu(rng, lo, hi):
    return float(10 ** rng.uniform(math.log10(lo), math.log10(hi)))


def physical_value(rng, key, default, lower, upper):
    """A value inside the class default box, log-uniform over +-3 decades around the default (exponents in (0.05, 1])."""
    if key in EXPONENT_KEYS and lower == 0.0 and upper == 1.0:
        r = rng.random()
        if r < 0.08:
            return 1.0
        if r < 0.16:
            return 0.5
        return float(rng.uniform(0.05, 1.0))
    if math.isinf(lower) and math.isinf(upper):  # K / Ky: any sign
        v = _logu(rng, 1e-3, 1e3) * (abs(default) if default != 0 else 1.0)
        return float(v if rng.random() < 0.7 else -v)
    base = abs(default) if default != 0 else 1.0
    v = base * _logu(rng, 1e-3, 1e3)
    lo = lower if not math.isinf(lower) else -INF
    hi = upper if not math.isinf(upper) else INF
    v = min(max(v, max(lo, 1e-300) if lo >= 0 else lo), hi)
    return float(v)


def param_state(rng, key, default, dlo, dhi, dfixed, mode):
    """Returns [value, lower, upper, fixed] with lower <= value <= upper and lower < upper.

    mode "physical": class default limits, physical value.
    mode "states": a limit-state class drawn from {default, tight, inf, above-default, below-default, pct}.
    """
    fixed = bool(dfixed) if rng.random() < 0.6 else bool(rng.random() < 0.5)
    if mode == "physical":
        return [physical_value(rng, key, default, dlo, dhi), dlo, dhi, fixed], "default"
    st = str(rng.choice(["default", "default", "tight", "inf", "above", "below", "pct", "corner", "touch"]))
    if st == "touch":
        # boundary of the order-safe limit logic: a new limit exactly ON the opposite class default limit
        if not math.isinf(dhi) and rng.random() < 0.5:
            lo = dhi
            hi = dhi * _logu(rng, 2, 1e3) if dhi > 0 else dhi + _logu(rng, 1e-3, 1e3)
            v = lo if rng.random() < 0.3 else float(rng.uniform(lo, hi))
            return [float(v), float(lo), float(hi), fixed], st
        if not math.isinf(dlo):
            hi = dlo
            lo = dlo - _logu(rng, 1e-3, 1e3) if dlo <= 0 else dlo * _logu(rng, 1e-6, 0.5)
            v = hi if rng.random() < 0.3 else float(rng.uniform(lo, hi))
            return [float(v), float(lo), float(hi), fixed], st
        st = "default"
    if st == "default":
        return [physical_value(rng, key, default, dlo, dhi), dlo, dhi, fixed], st
    if st == "corner":
        v = physical_value(rng, key, default, dlo, dhi)
        side = rng.random() < 0.5
        if side and not math.isinf(dlo):
            v = dlo
        elif not side and not math.isinf(dhi):
            v = dhi
        return [float(v), dlo, dhi, fixed], st
    if st == "tight":
        v = physical_value(rng, key, default, dlo, dhi)
        lo = v - abs(v) * rng.uniform(0.0, 0.9) - (1e-3 if v == 0 else 0)
        hi = v + abs(v) * rng.uniform(0.0, 5.0) + (1e-3 if v == 0 else 0)
        lo = max(lo, dlo)
        hi = min(hi, dhi)
        if rng.random() < 0.2:
            lo = v  # value sits on the lower limit
        elif rng.random() < 0.2:
            hi = v
        if not lo < hi:
            lo, hi = dlo, dhi
        return [float(v), float(lo), float(hi), fixed], st
    if st == "inf":
        v = physical_value(rng, key, default, dlo, dhi)
        which = int(rng.integers(0, 3))
        lo = -INF if which in (0, 2) else dlo
        hi = INF if which in (1, 2) else dhi
        return [float(v), lo, hi, fixed], st
    if st == "above" and not math.isinf(dhi):
        lo = dhi * _logu(rng, 1.5, 1e3) if dhi > 0 else 1.0
        hi = lo * _logu(rng, 2, 1e3)
        v = lo if rng.random() < 0.2 else float(rng.uniform(lo, hi))
        if rng.random() < 0.3:
            hi = INF
        return [float(v), float(lo), float(hi), fixed], st
    if st == "below" and not math.isinf(dlo):
        hi = dlo - _logu(rng, 1e-3, 1e3) if dlo <= 0 else dlo * _logu(rng, 1e-6, 0.5)
        lo = hi - _logu(rng, 1e-3, 1e3) if dlo <= 0 else hi * _logu(rng, 1e-6, 0.5)
        v = hi if rng.random() < 0.2 else float(rng.uniform(lo, hi))
        if rng.random() < 0.3:
            lo = -INF
        return [float(v), float(lo), float(hi), fixed], st
    if st == "pct":
        v = physical_value(rng, key, default, dlo, dhi)
        if v > 0:
            pl = float(rng.choice([1, 10, 50, 99.5]))
            ph = float(rng.choice([100.5, 101, 150, 200, 1000]))
            if v * pl / 100 < v < v * ph / 100:
                return [float(v), v * pl / 100, v * ph / 100, fixed], st
    return [physical_value(rng, key, default, dlo, dhi), dlo, dhi, fixed], "default"


def make_element_spec(rng, sym, mode="physical", label_classes=None, depth=0, max_sub_depth=2, leaf_syms=None):
    cat = catalogue()
    info = cat[sym]
    p = {}
    states = []
    for key, (d, lo, hi, fx) in info["params"].items():
        st, cls_ = param_state(rng, key, d, lo, hi, fx, mode)
        p[key] = [enc(st[0]), enc(st[1]), enc(st[2]), bool(st[3])]
        states.append(cls_)
    spec = {"t": "E", "sym": sym, "label": rand_label(rng, label_classes), "p": p, "subs": {}, "_states": states}
    if info["container"]:
        for sk in info["subs"]:
            r = rng.random()
            if r < 0.25:
                spec["subs"][sk] = None
            elif r < 0.45:
                spec["subs"][sk] = {"t": "S", "c": []}
            else:
                n = int(rng.integers(1, 4))
                sub = random_tree(rng, n, mode=mode, label_classes=label_classes, depth=depth + 1, max_sub_depth=max_sub_depth,
                                  leaf_syms=leaf_syms, allow_container=(depth + 1 < max_sub_depth))
                spec["subs"][sk] = sub
    return spec


def plain_spec(sym, **values):
    """element spec with the class-default limits/fixed flags and the given values (defaults otherwise)"""
    info = catalogue()[sym]
    return {"t": "E", "sym": sym, "label": "", "subs": {}, "_states": [],
            "p": {k: [enc(values.get(k, d)), enc(lo), enc(hi), bool(fx)] for k, (d, lo, hi, fx) in info["params"].items()}}


def tiny_subcircuits(rng, tree, p=0.25):
    """Scale extreme: with probability p per sub-circuit of every container, replace it by a single R or L whose impedance is tiny
    but NOT zero (1e-12..5e-9 in SI units) - a legitimate circuit that is not a short.  Returns the number of replacements."""
    n = 0
    for e in iter_elements(tree):
        for k in list(e.get("subs", {})):
            if rng.random() < p:
                v = float("%.3E" % 10 ** rng.uniform(-12, -8.3))
                e["subs"][k] = {"t": "S", "c": [plain_spec("R", R=v) if rng.random() < 0.5 else plain_spec("L", L=v)]}
                n += 1
    return n


# ------------------------------------------------------------------------------------------------
# topologies
# ------------------------------------------------------------------------------------------------
def topologies(n_leaves):
    """All series/parallel nestings with n leaves in normal form (alternating kinds, >=2 children), as shapes:
    'L' for a leaf or (kind, [children]).  Ordered trees."""
    cache = {}

    def compositions(n, minparts):
        # ordered compositions of n into >= minparts positive parts
        out = []

        def rec(rem, cur):
            if rem == 0:
                if len(cur) >= minparts:
                    out.append(tuple(cur))
                return
            for k in range(1, rem + 1):
                rec(rem - k, cur + [k])

        rec(n, [])
        return out

    def build(n, kind):
        # all trees with n leaves whose root is of `kind` (n >= 2) or a leaf (n == 1)
        if (n, kind) in cache:
            return cache[(n, kind)]
        if n == 1:
            res = ["L"]
        else:
            other = "P" if kind == "S" else "S"
            res = []
            for comp in compositions(n, 2):
                options = [build(k, other) if k > 1 else ["L"] for k in comp]
                import itertools

                for combo in itertools.product(*options):
                    res.append((kind, list(combo)))
        cache[(n, kind)] = res
        return res

    if n_leaves == 1:
        return ["L"]
    return build(n_leaves, "S") + build(n_leaves, "P")


def shape_to_tree(shape, leaf_iter):
    if shape == "L":
        return next(leaf_iter)
    kind, children = shape
    return {"t": kind, "c": [shape_to_tree(c, leaf_iter) for c in children]}


P_SAME_KIND = 0.12  # probability that a nested connection has the SAME kind as its parent (only reachable through the
#                      object route and through redundant brackets in text; the parser merges such nesting)


def random_shape(rng, n_leaves, kind=None, max_depth=6, depth=0):
    if n_leaves == 1:
        return "L"
    kind = kind or str(rng.choice(["S", "P"]))
    other = "P" if kind == "S" else "S"
    if depth >= max_depth:
        return (kind, ["L"] * n_leaves)
    k = int(rng.integers(2, min(n_leaves, 5) + 1))
    cuts = sorted(rng.choice(np.arange(1, n_leaves), size=k - 1, replace=False).tolist())
    parts = [b - a for a, b in zip([0] + cuts, cuts + [n_leaves])]
    return (kind, [random_shape(rng, p, (kind if (p > 1 and rng.random() < P_SAME_KIND) else other), max_depth, depth + 1) for p in parts])


ALL_SYMS = None


def all_symbols():
    return sorted(catalogue().keys())


def random_tree(rng, n_leaves, mode="physical", label_classes=None, depth=0, max_sub_depth=2, leaf_syms=None,
                allow_container=True, max_depth=6, shape=None):
    syms = leaf_syms or all_symbols()
    cat = catalogue()
    if not allow_container:
        syms = [s for s in syms if not cat[s]["container"]] or ["R"]
    shape = shape if shape is not None else random_shape(rng, n_leaves, max_depth=max_depth)

    def leaves():
        while True:
            s = str(rng.choice(syms))
            yield make_element_spec(rng, s, mode=mode, label_classes=label_classes, depth=depth, max_sub_depth=max_sub_depth, leaf_syms=leaf_syms)

    t = shape_to_tree(shape, leaves())
    if t["t"] != "S":
        t = {"t": "S", "c": [t]}
    return t


# ------------------------------------------------------------------------------------------------
# normal form + comparison
# ------------------------------------------------------------------------------------------------
def nf(node):
    """Normal form of an intended tree: merge directly nested same-kind connections, unwrap single-child series."""
    if node is None:
        return None
    if node["t"] == "E":
        return {"t": "E", "sym": node["sym"], "label": node["label"].strip(),
                "p": {k: [dec(v[0]), dec(v[1]), dec(v[2]), bool(v[3])] for k, v in node["p"].items()},
                "subs": {k: nf_sub(v) for k, v in node.get("subs", {}).items()}}
    kind = node["t"]
    out = []
    for c in node["c"]:
        n = nf(c)
        if n["t"] == kind:
            out.extend(n["c"])
        else:
            out.append(n)
    if kind == "S" and len(out) == 1:
        return out[0]
    return {"t": kind, "c": out}


def nf_sub(v):
    if v is None:
        return None
    n = nf(v)
    if n["t"] in ("S", "P") and count_elements(n) == 0:
        return {"t": "S", "c": []}
    return n


def count_elements(n):
    if n is None:
        return 0
    if n["t"] == "E":
        return 1
    return sum(count_elements(c) for c in n["c"])


def nf_of_connection(con):
    """Normal form of a real Connection/Element, walking the public API only."""
    from pyimpspec.circuit.base import Connection, Container, Element
    from pyimpspec import Series, Parallel

    if con is None:
        return None
    if isinstance(con, Element):
        vals = con.get_values()
        lo = con.get_lower_limits()
        hi = con.get_upper_limits()
        fx = con.are_fixed()
        d = {"t": "E", "sym": con.get_symbol(), "label": con.get_label(),
             "p": {k: [float(vals[k]), float(lo[k]), float(hi[k]), bool(fx[k])] for k in vals}, "subs": {}}
        if isinstance(con, Container):
            for k, sc in con.get_subcircuits().items():
                if sc is None:
                    d["subs"][k] = None
                else:
                    n = nf_of_connection(sc)
                    if n["t"] in ("S", "P") and count_elements(n) == 0:
                        n = {"t": "S", "c": []}
                    d["subs"][k] = n
        return d
    kind = "S" if isinstance(con, Series) else "P"
    out = []
    for it in con:  # the order in which the connection presents its items
        n = nf_of_connection(it)
        if n["t"] == kind:
            out.extend(n["c"])
        else:
            out.append(n)
    if kind == "S" and len(out) == 1:
        return out[0]
    return {"t": kind, "c": out}


def nf_of_circuit(circuit):
    return nf_of_connection(circuit.get_connections(recursive=False)[0])


def _close(a, b, rel):
    if a == b:
        return True
    if math.isinf(a) or math.isinf(b) or math.isnan(a) or math.isnan(b):
        return False
    return abs(a - b) <= rel * max(abs(a), abs(b))


def compare_nf(exp, got, rel=0.0, path="top", lower_inf_sign_free=False):
    """Returns None if equal, else a string describing the first difference. `rel` = relative tolerance on numbers."""
    if exp is None or got is None:
        return None if exp is got else f"{path}: expected {'open' if exp is None else exp['t']} got {'open' if got is None else got['t']}"
    if exp["t"] != got["t"]:
        return f"{path}: kind {exp['t']} vs {got['t']} ({brief(exp)} vs {brief(got)})"
    if exp["t"] == "E":
        if exp["sym"] != got["sym"]:
            return f"{path}: element {exp['sym']} vs {got['sym']}"
        if exp["label"] != got["label"]:
            return f"{path}/{exp['sym']}: label {exp['label']!r} vs {got['label']!r}"
        if list(exp["p"].keys()) != list(got["p"].keys()):
            return f"{path}/{exp['sym']}: parameter keys {list(exp['p'])} vs {list(got['p'])}"
        for k in exp["p"]:
            e, g = exp["p"][k], got["p"][k]
            for i, nm in enumerate(("value", "lower", "upper")):
                if not _close(e[i], g[i], rel):
                    return f"{path}/{exp['sym']}.{k}: {nm} {e[i]!r} vs {g[i]!r} (rel tol {rel:g})"
            if e[3] != g[3]:
                return f"{path}/{exp['sym']}.{k}: fixed {e[3]} vs {g[3]}"
        if set(exp["subs"]) != set(got["subs"]):
            return f"{path}/{exp['sym']}: sub-circuit keys {sorted(exp['subs'])} vs {sorted(got['subs'])}"
        for k in exp["subs"]:
            d = compare_nf(exp["subs"][k], got["subs"][k], rel, f"{path}/{exp['sym']}.{k}")
            if d:
                return d
        return None
    if len(exp["c"]) != len(got["c"]):
        return f"{path}: {exp['t']} with {len(exp['c'])} children vs {len(got['c'])} ({brief(exp)} vs {brief(got)})"
    for i, (a, b) in enumerate(zip(exp["c"], got["c"])):
        d = compare_nf(a, b, rel, f"{path}/{exp['t']}[{i}]")
        if d:
            return d
    return None


def brief(n):
    if n is None:
        return "open"
    if n["t"] == "E":
        s = n["sym"]
        if n.get("subs"):
            s += "{" + ",".join(f"{k}={brief(v)}" for k, v in n["subs"].items()) + "}"
        return s
    o, c = ("[", "]") if n["t"] == "S" else ("(", ")")
    return o + "".join(brief(x) for x in n["c"]) + c


def shape_key(n):
    """Topology + element classes (no values): key for 'distinct' counting."""
    return brief(nf(n) if "c" in n or n.get("t") == "E" else n)


def iter_elements(node, include_subs=True):
    if node is None:
        return
    if node["t"] == "E":
        yield node
        if include_subs:
            for v in node.get("subs", {}).values():
                if v is not None:
                    yield from iter_elements(v, True)
    else:
        for c in node["c"]:
            yield from iter_elements(c, include_subs)


# ------------------------------------------------------------------------------------------------
# builders
# ------------------------------------------------------------------------------------------------
def build_element(spec):
    """Real element object from a spec, through the public setter API (limits applied in a safe order)."""
    cat = catalogue()
    cls = cat[spec["sym"]]["cls"]
    e = cls()
    for k, (v, lo, hi, fx) in spec["p"].items():
        v, lo, hi = dec(v), dec(lo), dec(hi)
        if lo >= e.get_upper_limit(k):
            e.set_upper_limits(k, hi)
            e.set_lower_limits(k, lo)
        else:
            e.set_lower_limits(k, lo)
            e.set_upper_limits(k, hi)
        e.set_values(k, v)
        e.set_fixed(k, bool(fx))
    e.set_label(spec["label"])
    if cat[spec["sym"]]["container"]:
        subs = {}
        for k, sv in spec["subs"].items():
            subs[k] = None if sv is None else build_connection(sv)
        e.set_subcircuits(**subs)
    return e


def build_connection(node):
    from pyimpspec import Series, Parallel

    if node["t"] == "E":
        return build_element(node)
    items = [build_connection(c) for c in node["c"]]
    return (Series if node["t"] == "S" else Parallel)(items)


def inject_empty_series(rng, tree):
    """An empty Series nested in a connection: the library's own spelling of a short (the default X_2 of Tlm, the keyword 'short').
    Only the object API can build it (tree['_objects_only'] is set: text routes do not apply)."""
    nodes = []

    def walk(n):
        if n["t"] in ("S", "P"):
            nodes.append(n)
            for ch in n["c"]:
                walk(ch)
    walk(tree)
    host = nodes[int(rng.integers(0, len(nodes)))]
    host["c"].insert(int(rng.integers(0, len(host["c"]) + 1)), {"t": "S", "c": []})
    tree["_objects_only"] = True


def build_connection_topdown(node, con=None):
    """Top-down construction: a connection is handed to its parent while still EMPTY (through the parent's constructor at the top
    level, through append() below) and filled afterwards - a legitimate order of the documented object API."""
    from pyimpspec import Series, Parallel

    kids, pending = [], []
    for c in node["c"]:
        if c["t"] == "E":
            kids.append(build_element(c))
        else:
            sub = (Series if c["t"] == "S" else Parallel)([])
            kids.append(sub)
            pending.append((sub, c))
    if con is None:
        con = (Series if node["t"] == "S" else Parallel)(kids)
    else:
        for k in kids:
            con.append(k)
    for sub, c in pending:
        build_connection_topdown(c, sub)
    return con


def build_objects(tree, form=None):
    """Circuit via direct object construction. form: None|'series'|'parallel'|'element'|'list'|'topdown' picks the Circuit(...)
    overload / the construction order."""
    from pyimpspec import Circuit

    assert tree["t"] == "S"
    if form == "topdown":
        return Circuit(build_connection_topdown(tree))
    if form == "list" and all(c["t"] == "E" for c in tree["c"]) and len(tree["c"]) > 0:
        return Circuit([build_element(c) for c in tree["c"]])
    if form == "element" and len(tree["c"]) == 1 and tree["c"][0]["t"] == "E":
        return Circuit(build_element(tree["c"][0]))
    if form == "parallel" and len(tree["c"]) == 1 and tree["c"][0]["t"] == "P":
        return Circuit(build_connection(tree["c"][0]))
    return Circuit(build_connection(tree))


def build_builder(tree):
    """Circuit via CircuitBuilder context managers."""
    from pyimpspec import CircuitBuilder

    def fill(b, node):
        for c in node["c"]:
            if c["t"] == "E":
                b.add(build_element(c))
            elif c["t"] == "S":
                with b.series() as s:
                    fill(s, c)
            else:
                with b.parallel() as p:
                    fill(p, c)

    assert tree["t"] == "S"
    with CircuitBuilder() as b:
        fill(b, tree)
    return b.to_circuit()


def build_builder_incremental(tree):
    """CircuitBuilder used the way an interactive session uses it: the (outer) builder is converted / printed while it
    is still being filled, nested builders gain items afterwards, and finally a parameter of an element the builder
    holds is changed and the builder is converted again.  Returns (circuit after the build, circuit after the change,
    index (in depth-first leaf order of the top-level tree) of the element that was changed or None, key, new value)."""
    from pyimpspec import CircuitBuilder

    held = []
    outer = []

    def probe():
        # conversions in the middle of the build must not influence later conversions
        try:
            outer[0].to_string()
            outer[0].to_string(3)
            outer[0].to_circuit()
        except Exception:
            pass  # an incomplete builder may legitimately refuse (e.g. a parallel with one item so far)

    def fill(b, node):
        n = len(node["c"])
        for i, c in enumerate(node["c"]):
            if c["t"] == "E":
                e = build_element(c)
                held.append(e)
                b.add(e)
            elif c["t"] == "S":
                with b.series() as s_:
                    fill(s_, c)
            else:
                with b.parallel() as p_:
                    fill(p_, c)
            if i == n // 2:
                probe()

    assert tree["t"] == "S"
    with CircuitBuilder() as b:
        outer.append(b)
        fill(b, tree)
    first = b.to_circuit()
    changed = (None, None, None)
    for e in held[::-1]:
        for k, v in e.get_values().items():
            trial = v * 1.5 if v != 0 else 0.25
            trial = float("%.12E" % trial)
            if e.get_lower_limit(k) <= trial <= e.get_upper_limit(k) and trial != v and math.isfinite(trial):
                e.set_values(k, trial)
                changed = (held.index(e), k, trial)
                break
        if changed[0] is not None:
            break
    second = b.to_circuit() if changed[0] is not None else None
    return first, second, changed


def builder_ok(tree):
    """CircuitBuilder refuses empty series and <2-child parallels by contract."""
    def ok(n):
        if n["t"] == "E":
            return True
        if n["t"] == "S" and len(n["c"]) < 1:
            return False
        if n["t"] == "P" and len(n["c"]) < 2:
            return False
        return all(ok(c) for c in n["c"])

    return ok(tree)


# ------------------------------------------------------------------------------------------------
# CDC printer
# ------------------------------------------------------------------------------------------------
def fmt_num(x, decimals=None, style="E"):
    if math.isinf(x):
        return "inf"
    if decimals is not None:
        return (f"%.{decimals}E") % x
    r = repr(float(x))
    if style == "e" and "e" in r:
        r = r.replace("e", "E")
    return r


def print_element(spec, decimals=17, v=None, rng=None):
    """v: dict of spelling options (all default to canonical):
       omit_default_params, omit_default_limits, pct_limits, fixed_lower, shuffle, kw_short, kw_open, bare_sub, ws, repr_numbers
    """
    v = v or {}
    cat = catalogue()
    info = cat[spec["sym"]]
    ws = (lambda: str(rng.choice(["", " ", "  ", "\t", "\n"]))) if v.get("ws") and rng is not None else (lambda: "")
    d = None if v.get("repr_numbers") else decimals
    parts = []
    for k, (val, lo, hi, fx) in spec["p"].items():
        val, lo, hi = dec(val), dec(lo), dec(hi)
        dv, dlo, dhi, dfx = info["params"][k]
        if v.get("omit_default_params") and (val, lo, hi, bool(fx)) == (dv, dlo, dhi, bool(dfx)) and _same_printed(val, dv, d):
            continue
        s = ws() + k + ws() + "=" + ws() + fmt_num(val, d)
        if fx:
            s += "f" if v.get("fixed_lower") else "F"
        default_limits = (lo == dlo and hi == dhi)
        if v.get("omit_default_limits") and default_limits:
            pass
        elif v.get("omit_default_limits") and lo == dlo and hi != dhi:
            s += ws() + "/" + ws() + "/" + ws() + fmt_num(hi, d)
        elif v.get("omit_default_limits") and hi == dhi and lo != dlo:
            s += ws() + "/" + ws() + fmt_num(lo, d)
        else:
            s += ws() + "/" + ws() + _fmt_limit(lo, val, d, v, rng) + ws() + "/" + ws() + _fmt_limit(hi, val, d, v, rng)
        parts.append(s)
    subparts = []
    for k in sorted(spec.get("subs", {}).keys()):
        sv = spec["subs"][k]
        if sv is None:
            txt = "inf" if v.get("kw_open") else "open"
        elif count_elements(sv) == 0:
            txt = "zero" if v.get("kw_short") else "short"
        else:
            txt = print_node(sv, decimals, v, rng, as_sub=True)
        subparts.append(ws() + k + ws() + "=" + ws() + txt)
    allparts = subparts + parts
    if v.get("shuffle") and rng is not None and len(allparts) > 1:
        allparts = [allparts[i] for i in rng.permutation(len(allparts))]
    body = ",".join(allparts)
    label = spec["label"]
    if label != "":
        body += ws() + ":" + ws() + label
    if body == "" and (v.get("omit_default_params")):
        return spec["sym"]
    return spec["sym"] + ws() + "{" + body + "}"


def _same_printed(a, b, d):
    return a == b


def _fmt_limit(lim, val, d, v, rng):
    if math.isinf(lim):
        return "inf"
    if v.get("pct_limits") and val != 0 and lim != 0 and (val > 0) == (lim > 0) and math.isfinite(val):  # also negative values (K, Ky, moved limits)
        pct = lim / val * 100.0
        # only use the % spelling when it denotes the same number exactly (value * pct / 100 == lim)
        if val * pct / 100 == lim:
            return repr(float(pct)) + "%"
    return fmt_num(lim, d)


def print_node(node, decimals=17, v=None, rng=None, as_sub=False, top=False):
    v = v or {}
    ws = (lambda: str(rng.choice(["", " ", "\t", "\n"]))) if v.get("ws") and rng is not None else (lambda: "")
    if node["t"] == "E":
        return print_element(node, decimals, v, rng)
    inner = ""
    bare = as_sub and node["t"] == "S" and v.get("bare_sub") and len(node["c"]) >= 1 and node["c"][0]["t"] == "E"
    for i, c in enumerate(node["c"]):
        txt = print_node(c, decimals, v, rng)
        if v.get("redundant_brackets") and rng is not None and rng.random() < 0.2 and node["t"] == "S" and not (bare and i == 0):
            txt = "[" + txt + "]"
        # two bare symbols in a row would fuse into one identifier ("R" + "c..." cannot happen: symbols start upper-case)
        inner += ws() + txt
    o, c_ = ("[", "]") if node["t"] == "S" else ("(", ")")
    if bare:
        return inner.lstrip()
    if top and node["t"] == "S" and v.get("implicit_outer") and len(node["c"]) >= 1:
        return inner
    return o + inner + ws() + c_


def print_cdc(tree, decimals=17, variant=None, rng=None):
    v = variant or {}
    body = print_node(tree, decimals, v, rng, top=True)
    hdr = v.get("header", "")
    return hdr + body


VARIANT_FLAGS = ["omit_default_params", "omit_default_limits", "pct_limits", "fixed_lower", "shuffle", "kw_short", "kw_open",
                 "bare_sub", "ws", "repr_numbers", "implicit_outer", "redundant_brackets"]
HEADERS = ["", "!V=1!", "!v=1!", "!V=1.0!", " !V=1! "]


def random_variant(rng):
    v = {f: bool(rng.random() < 0.4) for f in VARIANT_FLAGS}
    v["header"] = str(rng.choice(HEADERS))
    return v


def single_flag_variants():
    out = []
    for f in VARIANT_FLAGS:
        out.append({f: True, "header": ""})
    for h in HEADERS[1:]:
        out.append({"header": h})
    return out


def variant_numbers_exact(v):
    """True when the numbers printed under this variant are exact (repr) rather than rounded to `decimals`."""
    return bool(v.get("repr_numbers"))
