"""C12 helper: circuit specs (JSON-able), builders and generators for the circuit-fitting check.

A *spec* is a nested list:  ["S", child, ...] | ["P", child, ...] | ["E", symbol, {param: [value, lower, upper, fixed]}, label]
or, for a container element, ["E", symbol, {...}, label, {subcircuit key: spec | None}]
(limits use None for -inf/+inf so that the spec survives JSON).  Circuits are built from specs with the public
object API (Series/Parallel/Circuit/element classes, set_lower_limits/set_upper_limits/set_values/set_fixed/set_label);
the parser is not involved.
"""
import math

import numpy as np

INF = float("inf")


# ------------------------------------------------------------------------------------------------
# spec <-> circuit
# ------------------------------------------------------------------------------------------------
def E(symbol, label="", **params):
    """params: name=value (free, class-default limits) or name=[value, lower, upper, fixed]"""
    out = {}
    for k, v in params.items():
        out[k] = list(v) if isinstance(v, (list, tuple)) else [float(v), "default", "default", False]
    return ["E", symbol, out, label]


def _lim(x, default):
    if x == "default":
        return default
    if x is None:
        return None
    return float(x)


def build(spec):
    """Build a pyimpspec Circuit from a spec (top-level node must be a connection)."""
    from pyimpspec import Circuit

    return Circuit(_build(spec))


def _build(node):
    from pyimpspec import Parallel, Series, get_elements

    kind = node[0]
    if kind == "S":
        return Series([_build(c) for c in node[1:]])
    if kind == "P":
        return Parallel([_build(c) for c in node[1:]])
    symbol, params, label = node[1], node[2], node[3]
    cls = get_elements(private=True)[symbol]
    el = cls()
    if len(node) > 4:
        el.set_subcircuits(**{k: (None if v is None else _build(v)) for k, v in node[4].items()})
    for name, (value, lo, hi, fixed) in params.items():
        lo = el.get_lower_limit(name) if lo == "default" else (-INF if lo is None else float(lo))
        hi = el.get_upper_limit(name) if hi == "default" else (INF if hi is None else float(hi))
        # order-safe application of the limits (a new lower limit must stay below the current upper limit)
        if lo >= el.get_upper_limit(name):
            el.set_upper_limits(name, hi)
            el.set_lower_limits(name, lo)
        else:
            el.set_lower_limits(name, lo)
            el.set_upper_limits(name, hi)
        el.set_values(name, float(value))
        el.set_fixed(name, bool(fixed))
    if label:
        el.set_label(label)
    return el


def leaves(spec):
    """Element nodes of a spec in the order pyimpspec enumerates them (left-to-right, depth first)."""
    if spec[0] == "E":
        out = [spec]
        if len(spec) > 4:  # container: pyimpspec lists the container first, then the elements of its sub-circuits
            for sub in spec[4].values():
                if sub is not None:
                    out.extend(leaves(sub))
        return out
    # NB: pyimpspec enumerates breadth-first over containers (the sub-circuits of a container are queued behind the
    # remaining plain elements); specs used by C12 put a container last so both orders coincide (asserted in c12).
    out = []
    for c in spec[1:]:
        out.extend(leaves(c))
    return out


def shape(spec):
    """CDC-like shape string of a spec, e.g. R(RC)(RQ)."""
    if spec[0] == "E":
        if len(spec) > 4:
            return spec[1] + "{" + ",".join(f"{k}={'open' if v is None else shape(v)}" for k, v in spec[4].items()) + "}"
        return spec[1]
    inner = "".join(shape(c) for c in spec[1:])
    return "[" + inner + "]" if spec[0] == "S" else "(" + inner + ")"


def snapshot(circuit):
    """Exact observable parameter state of a circuit: one tuple per element in enumeration order."""
    out = []
    for el in circuit.get_elements(recursive=True):
        vals = el.get_values()
        lo = el.get_lower_limits()
        hi = el.get_upper_limits()
        fx = el.are_fixed()
        out.append((id(el), el.get_symbol(), el.get_label(), tuple((k, float(vals[k]).hex(), float(lo[k]).hex(), float(hi[k]).hex(), bool(fx[k])) for k in vals)))
    return out


def spectrum(true_spec, f_lo, f_hi, ppd, noise=0.0, rng=None):
    """Impedance of the true circuit on a log-spaced grid (descending), optional proportional noise."""
    n = int(round((math.log10(f_hi) - math.log10(f_lo)) * ppd)) + 1
    f = np.logspace(math.log10(f_hi), math.log10(f_lo), n)
    Z = build(true_spec).get_impedances(f)
    if noise > 0.0:
        Z = Z + noise * abs(Z) * (rng.normal(size=n) + 1j * rng.normal(size=n))
    return f, Z


# ------------------------------------------------------------------------------------------------
# identifiable families (recovery clause)
# ------------------------------------------------------------------------------------------------
FAMILIES = ["R(RC)", "R(RQ)", "R(RC)(RC)", "R(RC)(RQ)", "R(C[RW])", "RL(RQ)"]
# families in which a parameter that is fixed BY DEFAULT (the Warburg exponent n) has been released by the user and was
# generated away from its default 0.5
RELEASED_FAMILIES = ["R(C[RW])/n-released", "R(C[RWo])/n-released"]


def _logu(rng, lo, hi):
    return float(10.0 ** rng.uniform(math.log10(lo), math.log10(hi)))


def _taus(rng, k, f_lo, f_hi, margin=0.8, sep=1.0, top_margin=None):
    """k characteristic frequencies, >= margin decades inside the window, >= sep decades apart (returned descending)."""
    lo = math.log10(f_lo) + margin
    hi = math.log10(f_hi) - (margin if top_margin is None else top_margin)
    free = (hi - lo) - sep * (k - 1)
    assert free > 0
    cuts = np.sort(rng.uniform(0, free, size=k))
    logs = [lo + cuts[i] + sep * i for i in range(k)]
    return [1.0 / (2 * math.pi * 10.0 ** x) for x in logs][::-1]  # descending f -> ascending tau


def gen_true(rng, family, wide=False):
    """Generating circuit of an identifiable family + frequency window.  Returns (spec, f_lo, f_hi, ppd).
    Every generating value lies at least a factor 10 inside the class-default limits (so that a start perturbed by x3
    and the class-default limit box are consistent)."""
    from pyimpspec import get_elements

    classes = get_elements(private=True)
    while True:
        spec, f_lo, f_hi, ppd = _gen_true(rng, family, wide)
        ok = True
        for leaf in leaves(spec):
            cls = classes[leaf[1]]
            for name, p in leaf[2].items():
                if name in ("n", "a", "b"):
                    continue
                lo, hi = cls.get_default_lower_limit(name), cls.get_default_upper_limit(name)
                if not (lo * 10 <= p[0] <= hi / 10):
                    ok = False
                # standard range: every value must be representable to 1e-3 by lmfit's bounded-parameter transform inside the
                # class-default box (values are spaced (hi-lo)*2**-54 apart near the lower limit); the wide range keeps such
                # items, the check judges them under the known-finding key C12/recovery-limit-range-resolution
                if not wide and math.isfinite(hi) and (hi - lo) * 2.0**-54 / p[0] > 1e-3:
                    ok = False
        if ok:
            return spec, f_lo, f_hi, ppd


def _gen_true(rng, family, wide=False):
    span = float(rng.uniform(6.0, 8.0))
    lo = float(rng.uniform(-3.0, 0.0)) if not wide else float(rng.uniform(-4.0, 1.0))
    f_lo, f_hi = 10.0**lo, 10.0 ** (lo + span)
    ppd = int(rng.choice([6, 8, 10]))
    S = _logu(rng, 1.0, 1e4) if not wide else _logu(rng, 1e-2, 1e6)

    def R():  # comparable resistances: every arc is a visible share of the total
        return S * _logu(rng, 0.5, 2.0)

    def n():  # constant-phase exponents well inside (0, 1): the start (+-dn) stays clear of the upper limit 1
        return float(rng.uniform(0.75, 0.92))

    if family == "R(RC)":
        (t1,) = _taus(rng, 1, f_lo, f_hi)
        r1 = R()
        spec = ["S", E("R", R=R()), ["P", E("R", R=r1), E("C", C=t1 / r1)]]
    elif family == "R(RQ)":
        (t1,) = _taus(rng, 1, f_lo, f_hi, margin=1.5)
        r1, n1 = R(), n()
        spec = ["S", E("R", R=R()), ["P", E("R", R=r1), E("Q", Y=t1**n1 / r1, n=n1)]]
    elif family == "R(RC)(RC)":
        t1, t2 = _taus(rng, 2, f_lo, f_hi)
        r1, r2 = R(), R()
        spec = ["S", E("R", R=R()), ["P", E("R", R=r1), E("C", C=t1 / r1)], ["P", E("R", R=r2), E("C", C=t2 / r2)]]
    elif family == "R(RC)(RQ)":
        t1, t2 = _taus(rng, 2, f_lo, f_hi, margin=1.5, sep=2.0)
        r1, r2, n2 = R(), R(), n()
        if rng.random() < 0.5:
            spec = ["S", E("R", R=R()), ["P", E("R", R=r1), E("C", C=t1 / r1)], ["P", E("R", R=r2), E("Q", Y=t2**n2 / r2, n=n2)]]
        else:
            spec = ["S", E("R", R=R()), ["P", E("R", R=r1), E("C", C=t2 / r1)], ["P", E("R", R=r2), E("Q", Y=t1**n2 / r2, n=n2)]]
    elif family == "R(C[RW])":
        # Randles: charge-transfer arc in the upper half of the window, Warburg tail comparable to R_ct at f_lo
        (t1,) = _taus(rng, 1, f_lo * 10.0 ** (span / 2), f_hi, margin=0.8)
        r1 = R()
        k = _logu(rng, 0.5, 3.0)
        Y = 1.0 / (k * r1 * math.sqrt(2 * math.pi * f_lo))
        spec = ["S", E("R", R=R()), ["P", E("C", C=t1 / r1), ["S", E("R", R=r1), E("W", Y=[Y, "default", "default", False], n=[0.5, "default", "default", True])]]]
    elif family == "R(C[RW])/n-released":
        (t1,) = _taus(rng, 1, f_lo * 10.0 ** (span / 2), f_hi, margin=0.8)
        r1 = R()
        k = _logu(rng, 0.5, 3.0)
        nw = float(rng.choice([rng.uniform(0.35, 0.45), rng.uniform(0.55, 0.65)]))
        Y = 1.0 / (k * r1 * (2 * math.pi * f_lo) ** nw)
        spec = ["S", E("R", R=R()), ["P", E("C", C=t1 / r1), ["S", E("R", R=r1), E("W", Y=Y, n=nw)]]]
    elif family == "R(C[RWo])/n-released":
        # finite-length (blocking) Warburg: transition 1/(2 pi B) 1-2 decades above f_lo, |Z_W| there comparable to R_ct
        (t1,) = _taus(rng, 1, f_lo * 10.0 ** (span / 2), f_hi, margin=0.8)
        r1 = R()
        k = _logu(rng, 0.5, 3.0)
        nw = float(rng.choice([rng.uniform(0.35, 0.45), rng.uniform(0.55, 0.65)]))
        f_b = f_lo * 10.0 ** rng.uniform(1.0, 2.0)
        B = 1.0 / (2 * math.pi * f_b)
        Y = (1.0 / (k * r1)) ** (1.0 / nw) / (2 * math.pi * f_b)
        spec = ["S", E("R", R=R()), ["P", E("C", C=t1 / r1), ["S", E("R", R=r1), E("Wo", Y=Y, B=B, n=nw)]]]
    elif family == "RL(RQ)":
        (t1,) = _taus(rng, 1, f_lo, f_hi, margin=1.5, top_margin=2.5)
        r0, r1, n1 = R(), R(), n()
        L = _logu(rng, 0.3, 3.0) * r0 / (2 * math.pi * f_hi)
        spec = ["S", E("R", R=r0), E("L", L=L), ["P", E("R", R=r1), E("Q", Y=t1**n1 / r1, n=n1)]]
    else:
        raise ValueError(family)
    return spec, f_lo, f_hi, ppd


def perturb(rng, spec, factor=3.0, dn=0.05):
    """Start circuit: every free value multiplied by 10^U(-log f, +log f); exponents shifted by U(-dn, dn) (kept in (0.3, 1])."""
    import copy

    out = copy.deepcopy(spec)
    lf = math.log10(factor)
    for leaf in leaves(out):
        for name, p in leaf[2].items():
            if p[3]:
                continue
            if name in ("n", "a", "b"):
                p[0] = float(min(1.0, max(0.3, p[0] + rng.uniform(-dn, dn))))
            else:
                p[0] = float(p[0] * 10.0 ** rng.uniform(-lf, lf))
    return out
