"""Tier/seed handling, sharding over subprocesses, watchdogs, three-valued verdict, evidence writer.

A property module (vlib/props/cXX.py) provides

    ID, RULE, ASSUMPTIONS                       strings / list of strings
    gen_cases(tier, seed) -> list[dict]         JSON-serialisable case descriptors (cheap, deterministic)
    run_case(case) -> dict                      executes the real library on the case and applies the oracle:
        {"evals": int,                          executions of the deciding comparison in this case
         "keys": [hashable, ...],               canonical keys of the DISTINCT NON-TRIVIAL cases seen
         "disjoint": int,                       additional distinct non-trivial count, disjoint by construction
         "viol": [{"key": mech, "msg": str, "witness": {...}}, ...],
         "stats": {name: int}, "maxobs": {name: float}, "sample": any}
    optional: setup_shard(), shard_report() -> {counter: int}, finalize(agg) -> {"viol": [...], "inconclusive": [...]},
              SHARDS (default 16), CASE_TIMEOUT (s, default 120), SHARD_TIMEOUT (s), MIN_EVALS

Verdicts: held -> exit 0; violated -> "VIOLATION property=<id> replay=<path>", exit 1;
inconclusive -> "INCONCLUSIVE property=<id> reason=...", exit 2 (never a VIOLATION line).
"""
import hashlib
import importlib
import json
import os
import signal
import subprocess
import sys
import time
import traceback

from . import env
from . import findings

LEVEL = "exploration"


class CaseTimeout(BaseException):
    pass


def _alarm(signum, frame):
    raise CaseTimeout()


def load(pid: str):
    return importlib.import_module(f"vlib.props.{pid.lower()}")


def _jsonable(o):
    import numpy as np

    if isinstance(o, dict):
        return {str(k): _jsonable(v) for k, v in o.items()}
    if isinstance(o, (list, tuple, set, frozenset)):
        return [_jsonable(v) for v in o]
    if isinstance(o, (np.integer,)):
        return int(o)
    if isinstance(o, (np.floating,)):
        return float(o)
    if isinstance(o, (complex, np.complexfloating)):
        return [float(o.real), float(o.imag)]
    if isinstance(o, np.ndarray):
        return _jsonable(o.tolist())
    if isinstance(o, (np.bool_,)):
        return bool(o)
    if isinstance(o, float):
        if o != o or o in (float("inf"), float("-inf")):
            return repr(o)
        return o
    if isinstance(o, (str, int, bool)) or o is None:
        return o
    return repr(o)


def khash(k) -> str:
    return hashlib.blake2b(repr(k).encode("utf-8", "replace"), digest_size=8).hexdigest()


# ------------------------------------------------------------------------------------------------
# shard (child) side
# ------------------------------------------------------------------------------------------------


def run_shard(pid: str, cases_file: str, shard: int, nshards: int, out_file: str) -> int:
    mod = load(pid)
    try:
        env.import_pyimpspec()
    except env.WrongTree as e:
        with open(out_file, "w") as fp:
            fp.write(json.dumps({"fatal": f"wrong-tree: {e}"}) + "\n")
        return 2
    with open(cases_file) as fp:
        cases = json.load(fp)
    mine = [(i, c) for i, c in enumerate(cases) if i % nshards == shard]
    timeout = int(getattr(mod, "CASE_TIMEOUT", 120))
    signal.signal(signal.SIGALRM, _alarm)
    with open(out_file, "w") as fp:
        try:
            if hasattr(mod, "setup_shard"):
                mod.setup_shard()
        except Exception:
            fp.write(json.dumps({"fatal": "setup_shard: " + traceback.format_exc()[-1500:]}) + "\n")
            return 2
        for i, case in mine:
            t0 = time.time()
            rec = {"i": i}
            try:
                signal.alarm(timeout)
                try:
                    res = mod.run_case(case)
                finally:
                    signal.alarm(0)
                rec.update(
                    evals=int(res.get("evals", 1)),
                    keys=[khash(k) for k in res.get("keys", [])],
                    disjoint=int(res.get("disjoint", 0)),
                    viol=_jsonable(res.get("viol", [])),
                    stats=_jsonable(res.get("stats", {})),
                    maxobs=_jsonable(res.get("maxobs", {})),
                    sample=_jsonable(res.get("sample")),
                    agg=_jsonable(res.get("agg")),
                )
            except CaseTimeout:
                rec["inconclusive"] = f"case {i} watchdog ({timeout}s)"
            except BaseException:
                rec["inconclusive"] = f"case {i} harness error: " + traceback.format_exc()[-1500:]
            rec["t"] = round(time.time() - t0, 3)
            fp.write(json.dumps(rec) + "\n")
            fp.flush()
        rep = {}
        if hasattr(mod, "shard_report"):
            try:
                rep = _jsonable(mod.shard_report())
            except Exception:
                rep = {"shard_report_error": 1}
        fp.write(json.dumps({"done": True, "monitors": rep}) + "\n")
    return 0


# ------------------------------------------------------------------------------------------------
# parent side
# ------------------------------------------------------------------------------------------------


def _scratch(pid: str) -> str:
    base = os.environ.get("VERIF_SCRATCH") or os.path.join(env.VERIF_DIR, ".scratch")
    d = os.path.join(base, f"{pid}-{os.getpid()}")
    os.makedirs(d, exist_ok=True)
    return d


def _write_replay(pid: str, case, viol) -> str:
    d = os.path.join(env.VERIF_DIR, "replays", pid)
    os.makedirs(d, exist_ok=True)
    body = json.dumps({"property": pid, "case": case, "violation": viol}, indent=1, sort_keys=True)
    name = hashlib.blake2b(body.encode(), digest_size=6).hexdigest() + ".json"
    path = os.path.join(d, name)
    with open(path, "w") as fp:
        fp.write(body)
    return path


def run_property(pid: str, tier: str, seed: int) -> int:
    t_start = time.time()
    mod = load(pid)
    try:
        env.import_pyimpspec()
    except env.WrongTree as e:
        print(f"INCONCLUSIVE property={pid} reason=wrong-tree {e}")
        return 2
    cases = mod.gen_cases(tier, seed)
    scratch = _scratch(pid)
    cases_file = os.path.join(scratch, "cases.json")
    with open(cases_file, "w") as fp:
        json.dump(_jsonable(cases), fp)
    with open(cases_file) as fp:
        cases = json.load(fp)  # exactly what the shards see
    nshards = max(1, min(int(getattr(mod, "SHARDS", 16)), len(cases)))
    if os.environ.get("VERIF_SHARDS"):
        nshards = max(1, min(int(os.environ["VERIF_SHARDS"]), len(cases)))
    shard_timeout = float(getattr(mod, "SHARD_TIMEOUT", 900 if tier == "quick" else 7200))
    procs = []
    main_py = os.path.join(env.VERIF_DIR, "vlib", "main.py")
    child_env = dict(os.environ)
    child_env["PYTHONHASHSEED"] = "0"
    child_env["VERIF_SEED"] = str(seed)
    child_env["VERIF_TIER"] = tier
    for s in range(nshards):
        out = os.path.join(scratch, f"out-{s}.jsonl")
        err = open(os.path.join(scratch, f"err-{s}.txt"), "w")
        p = subprocess.Popen(
            [sys.executable, "-B", main_py, pid, "--shard", f"{s}/{nshards}", "--cases", cases_file, "--out", out],
            stdout=err,
            stderr=subprocess.STDOUT,
            env=child_env,
            cwd=env.VERIF_DIR,
        )
        procs.append((s, p, out, err))
    inconclusive = []
    deadline = time.time() + shard_timeout
    for s, p, out, err in procs:
        try:
            p.wait(timeout=max(1.0, deadline - time.time()))
        except subprocess.TimeoutExpired:
            p.kill()
            p.wait()
            inconclusive.append(f"shard {s} wall-clock watchdog ({shard_timeout:.0f}s)")
        err.close()

    evals = 0
    keyset = set()
    disjoint = 0
    stats = {}
    maxobs = {}
    monitors = {}
    samples = []
    viols = []  # (case_index, viol)
    aggs = []
    case_times = []
    for s, p, out, err in procs:
        done = False
        if not os.path.exists(out):
            inconclusive.append(f"shard {s} produced no output (exit {p.returncode})")
            continue
        with open(out) as fp:
            for line in fp:
                try:
                    rec = json.loads(line)
                except Exception:
                    continue
                if "fatal" in rec:
                    inconclusive.append(f"shard {s}: {rec['fatal']}")
                    continue
                if rec.get("done"):
                    done = True
                    for k, v in (rec.get("monitors") or {}).items():
                        if isinstance(v, (int, float)):
                            monitors[k] = monitors.get(k, 0) + v
                    continue
                if "inconclusive" in rec:
                    inconclusive.append(rec["inconclusive"])
                    continue
                evals += rec.get("evals", 0)
                keyset.update(rec.get("keys", []))
                disjoint += rec.get("disjoint", 0)
                for k, v in (rec.get("stats") or {}).items():
                    if isinstance(v, (int, float)):
                        stats[k] = stats.get(k, 0) + v
                for k, v in (rec.get("maxobs") or {}).items():
                    if isinstance(v, (int, float)):
                        maxobs[k] = max(maxobs.get(k, v), v)
                if rec.get("sample") is not None and len(samples) < 6:
                    samples.append(rec["sample"])
                if rec.get("agg") is not None:
                    aggs.append(rec["agg"])
                for v in rec.get("viol") or []:
                    viols.append((rec["i"], v))
                case_times.append((rec.get("t", 0), rec["i"]))
        if not done and not any(f"shard {s}" in r for r in inconclusive):
            tail = ""
            try:
                with open(os.path.join(scratch, f"err-{s}.txt")) as fp:
                    tail = fp.read()[-800:]
            except Exception:
                pass
            inconclusive.append(f"shard {s} died (exit {p.returncode}) {tail}")

    agg_info = {}
    if hasattr(mod, "finalize"):
        try:
            fin = mod.finalize(
                {"aggs": aggs, "stats": stats, "maxobs": maxobs, "monitors": monitors, "tier": tier, "evals": evals}
            )
            for v in fin.get("viol", []):
                viols.append((-1, _jsonable(v)))
            inconclusive.extend(fin.get("inconclusive", []))
            agg_info = _jsonable(fin.get("info", {}))
        except Exception:
            inconclusive.append("finalize harness error: " + traceback.format_exc()[-1200:])

    # classify violations against the committed known findings
    known = findings.load_open(pid)
    known_hits = {}
    new_viols = []
    for idx, v in viols:
        key = v.get("key", "unclassified")
        if key in known:
            known_hits[key] = known_hits.get(key, 0) + 1
        else:
            new_viols.append((idx, v))
    for key, n in sorted(known_hits.items()):
        print(f"KNOWN-FINDING: property={pid} {key}: {known[key]} [{n} witness(es) this run]")

    distinct = len(keyset) + disjoint
    min_evals = int(getattr(mod, "MIN_EVALS", 2))
    if evals < min_evals or distinct < 2:
        inconclusive.append(f"too few events (evals={evals}, distinct_nontrivial={distinct})")

    if not samples:
        samples = cases[:3]
    wall = time.time() - t_start
    cov = {
        "evaluations": int(evals),
        "distinct_nontrivial": int(distinct),
        "rule": mod.RULE,
        "samples": samples[:6],
        "exhaustive": bool(getattr(mod, "EXHAUSTIVE", False)),
        "cases": len(cases),
        "shards": nshards,
        "events": stats,
        "worst_observed": maxobs,
        "monitor_counters": monitors,
        "known_finding_hits": known_hits,
        "new_violation_keys": sorted({v.get("key", "unclassified") for _, v in new_viols}),
        "inconclusive_reasons": inconclusive[:10],
        "slowest_case_s": max(case_times)[0] if case_times else 0.0,
        "slowest_cases": [{"t": t, "case": {k: v for k, v in cases[i].items() if k in ("kind", "sym", "cfg", "n", "first")}} for t, i in sorted(case_times, reverse=True)[:5]],
        "cpu_s_sum_over_cases": round(sum(t for t, _ in case_times), 1),
        "tree": env.REPO,
    }
    if hasattr(mod, "BLOCKS"):
        cov["blocks"] = _jsonable(mod.BLOCKS(tier) if callable(mod.BLOCKS) else mod.BLOCKS)
    if agg_info:
        cov["aggregate"] = agg_info
    evidence = {
        "property_id": pid,
        "tier": tier,
        "seed": int(seed),
        "level": LEVEL,
        "coverage": cov,
        "assumptions": list(getattr(mod, "ASSUMPTIONS", [])),
        "wall_s": round(wall, 2),
        "violations": len(new_viols),
        "verdict": "violated" if new_viols else ("inconclusive" if inconclusive else "held"),
    }
    if not os.environ.get("VERIF_NO_EVIDENCE"):
        _write_evidence(pid, evidence)

    # clean scratch
    try:
        import shutil

        shutil.rmtree(scratch, ignore_errors=True)
    except Exception:
        pass

    if new_viols:
        seen = set()
        for idx, v in new_viols:
            key = v.get("key", "unclassified")
            if key in seen or len(seen) >= 25:
                continue  # one replay file per mechanism key
            path = _write_replay(pid, cases[idx] if idx >= 0 else {"aggregate": True}, v)
            seen.add(key)
            print(f"  witness[{key}]: {str(v.get('msg'))[:400]}")
            print(f"VIOLATION property={pid} replay={path}")
        print(f"{pid}: VIOLATED  {len(new_viols)} witness(es), {len(seen)} mechanism key(s); evals={evals}")
        return 1
    if inconclusive:
        print(f"INCONCLUSIVE property={pid} reason={inconclusive[0][:120]} ... {inconclusive[0][-700:]}")
        return 2
    print(
        f"{pid}: held on {evals} evaluations ({distinct} distinct non-trivial) "
        f"[{tier}, seed {seed}, {wall:.1f}s, known-finding witnesses {sum(known_hits.values())}]"
    )
    return 0


def _write_evidence(pid, evidence):
    d = os.path.join(env.VERIF_DIR, "evidence")
    os.makedirs(d, exist_ok=True)
    try:
        import jsonschema

        with open("/root/.vp/EVIDENCE.schema.json") as fp:
            schema = json.load(fp)
        if evidence["verdict"] == "held":
            jsonschema.validate(evidence, schema)
    except ImportError:
        pass
    except FileNotFoundError:
        pass
    with open(os.path.join(d, f"{pid}.json"), "w") as fp:
        json.dump(evidence, fp, indent=1, sort_keys=True)
        fp.write("\n")


def replay(pid: str, path: str) -> int:
    mod = load(pid)
    env.import_pyimpspec()
    with open(path) as fp:
        rec = json.load(fp)
    case = rec["case"]
    w = (rec.get("violation") or {}).get("witness")
    if isinstance(w, dict) and isinstance(w.get("replay_case"), dict):
        case = w["replay_case"]  # concrete input of the witness (survives generator changes)
    if hasattr(mod, "setup_shard"):
        mod.setup_shard()
    res = mod.run_case(case)
    known = findings.load_open(pid)
    bad = [v for v in res.get("viol", []) if v.get("key") not in known]
    for v in res.get("viol", []):
        print(("KNOWN-FINDING: " if v.get("key") in known else "  witness: ") + f"[{v.get('key')}] {str(v.get('msg'))[:1000]}")
    if bad:
        print(f"VIOLATION property={pid} replay={path}")
        return 1
    print(f"{pid}: replay held")
    return 0
