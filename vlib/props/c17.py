"""C17 - results are reproducible and independent of worker scheduling.

Shape: history + executable model, the model being the *serial run of the same library call*.
For every analysis that fans out over a process pool one case = one concrete input + a list of runs

    run 0   num_procs=1, no delays, global numpy RNG state A          -> reference
    run 1   the same again INSIDE the reference's process             -> "repeat-same-process"
    run 2   the same again in another fresh process                   -> "repeat"
    run 3   num_procs=1, global numpy RNG state B                     -> "global-rng" (nobody passed a seed, so the
                                                                         state of numpy's global RNG is not an input)
    run 4.. num_procs in 2..16, delay schedule in {none, reverse, rotate-k, alternate, random}  -> "pool" / "sched"
    last    set_default_num_procs(k) + num_procs=0, then restore      -> "default-procs"

Every run (run 1 excepted) is executed in its own freshly forked child of the shard process, which itself never executes
an analysis: no state left behind in module globals by an earlier run (memo tables, caches, RNG state) can make two runs
agree or disagree by accident; pool workers are forked from that clean child.  Results come back through a pipe.

and every run must return the reference's winner identity (method/weight; smoothing/interpolation/window;
log F_ext list + suggested num_RC; num_RC list) and bit-identical numeric fields.  The pool worker functions are re-bound
(vlib/c17_sched.py) so that every task sleeps a schedule-determined delay around the real call and appends
(task, pid, start, end[, candidate score]) to an O_APPEND log; the oracle reads the log to report how many tasks ran
in how many worker processes, the DISTINCT COMPLETION ORDERS actually produced, and how many candidates tied
exactly with the winner.  A pooled fan-out of >= 4 tasks that produced < 3 distinct completion orders makes the case
inconclusive.  generate_mock_data: same seed twice -> bit-identical (independent of the global RNG and of calls in
between), different seeds -> different data.

KK cnls with the AUTOMATIC num_RC range is the one consumer loop in the library that stops early on the results received
so far (exploratory._use_cnls; the matrix-inversion / least-squares routes use a plain map without early stopping): those
cases compare the list of num_RC values tested and every returned result, and their schedules ("head") delay exactly the
first submitted tasks so that later results are ready first.

Latitude (things the statement leaves open, accepted as they are):
 - an input on which the *serial reference itself* raises is not a C17 matter (C18's); it only becomes one when another
   schedule / process count does not raise the same exception type;
 - seeds are taken from [0, 2**32) (the library documents truncation to 32 bits);
 - BHT is out of scope by the property's own quantifier (no seed parameter, global RNG by design);
 - the `timeout` options are wall-clock features; they are set far above anything the delays can produce;
 - nothing is demanded about *how many* worker processes are really started.
"""
import hashlib
import os
import shutil
import tempfile
import time
import warnings

import numpy as np

from .. import c17_sched as S
from .. import monitors

ID = "C17"
RULE = (
    "cases generated from rng([seed, index]): fit_circuit (4-9 methods x 2-4 weights in shuffled order; exact-start "
    "ideal R / RC / (RC) data where several candidates reach the same pseudo chi-squared to the last bit, and noisy mock "
    "spectra, and noisy spectra fitted under user constraint expressions / variables whose dictionaries are shared by the serial "
    "reference and its repeat and must come back unmodified), perform_zhit with 'auto' options (ideal R, C, Q, L spectra = exact ties across smoothing/interpolation; noisy mock spectra; "
    "noisy spectra with a narrow window centred on a measured frequency = exact ties across windows only), "
    "evaluate_log_F_ext(num_F_ext_evaluations in {10,20,100}) + suggest_num_RC for the six linear tests, KK 'cnls' over an "
    "explicit num_RC range, and with the AUTOMATIC num_RC range on 19-21-point spectra (evaluate_log_F_ext and "
    "perform_exploratory_kramers_kronig_tests: the list of num_RC values tested, every returned result and the suggestion are "
    "compared; schedules delay exactly the first submitted tasks num_RC=2..6 so that later results are ready first), perform_kramers_kronig_test (thorough), generate_mock_data "
    "(all predefined identifiers + CDCs, seed pairs incl. pairs that agree in their low 8/16 bits). Each analysis case is "
    "executed serially (reference, repeat, other global-RNG state), with num_procs in 2..16 under delay schedules "
    "{none, reverse, rotate, alternate, random} injected around the re-bound pool workers, and through "
    "set_default_num_procs; every run is compared bit-for-bit with the reference. A case is non-trivial when the "
    "reference completed and >= 1 pooled run was compared; distinct = distinct (kind, input hash, option cell)."
)
ASSUMPTIONS = [
    "fork start method: re-bound module-level worker functions (same __module__/__qualname__) are what pool workers execute",
    "O_APPEND writes of < 512 bytes are atomic (completion-order log)",
    "numpy .tobytes() / float.hex() as the bit-identity relation; OMP/BLAS threads pinned to 1 by ./check",
    "the serial run (num_procs=1) of the same call is the reference model",
]
SHARDS = 4
CASE_TIMEOUT = 900
MIN_EVALS = 30

METHODS = ["leastsq", "least_squares", "nelder", "lbfgsb", "powell", "cg", "bfgs", "tnc", "slsqp"]
WEIGHTS = ["unity", "modulus", "proportional", "boukamp"]
SMOOTH = ["none", "lowess", "modsinc", "savgol", "whithend"]
INTERP = ["akima", "cubic", "makima", "pchip"]
LINEAR_TESTS = ["real", "complex", "imaginary", "real-inv", "complex-inv", "imaginary-inv"]
PROCS = [2, 3, 4, 7, 16]
# upper bound of the injected delay per task; it has to be comparable with the spread of the task durations to permute
# completions (offset fits take ~3 ms, one cnls fit 0.1-1 s)
MAX_MS = {"fit": 24.0, "rec": 20.0, "off": 6.0, "ext": 120.0, "cnls": 500.0}
MAIN_STAGE = {"fit": "fit", "zhit": "off", "kkext": "ext", "kkauto": "ext", "cnls": "cnls", "kkext-cnls": "cnls"}


# ------------------------------------------------------------------------------------------------
# case generation (concrete, JSON-able: arrays are written out, schedules are explicit)
# ------------------------------------------------------------------------------------------------
def _grid(rng, lo_pts=12, hi_pts=45):
    while True:
        log_max = float(rng.choice([3.0, 4.0, 5.0, 6.0]))
        span = float(rng.choice([3.0, 4.0, 5.0, 6.0]))
        ppd = int(rng.choice([3, 4, 5, 7, 10]))
        n = int(round(span * ppd)) + 1
        if lo_pts <= n <= hi_pts:
            return log_max, log_max - span, ppd


def _schedules(rng, tier, kind, serial_rng_run=True):
    """run list of one case (see module docstring)."""
    A, B = int(rng.integers(1, 2**31)), int(rng.integers(1, 2**31))
    runs = [
        {"tag": "ref", "P": 1, "sched": None, "gseed": A},
        {"tag": "repeat-same-process", "P": 1, "sched": None, "gseed": A},  # second call inside the reference's process
        {"tag": "repeat", "P": 1, "sched": None, "gseed": A},  # the same call in another fresh process
    ]
    if serial_rng_run:
        runs.append({"tag": "global-rng", "P": 1, "sched": None, "gseed": B})
    npool = 5 if tier == "quick" else 13
    modes = ["none", "reverse", "random", "rotate", "alternate"]
    procs = list(PROCS)
    rng.shuffle(procs)
    for j in range(npool):
        mode = modes[j] if j < len(modes) else str(rng.choice(["random", "rotate", "reverse", "alternate", "random"]))
        if j < len(procs):
            P = int(procs[j])
        else:
            P = int(rng.integers(2, 17))
        sched = {
            "mode": mode,
            "salt": int(rng.integers(0, 2**31)),
            "k": float(rng.choice([0.25, 0.5, 0.75, 0.33])),
            "pre": float(rng.choice([1.0, 0.0, 0.5])),
            "max_ms": dict(MAX_MS),
        }
        runs.append({"tag": "pool" if mode == "none" else "sched", "P": P, "sched": sched, "gseed": A})
    k = int(rng.choice([2, 3, 5]))
    runs.append(
        {
            "tag": "default-procs",
            "P": 0,
            "override": k,
            "gseed": A,
            "sched": {"mode": "random", "salt": int(rng.integers(0, 2**31)), "pre": 1.0, "max_ms": dict(MAX_MS)},
        }
    )
    return runs


def _zlist(Z):
    return [[float(z.real), float(z.imag)] for z in np.asarray(Z, dtype=complex)]


def _ideal(rng, what, f):
    w = 2 * np.pi * np.asarray(f)
    if what == "R":
        return np.full(len(f), float(10 ** rng.uniform(-2, 6)) + 0j), {}
    if what == "C":
        return 1 / (1j * w * float(10 ** rng.uniform(-9, -2))), {}
    if what == "L":
        return 1j * w * float(10 ** rng.uniform(-9, -3)), {}
    n = float(rng.choice([0.5, 0.8, 0.9, float(rng.uniform(0.3, 0.99))]))
    return 1 / (float(10 ** rng.uniform(-7, -2)) * (1j * w) ** n), {"n": n}


MOCK_VALID = [f"CIRCUIT_{i}" for i in (1, 2, 3, 4, 5, 6, 8, 9, 10, 11)]
MOCK_CDCS = [
    "R{R=100}(R{R=200}C{C=0.8e-6})",
    "R{R=50}(R{R=300}Q{Y=2e-5,n=0.85})",
    "R{R=20}(R{R=100}C{C=1e-6})(R{R=250}C{C=4e-4})",
    "R{R=10}(R{R=150}Q{Y=3e-5,n=0.9})(R{R=400}W{Y=4e-3})",
]


def _mock_spec(rng, ppd_choices=(5, 7, 10), idents=None):
    idents = idents or (MOCK_VALID + MOCK_CDCS)
    ident = str(rng.choice(idents))
    kw = {
        "noise": float(rng.choice([0.02, 0.05, 0.2, 0.5, 1.0])),
        "seed": int(rng.integers(0, 2**32)),
        "num_per_decade": int(rng.choice(list(ppd_choices))),
    }
    if not ident.startswith("CIRCUIT"):
        kw.update(log_max_f=float(rng.choice([4.0, 5.0])), log_min_f=float(rng.choice([-1.0, 0.0])))
    return {"mock": ident, "kw": kw}


def _case_zhit(rng, tier, tie, wcell=None):
    c = {"kind": "zhit"}
    if tie == "W":
        # window ties: noisy data (smoothing / interpolation candidates do not tie) and a NARROW window centred exactly on
        # a measured frequency, so that only that point gets a weight and several scipy windows give bit-identical
        # weights -> candidates that differ in nothing but the window label tie for the best pseudo chi-squared
        ppd = int(rng.choice([2, 3])) if wcell != "ffa" or rng.random() < 0.5 else int(rng.choice([5, 10]))
        spec = _mock_spec(rng, ppd_choices=(ppd,), idents=MOCK_CDCS[:3] + ["CIRCUIT_1", "CIRCUIT_2", "CIRCUIT_5"])
        spec["kw"].update(log_max_f=4.0, log_min_f=0.0, noise=float(rng.choice([0.05, 0.2, 1.0])))
        c.update(src="mock-narrow-window", spec=spec, first="window-tie")
        center = float(rng.choice([1.0, 2.0, 3.0]))  # 10**center is a grid point of logspace(4, 0, 4 * ppd + 1)
        width = float(rng.choice([0.05, 0.1, 0.2, 0.3] if ppd <= 3 else [0.05, 0.1, 0.15]))  # < 2 x grid spacing
    elif tie:
        log_max, log_min, ppd = _grid(rng)
        n = int(round((log_max - log_min) * ppd)) + 1
        f = np.logspace(log_max, log_min, n)
        what = tie
        Z, extra = _ideal(rng, what, f)
        c.update(src=f"ideal-{what}", f=[float(x) for x in f], Z=_zlist(Z), first=f"ideal-{what}")
        span = log_max - log_min
        center, width = (log_max + log_min) / 2, max(2.0, float(rng.choice([0.6, 0.8, 1.0])) * span)
    else:
        spec = _mock_spec(rng, ppd_choices=(2, 3) if tier == "quick" else (3, 4, 5), idents=MOCK_CDCS + ["CIRCUIT_1", "CIRCUIT_2", "CIRCUIT_5"])
        spec["kw"].update(log_max_f=float(rng.choice([4.0, 5.0])), log_min_f=float(rng.choice([0.0, -1.0])) if tier == "thorough" else 0.0)
        c.update(src="mock", spec=spec, first="mock")
        center, width = 1.5, 3.0
    cell = str(rng.choice(["aaa", "aaa", "aaa", "afa", "faa", "aaf"])) if tier == "thorough" else "aaa"
    if tie == "W":
        cell = wcell or "ffa"
    opts = {
        "smoothing": "auto" if cell[0] == "a" else str(rng.choice(SMOOTH)),
        "interpolation": "auto" if cell[1] == "a" else str(rng.choice(INTERP)),
        "window": "auto" if cell[2] == "a" else str(rng.choice(["boxcar", "hann", "triang", "cosine"])),
        "num_points": int(rng.choice([3, 4, 5])),
        "polynomial_order": 2,
        "num_iterations": int(rng.choice([2, 3])),
        "center": float(center),
        "width": float(width),
        "admittance": bool(rng.random() < 0.3),
    }
    c.update(opts=opts, cell=cell, runs=_schedules(rng, tier, "zhit", serial_rng_run=False))
    return c


def _case_fit(rng, tier, tie):
    c = {"kind": "fit"}
    nm = int(rng.integers(4, 10))
    nw = int(rng.integers(2, 5))
    methods = [str(m) for m in rng.permutation(METHODS)[:nm]]
    weights = [str(w) for w in rng.permutation(WEIGHTS)[:nw]]
    if tie == "constrained":
        # user constraints: an expression ties one resistance to another through a user-defined variable whose start
        # value is far from its lower bound.  The SAME dictionaries are handed to the serial reference and to the serial
        # repeat (a caller who simply calls again); pooled runs get fresh copies.
        import pyimpspec

        if rng.random() < 0.6:
            gen = "R{R=100}(R{R=200}C{C=0.8e-6})(R{R=500}C{C=4e-4})"
            vals = tuple(float(f"{v * 10 ** rng.uniform(-0.2, 0.2):.4g}") for v in (100, 200, 0.8e-6, 500, 4e-4))
            cdc = "R{R=%g}(R{R=%g}C{C=%g})(R{R=%g}C{C=%g})" % vals
            ce = {"R_3": "R_1 + alpha"}
            cv = {"alpha": {"value": float(np.round(rng.uniform(150, 450), 1)), "min": float(rng.choice([1.0, -1000.0]))}}
            lo, hi = -1.0, 4.0
        else:
            gen = "R{R=100}(R{R=200}C{C=0.8e-6})"
            vals = tuple(float(f"{v * 10 ** rng.uniform(-0.2, 0.2):.4g}") for v in (100, 200, 0.8e-6))
            cdc = "R{R=%g}(R{R=%g}C{C=%g})" % vals
            ce = {"R_1": "beta * R_0"}
            cv = {"beta": {"value": float(np.round(rng.uniform(1.5, 3.0), 2)), "min": 0.1, "max": 10.0}, "unused": {"value": 5.0, "min": -3.0, "vary": False}}
            lo, hi = 0.0, 4.0
        ids = pyimpspec.generate_fit_identifiers(pyimpspec.parse_cdc(cdc))
        known = {f"{sym}_{i}" for i, e in enumerate(ids) for sym in e.get_values()}
        known = {getattr(m, sym) for e, m in ids.items() for sym in e.get_values()} or known
        assert set(ce) <= known and all(tok in known for ex in ce.values() for tok in ex.replace("*", " ").replace("+", " ").split() if tok[:2] in ("R_", "C_")), (ce, known)
        spec = _mock_spec(rng, ppd_choices=(3, 4), idents=[gen])
        spec["kw"].update(log_max_f=hi, log_min_f=lo)
        c.update(src="mock-constrained", spec=spec, cdc=cdc, first="constrained", constraint_expressions=ce, constraint_variables=cv, identifiers_known=sorted(known))
        nm = int(rng.integers(3, 5))
        nw = 2
        methods = [str(m) for m in rng.permutation(["least_squares", "powell", "lbfgsb", "nelder", "leastsq", "slsqp"])[:nm]]
        weights = [str(w) for w in rng.permutation(["modulus", "boukamp", "unity"])[:nw]]
    elif tie:
        log_max, log_min, ppd = _grid(rng, 8, 30)
        n = int(round((log_max - log_min) * ppd)) + 1
        f = np.logspace(log_max, log_min, n)
        w = 2 * np.pi * f
        R = float(np.round(10 ** rng.uniform(0, 4), 3))
        C = float(f"{10 ** rng.uniform(-7, -4):.3e}")
        if tie == "R":
            cdc, Z = f"R{{R={R!r}}}", np.full(n, R + 0j)
        elif tie == "R-far":  # start value away from the exact solution: several methods still land on it exactly
            cdc, Z = f"R{{R={R * float(rng.choice([0.5, 2.0, 10.0]))!r}}}", np.full(n, R + 0j)
        elif tie == "RC":
            cdc, Z = f"R{{R={R!r}}}C{{C={C!r}}}", R + 1 / (1j * w * C)
        else:
            cdc, Z = f"(R{{R={R!r}}}C{{C={C!r}}})", 1 / (1 / R + 1j * w * C)
        c.update(src=f"exact-{tie}", cdc=cdc, f=[float(x) for x in f], Z=_zlist(Z), first=f"exact-{tie}")
    else:
        gen, start = [
            ("R{R=100}(R{R=200}C{C=0.8e-6})", "R{R=%g}(R{R=%g}C{C=%g})"),
            ("R{R=50}(R{R=300}Q{Y=2e-5,n=0.85})", "R{R=%g}(R{R=%g}Q{Y=%g,n=0.8})"),
            ("R{R=20}C{C=1e-5}", "R{R=%g}C{C=%g}"),
        ][int(rng.integers(0, 3))]
        base = {"R{R=100}": (100, 200, 0.8e-6), "R{R=50}(": (50, 300, 2e-5), "R{R=20}C": (20, 1e-5)}[gen[:8]]
        vals = tuple(float(f"{v * 10 ** rng.uniform(-0.3, 0.3):.4g}") for v in base)
        spec = _mock_spec(rng, ppd_choices=(4, 5, 7), idents=[gen])
        spec["kw"].update(log_max_f=4.0, log_min_f=0.0)
        c.update(src="mock", spec=spec, cdc=start % vals, first="mock")
    c.update(
        opts={"method": methods, "weight": weights, "max_nfev": int(rng.choice([-1, -1, 200]))},
        cell=f"{nm}x{nw}",
        runs=_schedules(rng, tier, "fit", serial_rng_run=False),
    )
    return c


def _case_kkext(rng, tier, auto=False, nev=None):
    c = {"kind": "kkauto" if auto else "kkext", "first": "mock"}
    c["spec"] = _mock_spec(rng, ppd_choices=(4, 5) if tier == "quick" else (4, 5, 7, 10))
    if c["spec"]["mock"].startswith("CIRCUIT") and tier == "quick":
        c["spec"]["kw"].update(log_max_f=4.0, log_min_f=-1.0)
    test = str(rng.choice(LINEAR_TESTS))
    c["opts"] = {
        "test": test,
        "num_F_ext_evaluations": int(rng.choice([10, 20])),
        "admittance": bool(rng.random() < 0.3),
        "rapid_F_ext_evaluations": bool(rng.random() < 0.8),
        "min_log_F_ext": float(rng.choice([-1.0, -1.0, -0.5])),
        "max_log_F_ext": float(rng.choice([1.0, 1.0, 0.5])),
    }
    if auto:
        c["opts"]["admittance"] = None if rng.random() < 0.5 else c["opts"]["admittance"]
    if nev:
        # fine search: the refinement stage requests extensions that lie ~1e-3 apart (state carried from one evaluation
        # to the next inside a process - caches keyed by a rounded log F_ext, ... - would show up here)
        c["opts"]["num_F_ext_evaluations"] = int(nev)
        c["spec"] = _mock_spec(rng, ppd_choices=(4, 5), idents=MOCK_CDCS + ["CIRCUIT_1", "CIRCUIT_2", "CIRCUIT_5"])
        c["spec"]["kw"].update(log_max_f=4.0, log_min_f=0.0)
        c["opts"]["test"] = test = str(rng.choice(["real", "complex", "imaginary"]))
        c["first"] = "fine-search"
    c["cell"] = f"{test}/{c['opts']['num_F_ext_evaluations']}/{c['opts']['admittance']}"
    c["runs"] = _schedules(rng, tier, "kkext", serial_rng_run=True)
    if nev and tier == "quick":
        c["runs"] = [r for r in c["runs"] if r["tag"] != "repeat"][:7]  # ref, same-process repeat, global-rng, 4 pooled
    return c


def _autolimit_runs(rng, tier):
    """run list for the cnls cases with the AUTOMATIC num_RC range.  The consuming loop in _use_cnls decides when to
    stop from the results received so far (threshold = min over the first five, stop once the last five are below
    it), so the schedules delay exactly the first submitted tasks (num_RC = 2..6): the pool then delivers later
    results first unless the library consumes them in submission order."""
    A = int(rng.integers(1, 2**31))
    runs = [{"tag": "ref", "P": 1, "sched": None, "gseed": A}]
    if tier == "thorough":
        runs.append({"tag": "repeat", "P": 1, "sched": None, "gseed": A})
    pooled = [(8, "head", 5), (16, "reverse", 0), (4, "head", 2), (7, "random", 0)]
    if tier == "thorough":
        pooled += [(16, "head", 5), (3, "head", 1), (12, "rotate", 0), (5, "alternate", 0), (2, "none", 0)]
    for P, mode, n in pooled:
        sched = {"mode": mode, "head_n": n, "salt": int(rng.integers(0, 2**31)), "k": 0.5, "pre": 1.0, "max_ms": dict(MAX_MS)}
        runs.append({"tag": "pool" if mode == "none" else "sched", "P": P, "sched": sched, "gseed": A})
    return runs


AUTOLIMIT_SPECS = [
    # short spectra on which the automatic limiter really stops before 2 * n - 5 (pilot: noise >= 0.2 %)
    ("CIRCUIT_1", {"num_per_decade": 5, "log_max_f": 4.0, "log_min_f": 0.0}),
    (MOCK_CDCS[0], {"num_per_decade": 5, "log_max_f": 4.0, "log_min_f": 0.0}),
    (MOCK_CDCS[0], {"num_per_decade": 6, "log_max_f": 4.0, "log_min_f": 1.0}),
]


def _case_cnls_auto(rng, tier, auto=False):
    """KK cnls with the automatically determined num_RC range (num_RCs=None / num_RC=0)."""
    ident, kw = AUTOLIMIT_SPECS[int(rng.integers(0, len(AUTOLIMIT_SPECS)))]
    kw = dict(kw, noise=float(rng.choice([0.2, 0.5])), seed=int(rng.integers(0, 2**32)))
    npts = int(round((kw["log_max_f"] - kw["log_min_f"]) * kw["num_per_decade"])) + 1
    c = {"kind": "kkauto" if auto else "cnls", "first": "cnls-autolimit", "spec": {"mock": ident, "kw": kw}, "npts": npts, "stage": "cnls", "autolimit": True}
    if auto:
        c["opts"] = {"test": "cnls", "num_F_ext_evaluations": 0, "admittance": False, "timeout": 600}
    else:
        c["opts"] = {"test": "cnls", "num_RCs": None, "num_F_ext_evaluations": 0, "log_F_ext": float(rng.choice([0.0, 0.0, 0.2])), "admittance": False, "max_nfev": 0, "timeout": 600}
    c["cell"] = f"cnls/auto/{'kk' if auto else 'ext'}"
    c["runs"] = _autolimit_runs(rng, tier)
    return c


def _case_cnls(rng, tier, autolimit=False):
    c = {"kind": "cnls", "first": "mock"}
    spec = _mock_spec(rng, ppd_choices=(3, 4), idents=["CIRCUIT_1", "CIRCUIT_2", "CIRCUIT_5", MOCK_CDCS[0], MOCK_CDCS[2]])
    if spec["mock"].startswith("CIRCUIT"):
        spec["kw"].update(log_max_f=4.0, log_min_f=0.0)
    c["spec"] = spec
    npts = int(round((spec["kw"].get("log_max_f", 4.0) - spec["kw"].get("log_min_f", 0.0)) * spec["kw"]["num_per_decade"])) + 1
    hi = 2 * npts - 5
    if autolimit:
        num_RCs = None
    else:
        a = int(rng.integers(2, max(3, hi - 8)))
        num_RCs = list(range(a, min(hi, a + int(rng.integers(4, 9))) + 1))
    c["opts"] = {
        "test": "cnls",
        "num_RCs": num_RCs,
        "num_F_ext_evaluations": 0,
        "log_F_ext": float(rng.choice([0.0, 0.0, 0.2, -0.2])),
        "admittance": bool(tier == "thorough" and rng.random() < 0.15),
        "max_nfev": 0,
        "timeout": 600,
    }
    c["cell"] = f"cnls/{'auto' if autolimit else len(num_RCs)}/{c['opts']['admittance']}"
    c["npts"] = npts
    c["runs"] = _schedules(rng, tier, "cnls", serial_rng_run=False)
    return c


def _case_kkext_cnls(rng, tier):
    """extension search driven by the cnls test: pool.map(_wrapper) whose tasks open the cnls pool themselves."""
    c = {"kind": "kkext-cnls", "first": "mock"}
    c["spec"] = {"mock": MOCK_CDCS[0], "kw": {"noise": 0.05, "seed": int(rng.integers(0, 2**32)), "num_per_decade": 2, "log_max_f": 4.0, "log_min_f": 1.0}}
    c["opts"] = {"test": "cnls", "num_F_ext_evaluations": 10, "max_nfev": 0, "timeout": 600, "admittance": False}
    c["cell"] = "cnls/ext10"
    A = int(rng.integers(1, 2**31))
    c["runs"] = [
        {"tag": "ref", "P": 1, "sched": None, "gseed": A},
        {"tag": "sched", "P": 4, "sched": {"mode": "random", "salt": 5, "pre": 1.0, "max_ms": dict(MAX_MS)}, "gseed": A},
    ]
    if tier == "thorough":
        c["runs"].append({"tag": "pool", "P": 3, "sched": {"mode": "none"}, "gseed": A})
        c["runs"].append({"tag": "sched", "P": 8, "sched": {"mode": "reverse", "salt": 6, "pre": 0.0, "max_ms": dict(MAX_MS)}, "gseed": A})
    return c


def _case_mock(rng, tier):
    from pyimpspec.mock_data import _definitions

    idents = [d.get_identifier() for d in _definitions] + MOCK_CDCS
    items = []
    for _ in range(40 if tier == "quick" else 120):
        s = int(rng.integers(0, 2**32))
        other = [
            int(rng.integers(0, 2**32)),
            (s + 256 * int(rng.integers(1, 2**20))) % 2**32,  # same low 8 bits
            (s + 65536 * int(rng.integers(1, 2**12))) % 2**32,  # same low 16 bits
            (s + 1) % 2**32,
            s ^ (1 << 31),
            (s + 1000 * int(rng.integers(1, 2**20))) % 2**32,  # same last 3 decimal digits
            (s + 2**24 * int(rng.integers(1, 2**8))) % 2**32,  # same low 24 bits
        ][int(rng.integers(0, 7))]
        if other == s:
            other = (s + 1) % 2**32
        items.append(
            {
                "ident": str(rng.choice(idents)),
                "noise": float(rng.choice([1e-3, 0.05, 0.5, 5.0])),
                "seed": s,
                "other": int(other),
                "ppd": int(rng.choice([1, 3, 10])),
                "scramble": int(rng.integers(0, 2**31)),
            }
        )
    return {"kind": "mock", "items": items, "first": "mock"}


def gen_cases(tier, seed):
    from .. import env

    env.import_pyimpspec()
    cases = []

    def add(fn, *a, **k):
        rng = np.random.default_rng([seed, len(cases), 17])
        c = fn(rng, tier, *a, **k)
        c["seedinfo"] = [int(seed), len(cases)]
        cases.append(c)

    if tier == "quick":
        plan = [
            (_case_zhit, ("R",)), (_case_fit, ("R",)), (_case_kkext, ()),
            (_case_zhit, ("C",)), (_case_fit, (None,)), (_case_cnls, ()),
            (_case_zhit, (None,)), (_case_fit, ("RC",)), (_case_kkext, ()),
            (_case_zhit, ("Q",)), (_case_fit, ("R-far",)), (_case_mock, ()),
            (_case_kkext_cnls, ()), (_case_kkext, ()), (_case_zhit, ("W", "ffa")),
            (_case_zhit, ("W", "ffa")), (_case_zhit, ("W", "afa")),
            (_case_fit, ("constrained",)), (_case_fit, ("constrained",)),
            (_case_kkext, (False, 100)), (_case_cnls_auto, ()),
        ]
    else:
        plan = []
        ties_z = ["R", "C", "Q", "L", "R", "C", "Q", None, None, None, None, None]
        ties_f = ["R", "RC", "(RC)", "R-far", "R", None, None, None, None, None]
        for i in range(12):
            plan.append((_case_zhit, (ties_z[i % len(ties_z)],)))
            if i < 10:
                plan.append((_case_fit, (ties_f[i],)))
            plan.append((_case_kkext, ()))
            if i % 3 == 0:
                plan.append((_case_cnls, ()))
            if i % 4 == 1:
                plan.append((_case_kkext, (True,)))
        plan += [(_case_zhit, ("W", w)) for w in ("ffa", "ffa", "afa", "faa", "aaa", "ffa")]
        plan += [(_case_fit, ("constrained",))] * 5
        plan += [(_case_kkext, (False, 100))] * 3 + [(_case_kkext, (False, 50))]
        plan += [(_case_cnls_auto, ()), (_case_cnls_auto, ()), (_case_cnls_auto, (True,)), (_case_kkext_cnls, ()), (_case_mock, ()), (_case_mock, ())]
    for fn, a in plan:
        add(fn, *a)
    if tier == "quick":
        # the runner deals cases round-robin over SHARDS shards: order them so that the estimated cost is balanced
        cost = {"zhit": 12, "fit": 14, "kkext": 12, "cnls": 14, "kkext-cnls": 24, "mock": 1, "kkauto": 24}
        bins = [[] for _ in range(SHARDS)]
        for c in sorted(cases, key=lambda c: -cost[c["kind"]]):
            ok = [b for b in bins if len(b) < -(-len(cases) // SHARDS)]
            min(ok, key=lambda b: sum(cost[x["kind"]] for x in b)).append(c)
        cases = [b[i] for i in range(max(len(b) for b in bins)) for b in bins if i < len(b)]
    return cases


# ------------------------------------------------------------------------------------------------
# execution of one run + digests
# ------------------------------------------------------------------------------------------------
def setup_shard():
    ok = S.install()
    for k, v in ok.items():
        monitors.count(f"worker_rebound.{k}", 1 if v else 0)
    import pyimpspec.analysis.zhit.weights as W

    if len(W._WINDOW_FUNCTIONS) == 0:
        W._initialize_window_functions()


def shard_report():
    return dict(monitors.COUNTERS)


def _dataset(case):
    import pyimpspec

    if "spec" in case:
        sp = case["spec"]
        return pyimpspec.generate_mock_data(sp["mock"], **sp["kw"])[0]
    Z = np.array([complex(a, b) for a, b in case["Z"]], dtype=np.complex128)
    return pyimpspec.DataSet(frequencies=np.array(case["f"], dtype=np.float64), impedances=Z, label=case.get("src", "x"))


def _arr(x):
    a = np.asarray(x)
    if np.iscomplexobj(a):
        a = a.astype(np.complex128).view(np.float64)
    return np.ascontiguousarray(a, dtype=np.float64).ravel()


_LIVE = {}  # per case: the constraint dictionaries shared by the serial reference and the serial repeat


def _constraints(case, run):
    """-> (constraint_expressions, constraint_variables) objects to hand to fit_circuit for this run."""
    import copy

    if "constraint_variables" not in case:
        return None, None
    if run is not None and run.get("tag") in ("ref", "repeat-same-process"):
        if "cv" not in _LIVE:
            _LIVE["ce"] = copy.deepcopy(case["constraint_expressions"])
            _LIVE["cv"] = copy.deepcopy(case["constraint_variables"])
        return _LIVE["ce"], _LIVE["cv"]
    return copy.deepcopy(case["constraint_expressions"]), copy.deepcopy(case["constraint_variables"])


def _call(case, data, P, run=None):
    """-> (identity tuple, {name: float64 array}) of the result of the library call of this case."""
    import pyimpspec
    from pyimpspec.analysis.kramers_kronig.exploratory import evaluate_log_F_ext

    kind = case["kind"]
    o = case["opts"]
    if kind == "fit":
        ce, cv = _constraints(case, run)
        extra = {} if cv is None else {"constraint_expressions": ce, "constraint_variables": cv}
        try:
            r = pyimpspec.fit_circuit(pyimpspec.parse_cdc(case["cdc"]), data, method=list(o["method"]), weight=list(o["weight"]), max_nfev=o["max_nfev"], num_procs=P, **extra)
        finally:
            if cv is not None:
                _LIVE["mutated"] = None if (ce == case["constraint_expressions"] and cv == case["constraint_variables"]) else {"constraint_expressions": ce, "constraint_variables": cv}
        ident = {
            "method": r.method,
            "weight": r.weight,
            "circuit": r.circuit.to_string(),
            "parameter_table": sorted((k, sorted((p, v.fixed, v.unit) for p, v in d.items())) for k, d in r.parameters.items()),
        }
        nums = {
            "pseudo_chisqr": _arr([r.pseudo_chisqr]),
            "values": _arr([v.value for _, d in sorted(r.parameters.items()) for _, v in sorted(d.items())]),
            "stderr": _arr([v.stderr for _, d in sorted(r.parameters.items()) for _, v in sorted(d.items())]),
            "circuit_values": _arr([v for e in r.circuit.get_elements() for _, v in sorted(e.get_values().items())]),
            "frequencies": _arr(r.frequencies),
            "impedances": _arr(r.impedances),
            "residuals": _arr(r.residuals),
        }
        mr = r.minimizer_result
        ident["minimizer"] = [int(getattr(mr, "nfev", -1)), int(getattr(mr, "ndata", -1)), int(getattr(mr, "nvarys", -1)), list(getattr(mr, "var_names", []))]
        nums["mr.stats"] = _arr([float(getattr(mr, a, np.nan)) for a in ("chisqr", "redchi", "aic", "bic")])
        nums["mr.residual"] = _arr(getattr(mr, "residual", []))
        nums["mr.params"] = _arr([p.value for p in mr.params.values()])
        cov = getattr(mr, "covar", None)
        ident["has_covar"] = cov is not None
        if cov is not None:
            nums["mr.covar"] = _arr(cov)
        return ident, nums
    if kind == "zhit":
        r = pyimpspec.perform_zhit(data, num_procs=P, **o)
        return {"smoothing": r.smoothing, "interpolation": r.interpolation, "window": r.window}, {
            "pseudo_chisqr": _arr([r.pseudo_chisqr]),
            "frequencies": _arr(r.frequencies),
            "impedances": _arr(r.impedances),
            "residuals": _arr(r.residuals),
        }
    if kind == "kkauto" and case.get("autolimit"):
        # the public wrapper that also returns every test that was performed (perform_kramers_kronig_test only returns
        # the suggested one): the LIST of automatically chosen num_RC values is part of what is compared
        from pyimpspec.analysis.kramers_kronig import perform_exploratory_kramers_kronig_tests

        tests, sug = perform_exploratory_kramers_kronig_tests(data, num_procs=P, **o)
        return {"num_RCs": [[int(t.num_RC) for t in tests]], "suggested_num_RC": [int(sug[0].num_RC), int(sug[2]), int(sug[3])], "admittance": bool(sug[0].admittance)}, {
            "pseudo_chisqr": _arr([t.pseudo_chisqr for t in tests]),
            "impedances": np.concatenate([_arr(t.impedances) for t in tests]),
            "residuals": np.concatenate([_arr(t.residuals) for t in tests]),
            "suggest.scores": _arr([v for _, v in sorted(sug[1].items())]),
            "log_F_ext": _arr([t.get_log_F_ext() for t in tests]),
        }
    if kind == "kkauto":
        r = pyimpspec.perform_kramers_kronig_test(data, num_procs=P, **o)
        return {"num_RC": int(r.num_RC), "admittance": bool(r.admittance), "test": r.test, "circuit": r.circuit.to_string()}, {
            "log_F_ext": _arr([r.get_log_F_ext()]),
            "pseudo_chisqr": _arr([r.pseudo_chisqr]),
            "impedances": _arr(r.impedances),
            "residuals": _arr(r.residuals),
        }
    # kkext, cnls, kkext-cnls
    kw = dict(o)
    if kw.get("num_RCs") is None:
        kw.pop("num_RCs", None)
    res = evaluate_log_F_ext(data, num_procs=P, **kw)
    ident = {"evaluations": len(res), "num_RCs": [[int(t.num_RC) for t in tests] for _, tests, _ in res]}
    nums = {
        "log_F_ext": _arr([a for a, _, _ in res]),
        "statistic": _arr([s for _, _, s in res]),
        "pseudo_chisqr": _arr([t.pseudo_chisqr for _, tests, _ in res for t in tests]),
        "impedances": np.concatenate([_arr(t.impedances) for _, tests, _ in res for t in tests] or [np.zeros(0)]),
        "top.residuals": np.concatenate([_arr(t.residuals) for t in res[0][1]] or [np.zeros(0)]),
    }
    if kind in ("kkext", "kkext-cnls") or case.get("autolimit"):
        from pyimpspec.analysis.kramers_kronig import suggest_num_RC

        # the winner of the search = best extension + the number of RC elements suggested for it (default methods).
        # INFO only (not part of the verdict: suggest_num_RC does not fan out, so it is outside the property's
        # quantifier): method 6 alone, which fits a cubic from a start vector drawn from numpy's global RNG.
        for name, kw2 in (("suggested_num_RC", {}), ("info:method6", {"methods": [6]})):
            try:
                sug = suggest_num_RC(res[0][1], **kw2)
                ident[name] = [int(sug[0].num_RC), int(sug[2]), int(sug[3])]
                nums[name + ".scores"] = _arr([v for _, v in sorted(sug[1].items())])
            except Exception as e:  # consistent across runs or it shows up as an identity difference
                ident[name] = ["raised", type(e).__name__]
    return ident, nums


def _task_ranks(case):
    """submission order of the label-keyed tasks (so that 'reverse'/'rotate' are real permutations of it)."""
    kind, o = case["kind"], case["opts"]
    if kind == "fit":
        return {"fit": {f"{m}/{w}": i for i, (m, w) in enumerate((m, w) for m in o["method"] for w in o["weight"])}}
    if kind == "zhit":
        import pyimpspec.analysis.zhit.weights as W

        sm = SMOOTH if o["smoothing"] == "auto" else [o["smoothing"]]
        ip = INTERP if o["interpolation"] == "auto" else [o["interpolation"]]
        wi = list(W._WINDOW_FUNCTIONS) if o["window"] == "auto" else [o["window"]]
        rec = [f"{s}/{i}" for i in ip for s in sm]
        return {"rec": {k: j for j, k in enumerate(rec)}, "off": {f"{k}/{w}": j for j, (w, k) in enumerate((w, k) for w in wi for k in rec)}}
    if kind in ("kkext", "kkauto", "kkext-cnls"):
        return {"ext": ["lin", o.get("min_log_F_ext", -1.0), o.get("max_log_F_ext", 1.0)], "cnls": ["lin", 2, 40]}
    if kind == "cnls":
        lo, hi = (min(o["num_RCs"]), max(o["num_RCs"])) if o.get("num_RCs") else (2, 2 * case.get("npts", 20) - 5)
        return {"cnls": ["lin", lo, hi]}
    return {}


def _execute(case, data, run, tmp, j):
    """one run -> dict(outcome, ident, nums, exc, log, t)"""
    from pyimpspec.analysis import utility as U

    log = os.path.join(tmp, f"run-{j}.log")
    sched = dict(run["sched"]) if run.get("sched") else None
    if sched is not None:
        sched["ranks"] = _task_ranks(case)
    np.random.seed(int(run["gseed"]) % 2**32)
    before = U.get_default_num_procs() if "override" in run else None
    out = {"log": log, "override_ok": None, "pid": os.getpid()}
    t0 = time.time()
    try:
        if "override" in run:
            U.set_default_num_procs(int(run["override"]))
            out["override_seen"] = int(U.get_default_num_procs())
        S.begin(log, sched)
        with warnings.catch_warnings():
            warnings.simplefilter("ignore")
            _LIVE.pop("mutated", None)
            ident, nums = _call(case, data, int(run["P"]), run)
        out.update(outcome="ok", ident=ident, nums=nums)
    except Exception as e:
        o = monitors.exception_origin(e)
        out.update(outcome="exc", exc=type(e).__name__, origin=f"{o['file']}:{o['func']}", text=str(e)[:200], tb=monitors.tb_tail(e, 5))
    finally:
        S.end()
        out["cv_mutated"] = _LIVE.pop("mutated", None)
        if "override" in run:
            U.set_default_num_procs(-1)
            after = U.get_default_num_procs()
            out["override_ok"] = bool(out.get("override_seen") == int(run["override"]) and after == before)
            out["override_detail"] = [before, out.get("override_seen"), after]
    out["t"] = time.time() - t0
    return out


class ChildFailed(RuntimeError):
    pass


def _child_main(conn, case, data, group, tmp):
    try:
        _LIVE.clear()
        outs = [_execute(case, data, run, tmp, j) for j, run in group]
        conn.send(outs)
    except BaseException as e:  # harness trouble inside the child: reported to the parent, never a verdict
        try:
            conn.send({"child_error": repr(e)[:500]})
        except Exception:
            pass
    finally:
        conn.close()
        os._exit(0)


def _run_group(case, data, group, tmp):
    """Execute the runs of `group` (list of (index, run)) one after the other in ONE freshly forked child of this process.

    This (shard) process never executes an analysis itself, so every child starts from the same library state: nothing
    a previous run left behind in module globals (caches, memos, registries, RNG state) can make two runs agree - or
    disagree - by accident.  Results come back pickled through a pipe."""
    import multiprocessing as mp

    ctx = mp.get_context("fork")
    recv, send = ctx.Pipe(False)
    proc = ctx.Process(target=_child_main, args=(send, case, data, group, tmp))
    proc.daemon = False  # the child creates the library's pools
    proc.start()
    send.close()
    try:
        try:
            outs = recv.recv()
        except EOFError:
            raise ChildFailed(f"run child for {[r['tag'] for _, r in group]} died without a result (exit code {proc.exitcode})")
        if isinstance(outs, dict):
            raise ChildFailed(f"run child harness error: {outs.get('child_error')}")
        return outs
    finally:
        recv.close()
        proc.join(5)
        if proc.is_alive():
            proc.kill()
            proc.join()


def _compare(ref, cur):
    """-> (None | 'winner' | 'numbers:<field>' | 'raised:<T>' | 'ref-raised', max abs deviation, detail)"""
    if ref["outcome"] == "exc" and cur["outcome"] == "exc":
        return (None, 0.0, "") if ref["exc"] == cur["exc"] else (f"raised:{cur['exc']}", 0.0, f"reference raised {ref['exc']}, this run {cur['exc']}: {cur['text']}")
    if cur["outcome"] == "exc":
        return f"raised:{cur['exc']}", 0.0, f"{cur['exc']} at {cur['origin']}: {cur['text']}"
    if ref["outcome"] == "exc":
        return "ref-raised", 0.0, f"reference (serial) raised {ref['exc']} at {ref['origin']} ({ref['text']}) but this run completed"
    dev = 0.0
    bad = None
    for k in sorted(set(ref["ident"]) | set(cur["ident"])):
        if ref["ident"].get(k) != cur["ident"].get(k) and not k.startswith("info:"):
            bad = bad or f"winner:{k}"
    for k in sorted(set(ref["nums"]) | set(cur["nums"])):
        if k.startswith("info:"):
            continue
        a, b = ref["nums"].get(k), cur["nums"].get(k)
        if a is None or b is None or a.shape != b.shape:
            bad = bad or f"numbers:{k}"
            continue
        if a.tobytes() != b.tobytes():
            bad = bad or f"numbers:{k}"
            with np.errstate(all="ignore"):
                d = np.abs(a - b)
                d = d[np.isfinite(d)]
            dev = max(dev, float(d.max()) if d.size else float("inf"))
    detail = ""
    if bad:
        k0 = bad.split(":", 1)[1] if bad.startswith("winner:") else None
        detail = f"reference {k0}={ref['ident'].get(k0)!r} vs {cur['ident'].get(k0)!r}" if k0 else f"field {bad}"
        detail = detail[:600]
        for k in ("pseudo_chisqr", "log_F_ext"):
            if k in ref["nums"] and k in cur["nums"]:
                detail += f"; {k} {[float(x).hex() for x in ref['nums'][k][:3]]} vs {[float(x).hex() for x in cur['nums'][k][:3]]}"
    return bad, dev, detail


def _case_hash(case):
    body = repr([case.get("kind"), case.get("src"), case.get("cdc"), case.get("spec"), case.get("f"), case.get("Z"), case.get("opts")])
    return hashlib.blake2b(body.encode(), digest_size=8).hexdigest()


# ------------------------------------------------------------------------------------------------
# mock data clause
# ------------------------------------------------------------------------------------------------
def _run_mock(case):
    import pyimpspec

    viol, stats, evals, keys = [], {}, 0, []
    mind = float("inf")
    for it in case["items"]:
        kw = dict(noise=it["noise"], num_per_decade=it["ppd"])
        try:
            np.random.seed(it["scramble"] % 2**32)
            a = pyimpspec.generate_mock_data(it["ident"], seed=it["seed"], **kw)[0]
            np.random.seed((it["scramble"] + 1) % 2**32)
            np.random.normal(size=7)
            pyimpspec.generate_mock_data(it["ident"], seed=it["other"], **kw)  # a call in between
            b = pyimpspec.generate_mock_data(it["ident"], seed=it["seed"], **kw)[0]
            c = pyimpspec.generate_mock_data(it["ident"], seed=it["other"], **kw)[0]
        except Exception as e:
            o = monitors.exception_origin(e)
            viol.append({"key": f"C17/mock/raised:{o['type']}", "msg": f"generate_mock_data({it['ident']!r}, seed=...) raised {e!r}", "witness": {"item": it, "replay_case": {"kind": "mock", "items": [it]}}})
            continue
        evals += 2
        stats["mock.same_seed_pairs"] = stats.get("mock.same_seed_pairs", 0) + 1
        stats["mock.different_seed_pairs"] = stats.get("mock.different_seed_pairs", 0) + 1
        Za, Zb, Zc = a.get_impedances(), b.get_impedances(), c.get_impedances()
        same = Za.tobytes() == Zb.tobytes() and a.get_frequencies().tobytes() == b.get_frequencies().tobytes() and a.get_label() == b.get_label()
        if not same:
            viol.append({"key": "C17/mock/same-seed-differs", "msg": f"generate_mock_data({it['ident']!r}, noise={it['noise']}, seed={it['seed']}) twice: max |dZ| = {float(np.abs(Za - Zb).max()) if Za.shape == Zb.shape else 'shape'}", "witness": {"item": it, "replay_case": {"kind": "mock", "items": [it]}}})
        if Za.shape == Zc.shape:
            d = float(np.abs(Za - Zc).max() / np.abs(Za).max())
            mind = min(mind, d / (it["noise"] / 100.0))
            x = it["seed"] ^ it["other"]
            rel = "low24" if x % 2**24 == 0 else "low16" if x % 2**16 == 0 else "low8" if x % 256 == 0 else "high-bit" if x == 2**31 else "mod1000" if (it["seed"] - it["other"]) % 1000 == 0 else "other"
            if Za.tobytes() == Zc.tobytes():
                viol.append({"key": f"C17/mock/different-seeds-same-data:{rel}", "msg": f"generate_mock_data({it['ident']!r}, noise={it['noise']}) returns identical data for seed={it['seed']} and seed={it['other']}", "witness": {"item": it, "replay_case": {"kind": "mock", "items": [it]}}})
        keys.append(("mock", it["ident"], it["noise"], it["ppd"]))
    return {
        "evals": evals, "keys": keys, "viol": viol, "stats": stats,
        "maxobs": {"mock.neg_min_rel_seed_difference_over_noise": -mind if mind < float("inf") else 0.0},
        "sample": {"kind": "mock", "first_item": case["items"][0], "items": len(case["items"])},
        "agg": {"kind": "mock"},
    }


# ------------------------------------------------------------------------------------------------
# run_case
# ------------------------------------------------------------------------------------------------
def run_case(case):
    if case["kind"] == "mock":
        return _run_mock(case)
    kind = case["kind"]
    tmp = tempfile.mkdtemp(prefix="c17-")
    try:
        return _run_analysis(case, kind, tmp)
    finally:
        S.end()
        shutil.rmtree(tmp, ignore_errors=True)


def _run_analysis(case, kind, tmp):
    stage = case.get("stage") or MAIN_STAGE[kind]
    stats, maxobs, viol = {}, {}, []
    _LIVE.clear()
    data = _dataset(case)
    runs = case["runs"]
    results = []
    orders, pids, tasks_seen = set(), set(), 0
    pooled_compared = 0
    evals = 0
    fanout = 0
    ref_tasks = []
    ties = 0
    wties = 0
    ref = None
    parent = os.getpid()
    # groups: a run tagged "repeat-same-process" is executed in the child of the run before it; all others get their own
    groups = []
    for j, run in enumerate(runs):
        if run["tag"] == "repeat-same-process" and groups:
            groups[-1].append((j, run))
        else:
            groups.append([(j, run)])
    executed = {}
    for g in groups:
        for (j, _), o in zip(g, _run_group(case, data, g, tmp)):
            executed[j] = o
    stats["run_children_forked"] = len(groups)
    for j, run in enumerate(runs):
        r = executed[j]
        parent = r["pid"]
        results.append(r)
        stats[f"{kind}.runs.{run['tag']}"] = stats.get(f"{kind}.runs.{run['tag']}", 0) + 1
        if "constraint_variables" in case:
            evals += 1
            stats["cmp.fit.constraint_dicts_untouched"] = stats.get("cmp.fit.constraint_dicts_untouched", 0) + 1
            if r.get("cv_mutated") and not any(v["key"] == "C17/fit/constraint-dict-mutated" for v in viol):
                viol.append(
                    {
                        "key": "C17/fit/constraint-dict-mutated",
                        "msg": f"fit_circuit (run {run['tag']}, num_procs={run['P']}) altered the caller's constraint dictionaries, so repeating the same call is no longer "
                        f"the same call: passed {case['constraint_expressions']} / {case['constraint_variables']}, afterwards {r['cv_mutated']}",
                        "witness": {"before": {"constraint_expressions": case["constraint_expressions"], "constraint_variables": case["constraint_variables"]}, "after": r["cv_mutated"], "replay_case": {**{k: v for k, v in case.items() if k != "runs"}, "runs": [runs[0]]}},
                    }
                )
        L = S.read_log(r["log"])
        recs = L.get(stage, [])
        for k2, v in L.items():
            stats[f"tasks.{k2}"] = stats.get(f"tasks.{k2}", 0) + len(v)
        child = [x for x in recs if x["p"] != parent]
        if j == 0:
            ref = r
            fanout = len(recs)
            ref_tasks = sorted(x["t"] for x in recs)
            if r["outcome"] == "ok" and stage in S.VALUES and recs:
                best = min(float.fromhex(x["v"]) for x in recs if "v" in x)
                ties = sum(1 for x in recs if "v" in x and float.fromhex(x["v"]) == best)
                if kind == "zhit":  # ties between candidates that differ ONLY in the window label
                    grp = {}
                    for x in recs:
                        if "v" in x and float.fromhex(x["v"]) == best:
                            sm_ip = x["t"].rsplit("/", 1)[0]
                            grp[sm_ip] = grp.get(sm_ip, 0) + 1
                    wties = max(grp.values()) if grp else 0
            continue
        if run["P"] != 1:
            # evidence that the pool really ran the wrapper in other processes
            if child:
                pids.update(x["p"] for x in child)
                tasks_seen += len(child)
                if run["tag"] in ("pool", "sched", "default-procs"):
                    orders.add(S.order_digest(child))
            if kind == "zhit" and L.get("rec"):
                stats["zhit.rec_orders_logged"] = stats.get("zhit.rec_orders_logged", 0) + 1
        if kind == "zhit" and ref["outcome"] == "ok" and r["outcome"] == "ok" and ref_tasks:
            # every run evaluates the same candidates, however they are distributed over workers (Z-HIT has no early stop)
            got_tasks = sorted(x["t"] for x in recs)
            stats["zhit.task_sets_compared"] = stats.get("zhit.task_sets_compared", 0) + 1
            if got_tasks != ref_tasks:
                missing = sorted(set(ref_tasks) - set(got_tasks))
                viol.append({
                    "key": "C17/zhit/candidates-evaluated-differ",
                    "msg": f"perform_zhit (run {run['tag']}, num_procs={run['P']}) evaluated {len(got_tasks)} offset candidates, the reference run {len(ref_tasks)}; "
                           f"never evaluated here: {missing[:6]}{'...' if len(missing) > 6 else ''}",
                    "witness": {"missing": missing[:40], "num_procs": run["P"], "replay_case": {**{k: v for k, v in case.items() if k != "runs"}, "runs": [runs[0], run]}},
                })
        bad, dev, detail = _compare(ref, r)
        evals += 1
        if ref["outcome"] == "ok" and r["outcome"] == "ok" and "info:method6" in ref["ident"]:
            a, b = ref["nums"].get("info:method6.scores"), r["nums"].get("info:method6.scores")
            stats["info.method6.compared"] = stats.get("info.method6.compared", 0) + 1
            if ref["ident"]["info:method6"] != r["ident"].get("info:method6"):
                stats[f"info.method6.suggestion_differs.{run['tag']}"] = stats.get(f"info.method6.suggestion_differs.{run['tag']}", 0) + 1
            if a is not None and b is not None and a.shape == b.shape and a.tobytes() != b.tobytes():
                stats[f"info.method6.score_bits_differ.{run['tag']}"] = stats.get(f"info.method6.score_bits_differ.{run['tag']}", 0) + 1
                with np.errstate(all="ignore"):
                    maxobs["info.method6.max_rel_score_dev"] = max(maxobs.get("info.method6.max_rel_score_dev", 0.0), float(np.nanmax(np.abs(a - b) / np.maximum(np.abs(a), 1e-300))))
        if run["P"] != 1 and ref["outcome"] == "ok":
            pooled_compared += 1
        cls = run["tag"]
        stats[f"cmp.{kind}.{cls}"] = stats.get(f"cmp.{kind}.{cls}", 0) + 1
        maxobs[f"{kind}.max_abs_dev_vs_serial"] = max(maxobs.get(f"{kind}.max_abs_dev_vs_serial", 0.0), dev if dev != float("inf") else 1e300)
        sub = f"{kind}:{case['opts'].get('test')}" if kind.startswith("kk") or kind == "cnls" else kind
        if bad:
            replay = {k: v for k, v in case.items() if k not in ("runs", "spec")}
            if "spec" in case:  # concrete spectrum instead of the mock-data recipe
                replay.update(src=f"mock:{case['spec']['mock']}", spec_origin=case["spec"], f=[float(x) for x in data.get_frequencies()], Z=_zlist(data.get_impedances()))
            replay["runs"] = [runs[0], run]
            viol.append(
                {
                    "key": f"C17/{sub}/{cls}-{bad}",
                    "msg": f"{kind} {case.get('src', case.get('spec', {}).get('mock'))} opts={_short(case['opts'])}: run {run['tag']} (num_procs={run['P']}"
                    f"{', default override ' + str(run.get('override')) if 'override' in run else ''}, schedule={(run.get('sched') or {}).get('mode')}) != serial reference: {bad}; {detail}",
                    "witness": {"run": run, "difference": bad, "detail": detail, "max_abs_dev": dev, "tb": r.get("tb"), "replay_case": replay},
                }
            )
        if "override" in run:
            evals += 1
            stats["cmp.default-procs.get_set_restore"] = stats.get("cmp.default-procs.get_set_restore", 0) + 1
            if not r["override_ok"]:
                viol.append(
                    {
                        "key": "C17/default-procs/get-set-restore",
                        "msg": f"set_default_num_procs({run['override']}) / restore: get_default_num_procs() before, during, after = {r['override_detail']}",
                        "witness": {"detail": r["override_detail"], "replay_case": case},
                    }
                )
    stats[f"{kind}.cases"] = 1
    stopped_early = False
    if case.get("autolimit"):
        stats["cnls.autolimit.cases"] = 1
        if ref["outcome"] == "ok":
            tested = ref["ident"]["num_RCs"][0]
            stopped_early = bool(tested) and tested[-1] < 2 * int(case["npts"]) - 5
            stats["cnls.autolimit.reference_stopped_before_max_num_RC"] = int(stopped_early)
            maxobs["cnls.autolimit.num_RC_values_tested"] = float(len(tested))
    if ref["outcome"] != "ok":
        stats[f"{kind}.reference_raised:{ref['exc']}"] = 1
    if ties > 1:
        stats[f"{kind}.cases_with_exact_tie_for_best"] = 1
        maxobs[f"{kind}.candidates_tied_with_best"] = float(ties)
    if wties > 1:
        stats["zhit.cases_with_window_tie_for_best"] = 1
        maxobs["zhit.windows_tied_with_best"] = float(wties)
    maxobs[f"{kind}.distinct_completion_orders_per_case"] = float(len(orders))
    maxobs[f"{kind}.distinct_worker_pids_per_case"] = float(len(pids))
    maxobs[f"{kind}.fanout"] = float(fanout)
    stats[f"{kind}.distinct_completion_orders"] = len(orders)
    stats[f"{kind}.pool_task_records"] = tasks_seen
    incon = None
    npool = sum(1 for r in runs if r["P"] != 1 and (r.get("sched") or {}).get("mode", "none") != "none")
    if ref["outcome"] == "ok" and fanout >= 4 and npool >= 3 and len(orders) < 3 and not any(v["key"].endswith("AssertionError") for v in viol):
        incon = f"{kind} case {case.get('seedinfo')}: fan-out {fanout} but only {len(orders)} distinct completion orders over {npool} delay schedules"
    nontrivial = ref["outcome"] == "ok" and pooled_compared > 0 and incon is None
    if incon is not None:
        # the schedules did not produce enough different interleavings: this case proves nothing (its comparisons are
        # not counted as evidence); violations found nevertheless stay violations
        stats[f"{kind}.cases_inconclusive_too_few_orders"] = 1
        evals = 0
    return {
        "evals": evals,
        "keys": [(kind, _case_hash(case), case.get("cell"))] if nontrivial else [],
        "viol": viol,
        "stats": stats,
        "maxobs": maxobs,
        "sample": {
            "kind": kind, "input": case.get("src") or case.get("spec"), "cdc": case.get("cdc"), "opts": case["opts"],
            "reference": {k: v for k, v in ref["ident"].items() if k not in ("parameter_table", "num_RCs", "minimizer", "info:method6")} if ref["outcome"] == "ok" else ref.get("exc"),
            "runs": [{"tag": r["tag"], "P": r["P"], "mode": (r.get("sched") or {}).get("mode"), "t": round(x["t"], 2)} for r, x in zip(runs, results)],
            "fanout": fanout, "distinct_orders": len(orders), "worker_pids": len(pids), "tied_with_best": ties, "windows_tied_with_best": wties,
        },
        "agg": {"kind": kind, "autolimit": bool(case.get("autolimit")), "stopped_early": stopped_early, "inconclusive": incon, "ties": ties, "wties": wties, "orders": len(orders), "fanout": fanout, "ref_ok": ref["outcome"] == "ok", "src": case.get("src", "mock")},
    }


def _short(o):
    return {k: (v if not isinstance(v, list) or len(v) < 12 else f"[{len(v)} items]") for k, v in o.items()}


def finalize(agg):
    inconclusive = []
    weak = [a["inconclusive"] for a in agg["aggs"] if a and a.get("inconclusive")]
    st = agg["stats"]
    info = {}
    for kind in ("fit", "zhit", "kkext", "cnls"):
        cs = [a for a in agg["aggs"] if a and a.get("kind") == kind]
        info[kind] = {
            "cases": len(cs),
            "reference_completed": sum(1 for a in cs if a.get("ref_ok")),
            "conclusive": sum(1 for a in cs if a.get("ref_ok") and not a.get("inconclusive")),
            "cases_with_exact_tie": sum(1 for a in cs if a.get("ties", 0) > 1),
            "cases_with_window_tie": sum(1 for a in cs if a.get("wties", 0) > 1 and a.get("ref_ok") and not a.get("inconclusive")),
            "distinct_completion_orders_total": sum(a.get("orders", 0) for a in cs),
        }
        if not cs or not any(a.get("ref_ok") for a in cs):
            inconclusive.append(f"no {kind} case with a completed serial reference")
        elif info[kind]["conclusive"] == 0:
            inconclusive.append(f"no conclusive {kind} case: " + "; ".join(a["inconclusive"] for a in cs if a.get("inconclusive")))
        elif sum(a.get("orders", 0) for a in cs) < 3:
            inconclusive.append(f"{kind}: fewer than 3 distinct completion orders observed in total")
    al = [a for a in agg["aggs"] if a and a.get("autolimit") and a.get("ref_ok") and not a.get("inconclusive")]
    info["cnls_autolimit"] = {"conclusive_cases": len(al), "reference_stopped_before_max_num_RC": sum(1 for a in al if a.get("stopped_early"))}
    if not al:
        inconclusive.append("cnls: no conclusive case with the automatically limited num_RC range (the early-stopping consumer loop was not exercised)")
    for kind in ("fit", "zhit"):
        if info[kind]["cases_with_exact_tie"] == 0:
            inconclusive.append(f"{kind}: no case in which several candidates tied exactly for the best pseudo chi-squared (tie scenario not exercised)")
    if info["zhit"]["cases_with_window_tie"] == 0:
        inconclusive.append("zhit: no conclusive case in which candidates differing only in the window tied exactly for the best pseudo chi-squared")
    if st.get("mock.same_seed_pairs", 0) < 10:
        inconclusive.append("mock-data clause: fewer than 10 seed pairs compared")
    mon = agg["monitors"]
    for k in S.TARGETS:
        if mon.get(f"worker_rebound.{k}", 0) < 1:
            inconclusive.append(f"worker function of kind {k} could not be re-bound")
    info["cases_inconclusive_too_few_orders"] = weak
    if len(weak) > max(1, len(agg["aggs"]) // 5):
        inconclusive.append(f"{len(weak)} cases with too few distinct completion orders: {weak[0]}")
    return {"viol": [], "inconclusive": inconclusive, "info": info}
