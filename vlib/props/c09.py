"""C09 - Kramers-Kronig verdicts do not depend on units or point order.

Shape: metamorphic relation between two executions of the real code.  For a spectrum (f, Z) and fixed options
(test, representation, add_capacitance, add_inductance, num_RC, log_F_ext) the REAL
perform_kramers_kronig_test(..., num_F_ext_evaluations=0, num_procs=1) is run on (f, Z) and on the transformed input
(b*f, a*Z) supplied in the same or in the opposite order, a, b in 1e-6..1e6.  Compared:

  residuals     max |res(data) - res(transformed)| (Re and Im part)                               <= RES_TOL (abs)
  pseudo chi^2  |chi1 - chi2| <= CHI_RTOL * max(chi1, chi2) + CHI_ATOL
  tau           time_constants(transformed) * b == time_constants(data)                            (rel TAU_TOL)
  parameters    R*a, R_k*a, C/(a*b), C_k/(a*b), L*a/b: compared in the variables in which the model is linear, each
                difference weighted with that term's largest contribution to the spectrum and divided by the largest
                contribution of all terms (= "significant parameters")                             <= PAR_TOL
  completion    both calls return (an exception on either side is a violation keyed by side and origin)
  option types  for every second pair the transformed input is run with its options as NumPy scalars (numpy.bool_ flags,
                numpy.int64 num_RC / num_procs, numpy.float64 log_F_ext; c07.run_route): the type of an option value must
                not matter; a type refused up front (TypeError) is counted and replaced by the Python type
  route         for a fixed share of the pairs (about 1/48 and 1/24) the transformed input is evaluated through
                perform_exploratory_kramers_kronig_tests(num_RCs=[n-1,n,n+1]) or evaluate_log_F_ext(num_RCs=[n]) instead
                of perform_kramers_kronig_test (c07.run_route): the verdict must not depend on the entry point either;
                violations of such pairs carry an '@exploratory' / '@evaluate' key suffix

"Well-conditioned num_RC" is a precondition of the pair, decided from the harness's own matrices for BOTH inputs
(kk_model.gate_stats with the harness's own least-squares solution sizing the terms).  Because the property is about
units, the gate must not depend on units itself: FREE_GATE uses the statistics of C07's gate after every column of
the design matrix has been scaled to unit norm (kappan, kparn, condn - invariant under a and b).  Pairs outside it are
executed (must complete, tau still compared) but their deviations are only reported.

Latitude: nothing is demanded of ill-conditioned pairs beyond completing; parameters whose contribution is below
PAR_TOL of the largest term may differ arbitrarily; the sign of zero.
Side regimes with their own mechanism keys (structural features of the pair, never seeds or values):
 - '<real-inv|imaginary-inv>-placeholder-constants' (see C07): the harness predicts that the hard-coded 1e-18 / 1e18
   placeholders of the matrix-inversion real / imaginary test are visible (> ARTEFACT_MAX) in either input;
 - 'frequency-unit-dependence:<lstsq|pinv>': the pair is well-conditioned in natural units but, for at least one of
   the two inputs, the design matrix in the library's own units (rad/s, unnormalised columns) is not (RAW_GATE fails)
   and the transform rescales the frequencies by at least five decades (|log10 b| >= MIN_LOG_B).
"""
import json
import warnings

import numpy as np

from .. import kk_model as km
from .. import monitors
from . import c07

ID = "C09"
RULE = (
    "spectra from the harness (R + 1..4 Cole/RC arcs incl. inductive/negative arcs, optional series L and C, or the KK model "
    "itself; multiplicative Gaussian noise 0..1 %), grids 4..12 points/decade over 2.5..7 decades, for every legal linear cell "
    "(6 tests x {Z,Y} x add_capacitance x add_inductance; cnls impedance without capacitance on noise-free spectra in the thorough tier), num_RC "
    "from 2 to ~1.5 per decade, log_F_ext in [-0.5,0.5]; transforms {Z*a, f*b, reverse, Z*a+f*b, Z*a+f*b+reverse}, a,b in "
    "10^[-6,6] (half of them exact powers of two); every second transformed input passes its options as NumPy scalars; a fixed share of the transformed inputs goes through "
    "perform_exploratory_kramers_kronig_tests / evaluate_log_F_ext instead of perform_kramers_kronig_test. A pair is non-trivial when both inputs pass the conditioning gate; "
    "distinct = distinct (cell, spectrum, num_RC, log_F_ext, transform) keys."
)
ASSUMPTIONS = [
    "numpy complex arithmetic and SVD (reference model and conditioning gate, vlib/kk_model.py)",
    "multiplying an array by a float changes every element by at most one rounding error",
    "DataSet presents frequencies in descending order whatever the input order (C05)",
]
SHARDS = 16
CASE_TIMEOUT = 900
MIN_EVALS = 500

RES_TOL = 1e-4        # DESIGN proposed 1e-5; worst regular deviation over 5.8e5 thorough pairs is 2.8e-7, so 1e-4 keeps the 100x margin
CHI_RTOL = 1e-4
CHI_ATOL = 1e-12
PAR_TOL = 1e-4
TAU_TOL = 1e-10
CNLS_RES_TOL = 1e-1   # cnls results are termination-limited, not rounding-limited (see C07): only gross changes are caught
ARTEFACT_MAX = 1e-7   # 1000x below RES_TOL (on noisy data the fit amplifies the placeholder's effect a few times)
MIN_LOG_B = 5.0       # frequency-unit regime: |log10 b| at least this
# Conditioning gates.  On noisy (inconsistent) data the rounding error of a least-squares solution carries an extra
# cond*residual term, so the thresholds are one decade tighter than C07's.
#   FREE_GATE  unit-free: statistics of the column-normalised systems (invariant under a and b)
#   RAW_GATE   the same statistics in the library's own units (rad/s, unnormalised columns) = C07's kind of gate
FREE_GATE = {
    "lstsq": {"kappan": 1e6, "kparn": 1e6, "condn": 1e10},
    "pinv": {"kappan": 1e6, "kparn": 1e6, "condn": 1e10},
    "inv": {"condn": 1e2},
    "cnls": c07.GATE["cnls"],
}
RAW_GATE = {
    "lstsq": {"kappa": 1e6, "kpar": 1e6, "cond": 1e10},
    "pinv": {"kappa": 1e6, "kpar": 1e6, "cond": 1e10},
    "inv": {"condn": 1e2},
    "cnls": c07.GATE["cnls"],
}


def _gate(test, st, table):
    kind = km.base_kind(test)
    if not (st["ratio"] <= c07.GATE["ratio"] and st["perdec"] <= c07.GATE["perdec"][kind] + 1e-9 and np.isfinite(st["dyn"])):
        return False
    return all(st[k] <= v for k, v in table[km.solver_class(test)].items())


def free_gate(test, st):
    return _gate(test, st, FREE_GATE)


def raw_gate(test, st):
    return _gate(test, st, RAW_GATE)

LIN_CELLS = c07.LIN_CELLS
CNLS_CELLS = [("cnls", False, False, False), ("cnls", False, False, True)]
TRANSFORMS = ("Z*a", "f*b", "reverse", "Z*a,f*b", "Z*a,f*b,reverse")


# ------------------------------------------------------------------------------------------------
# spectra
# ------------------------------------------------------------------------------------------------
def gen_spectrum(rng, tier, noise=True):
    thorough = tier == "thorough"
    ppd = int(rng.integers(4, 13))
    dec = float(rng.uniform(2.5, 7.0))
    N = max(min(int(round(ppd * dec)) + 1, 90 if thorough else 70), 9)
    lo = float(rng.uniform(-3.5, 1.5))
    logf = lo + np.arange(N) / ppd
    f = 10.0**logf
    w = 2 * np.pi * f
    kind = int(rng.integers(0, 4))
    R0 = 10.0 ** rng.uniform(-1, 2)
    Z = np.full(N, R0, dtype=complex)
    m = int(rng.integers(1, 5))
    for _ in range(m):
        R = R0 * 10.0 ** rng.uniform(-1, 1.5)
        if kind == 3 and rng.random() < 0.3:
            R = -0.3 * R  # inductive loop / negative differential resistance
        t = 10.0 ** rng.uniform(-logf[-1] - 1.3, -logf[0] - 0.3)
        alpha = 1.0 if kind == 0 else float(rng.uniform(0.6, 1.0))
        Z = Z + R / (1.0 + (1j * w * t) ** alpha)
    if rng.random() < 0.4:
        Z = Z + 1j * w * (np.abs(Z).min() * 10.0 ** rng.uniform(-2, 0) / w.max())
    if rng.random() < 0.4:
        Z = Z + 1.0 / (1j * w * (10.0 ** rng.uniform(-1, 1) / (w.min() * np.abs(Z).max())))
    sigma = float(rng.choice([0.0, 1e-4, 1e-3, 1e-2]))
    if not noise:
        sigma = 0.0
    if sigma > 0:
        Z = Z * (1.0 + sigma * (rng.standard_normal(N) + 1j * rng.standard_normal(N)))
    return f, Z, {"ppd": ppd, "lo": lo, "arcs": m, "kind": kind, "sigma": sigma}


def gen_pair(rng, cell, tier):
    test, adm, add_c, add_l = cell
    kind = km.base_kind(test)
    # cnls stops on its own termination criteria: on noisy data two runs end 1e-3..1e-2 apart, on smooth data ~1e-5;
    # only smooth spectra are used for it so that the (coarse) tolerance keeps its margin
    f, Z, meta = gen_spectrum(rng, tier, noise=(test != "cnls"))
    N = len(f)
    x = 0.0 if rng.random() < 0.3 else float(rng.uniform(-0.5, 0.5))
    dec = float(np.log10(f[-1] / f[0]))
    tdec = dec + 2 * x
    extra = int(add_c) + int(add_l)
    nmax = int(np.floor(1.5 * tdec)) + 1
    nmax = min(nmax, int(np.floor(0.6 * (2 * N if kind == "complex" else N))) - 1 - extra, 2 * N - 5)
    if test == "cnls":
        nmax = min(nmax, 6)
    nmax = max(nmax, 2)
    n = int(rng.integers(2, nmax + 1))
    tr = str(rng.choice(TRANSFORMS))
    a = b = 1.0
    pow2 = bool(rng.random() < 0.5)

    def factor():
        e = float(rng.uniform(-6, 6))
        return float(2.0 ** round(e / np.log10(2.0))) if pow2 else float(10.0**e)

    if "Z*a" in tr:
        a = factor()
    if "f*b" in tr:
        b = factor()
    rev = "reverse" in tr
    asc = bool(rng.random() < 0.5)
    ff, ZZ = (f, Z) if asc else (f[::-1], Z[::-1])
    return {
        "test": test, "adm": bool(adm), "add_c": bool(add_c), "add_l": bool(add_l), "num_RC": n, "log_F_ext": x,
        "f": [float(v) for v in ff], "Z": [[float(z.real), float(z.imag)] for z in ZZ],
        "a": a, "b": b, "reverse": bool(rev), "transform": tr, "meta": dict(meta, pow2=pow2, asc=asc),
    }


# ------------------------------------------------------------------------------------------------
# execution + oracle
# ------------------------------------------------------------------------------------------------
def _run(f, Z, p, route="main", np_types=False):
    """route: which public entry point produces the result (c07.run_route): perform_kramers_kronig_test,
    perform_exploratory_kramers_kronig_tests or evaluate_log_F_ext - the verdict must not depend on it."""
    return c07.run_route(f, Z, p["test"], p["num_RC"], p["add_c"], p["add_l"], p["adm"], p["log_F_ext"], route, np_types)


def _stats(f, Z, p):
    """Conditioning statistics of one input (descending f)."""
    tau = km.taus(f, int(p["num_RC"]), float(p["log_F_ext"]))
    X = 1.0 / Z if p["adm"] else Z
    xh = km.harness_solution(f, tau, X, p["adm"], p["add_c"], p["add_l"])
    st = km.gate_stats(f, tau, xh, p["test"], p["adm"], p["add_c"], p["add_l"], X=X)
    st["artefact"] = km.placeholder_artefact(f, Z, p["test"], p["adm"], p["add_c"])
    return st, tau


def scale_back(v2, a, b, adm, add_c, add_l, n):
    """Variables of the transformed fit expressed in the units of the original data."""
    v = np.array(v2, dtype=float)
    if adm:  # (1/R, C_k, C, 1/L): 1/R' = (1/R)/a, C' = C/(a b), 1/L' = (1/L) b/a
        v[0] *= a
        v[1 : 1 + n] *= a * b
        i = 1 + n
        if add_c:
            v[i] *= a * b
            i += 1
        if add_l:
            v[i] *= a / b
    else:  # (R, R_k, 1/C, L): R' = a R, (1/C)' = (1/C) a b, L' = L a/b
        v[0] /= a
        v[1 : 1 + n] /= a
        i = 1 + n
        if add_c:
            v[i] /= a * b
            i += 1
        if add_l:
            v[i] *= b / a
    return v


def check_pair(p):
    test, adm, add_c, add_l = p["test"], bool(p["adm"]), bool(p["add_c"]), bool(p["add_l"])
    n, x, a, b = int(p["num_RC"]), float(p["log_F_ext"]), float(p["a"]), float(p["b"])
    cname = c07.cell_name(test, adm, add_c, add_l)
    rep = "Y" if adm else "Z"
    route = p.get("route") or "main"  # entry point used for the transformed input (the data side always uses the main one)
    rsfx = "" if route == "main" else "@" + route
    f1 = np.array(p["f"], dtype=float)
    Z1 = np.array([complex(u, v) for u, v in p["Z"]])
    f2, Z2 = f1 * b, Z1 * a
    if p["reverse"]:
        f2, Z2 = f2[::-1], Z2[::-1]
    o1 = np.argsort(-f1)
    o2 = np.argsort(-f2)
    st1, tau1 = _stats(f1[o1], Z1[o1], p)
    st2, tau2 = _stats(f2[o2], Z2[o2], p)
    free_ok = free_gate(test, st1) and free_gate(test, st2)
    raw_ok = raw_gate(test, st1) and raw_gate(test, st2)
    placeholder = max(st1["artefact"], st2["artefact"]) > ARTEFACT_MAX
    # judged: well-conditioned in natural units AND (also in the library's units, or the transform changes the frequency
    # unit by >= MIN_LOG_B decades - then the unit-dependence of the conditioning is itself the subject).  A pair that is
    # ill-conditioned in the library's units without such a rescaling (Z*a, reverse, moderate b) is plain
    # ill-conditioning: reported only.
    units = bool(free_ok and not raw_ok and abs(np.log10(b)) >= MIN_LOG_B and km.solver_class(test) in ("lstsq", "pinv"))
    inside = bool(free_ok and (raw_ok or units))
    viol = []
    replay = {"kind": "explicit", "pair": {k: v for k, v in p.items() if k != "meta"}}

    def bad(mech, msg, key=None):
        viol.append({"key": key or f"C09/{mech}:{test}/{rep}{rsfx}",
                     "msg": f"[{cname} N={len(f1)} num_RC={n} log_F_ext={x:.3g} transform={p['transform']} a={a:.6g} b={b:.6g} route={route}{' numpy-typed options' if p.get('np_types') else ''}] {msg}",
                     "witness": {"cell": cname, "gate_data": {k: float(v) for k, v in st1.items()}, "gate_transformed": {k: float(v) for k, v in st2.items()},
                                 "inside_gate": bool(inside), "replay_case": replay}})

    out = {"viol": viol, "inside": inside, "obs": None, "cell": cname, "placeholder": placeholder, "units": units, "raw_ok": raw_ok,
           "stats": (st1, st2), "finding_cell": None}
    res = []
    for side, (ff, ZZ) in (("data", (f1, Z1)), ("transformed", (f2, Z2))):
        try:
            res.append(_run(ff, ZZ, p, route if side == "transformed" else "main", bool(p.get("np_types")) and side == "transformed"))
        except c07.RouteResultMissing as e:
            bad("route-result-missing", f"{side} via {route}: {e}"[:300])
            return out
        except Exception as e:
            o = monitors.exception_origin(e)
            if side == "transformed" and route == "exploratory" and "algorithms" in o["file"].replace("\\", "/").split("/"):
                out["route_unavailable"] = f"{type(e).__name__}@{o['func']}"  # suggestion heuristics, not this property
                return out
            bad("raised", f"{side}: {type(e).__name__} at {o['file']}:{o['func']}: {e}"[:400] + "\n" + monitors.tb_tail(e, 4),
                key=f"C09/raised:{test}/{rep}:{type(e).__name__}@{o['func']}{rsfx}")
            return out
    r1, r2 = res
    obs = {}
    try:
        e1, e2 = np.asarray(r1.residuals), np.asarray(r2.residuals)
        fr1, fr2 = np.asarray(r1.frequencies, dtype=float), np.asarray(r2.frequencies, dtype=float)
        obs["grid_ok"] = bool(len(e1) == len(e2) == len(f1) and np.array_equal(fr1, f1[o1]) and np.array_equal(fr2, f2[o2]))
        if obs["grid_ok"]:
            d = e1 - e2
            obs["dres"] = float(max(np.abs(d.real).max(), np.abs(d.imag).max()))
            obs["res"] = float(max(np.abs(e1.real).max(), np.abs(e1.imag).max()))
        c1, c2 = float(r1.pseudo_chisqr), float(r2.pseudo_chisqr)
        obs["chi1"], obs["chi2"] = c1, c2
        obs["dchi"] = abs(c1 - c2)
        obs["dchi_rel"] = abs(c1 - c2) / max(c1, c2, 1e-300)
        p1, t1 = km.circuit_variables(r1.circuit, adm, add_c, add_l)
        p2, t2 = km.circuit_variables(r2.circuit, adm, add_c, add_l)
        tc1, tc2 = np.sort(np.asarray(r1.time_constants, dtype=float)), np.sort(np.asarray(r2.time_constants, dtype=float))
        if len(t1) == len(t2) == len(tc1) == len(tc2) == n:
            obs["dtau"] = float(max(np.abs(tc2 * b / tc1 - 1).max(), np.abs(t2 * b / t1 - 1).max()))
        else:
            obs["dtau"] = float("inf")
        v1 = km.params_to_variables(p1, adm, add_c, add_l) if len(p1["k"]) == n else None
        v2 = km.params_to_variables(p2, adm, add_c, add_l) if len(p2["k"]) == n else None
        if v1 is not None and v2 is not None and len(v1) == len(v2):
            v2b = scale_back(v2, a, b, adm, add_c, add_l, n)
            Bmax = np.abs(km.basis(f1[o1], tau1, adm, add_c, add_l)).max(axis=0)
            with np.errstate(invalid="ignore"):
                err = Bmax * np.abs(v1 - v2b)
            top = float((Bmax * np.maximum(np.abs(v1), np.abs(v2b))).max())
            ok = bool(np.all(np.isfinite(err))) and np.isfinite(top) and top > 0
            obs["dpar"] = float(err.max() / top) if ok else float("inf")
            obs["dpar_i"] = int(np.argmax(err)) if ok else -1
            obs["v1"], obs["v2"] = (float(v1[obs["dpar_i"]]), float(v2b[obs["dpar_i"]])) if ok else (float("nan"), float("nan"))
        else:
            obs["dpar"] = float("inf")
            obs["dpar_i"] = -1
    except Exception as e:
        o = monitors.exception_origin(e)
        if o["in_tree"]:
            bad("result-accessor-raised", f"{type(e).__name__} at {o['file']}:{o['func']}: {e}"[:400],
                key=f"C09/result-accessor-raised:{type(e).__name__}@{o['func']}")
            return out
        raise
    out["obs"] = obs
    if not obs["grid_ok"]:
        bad("frequencies", "results are not on the (sorted) input frequencies")
        return out
    if not (obs["dtau"] <= TAU_TOL):
        bad("tau", f"time constants do not scale with 1/b: max rel. deviation {obs['dtau']:.3g}")
    if inside:
        fk = None
        if units:
            fk = f"C09/frequency-unit-dependence:{km.solver_class(test)}"
        elif placeholder:
            fk = f"C09/{test}-placeholder-constants:{rep}"
        out["finding_cell"] = fk
        rt = CNLS_RES_TOL if test == "cnls" else RES_TOL
        if not (obs["dres"] <= rt):
            bad("residuals", f"relative residuals change by {obs['dres']:.3g} (> {rt:g}; residual level {obs['res']:.3g})", fk)
        if test != "cnls" and not (obs["dchi"] <= CHI_RTOL * max(obs["chi1"], obs["chi2"]) + CHI_ATOL):
            bad("chisqr", f"pseudo chi-squared {obs['chi1']:.8g} vs {obs['chi2']:.8g} (rel. {obs['dchi_rel']:.3g})", fk)
        if test != "cnls" and not (obs["dpar"] <= PAR_TOL):
            names = ["R"] + [f"{'C' if adm else 'R'}_{i+1}" for i in range(n)] + (["C"] if add_c else []) + (["L"] if add_l else [])
            i = obs["dpar_i"]
            bad("parameters", f"fitted parameters do not rescale: weighted difference {obs['dpar']:.3g} > {PAR_TOL:g}; worst {names[i] if 0 <= i < len(names) else '?'}: "
                f"linear variable {obs['v1']:.8g} vs {obs['v2']:.8g} (scaled back)", fk)
    return out


# ------------------------------------------------------------------------------------------------
# runner API
# ------------------------------------------------------------------------------------------------
def gen_cases(tier, seed):
    if tier == "quick":
        nb, per_cell, nb_cnls = 96, 6, 0
    else:
        nb, per_cell, nb_cnls = 1600, 8, 96
    cases = [{"kind": "cnls", "seed": [int(seed), 9, i], "count": 4, "tier": tier} for i in range(nb_cnls)]
    cases += [{"kind": "linear", "seed": [int(seed), 2, i], "per_cell": per_cell, "tier": tier} for i in range(nb)]
    return cases


def run_case(case):
    if case["kind"] == "explicit":
        out = check_pair(case["pair"])
        o = out["obs"] or {}
        return {"evals": 1, "keys": [json.dumps(case["pair"], sort_keys=True)], "viol": out["viol"],
                "stats": {"explicit": 1, "inside_gate": int(out["inside"])},
                "maxobs": {k: float(v) for k, v in o.items() if k in ("dres", "dchi_rel", "dpar", "dtau") and np.isfinite(v)},
                "sample": {"cell": out["cell"], "obs": o}}
    rng = np.random.default_rng(case["seed"])
    tier = case.get("tier", "quick")
    if case["kind"] == "linear":
        ci = int(case["seed"][-1])
        todo = [(c, "exploratory" if (j == 0 and ci % 8 == 0) else ("evaluate" if (j == 1 and ci % 4 == 1) else None))
                for c in LIN_CELLS for j in range(case["per_cell"])]
    else:
        todo = [(CNLS_CELLS[i % 2], None) for i in range(case["count"])]
    viol, keys, stats, maxobs = [], [], {}, {}
    evals = 0
    sample = None

    def cnt(name, k=1):
        stats[name] = stats.get(name, 0) + k

    def mx(name, v):
        if v is not None and np.isfinite(v):
            maxobs[name] = max(maxobs.get(name, 0.0), float(v))

    refused0 = dict(c07.NP_REFUSED)
    for idx, (cell, alt) in enumerate(todo):
        p = gen_pair(rng, tuple(cell), tier)
        p["np_types"] = bool(idx % 2)  # transformed input of every second pair: options as NumPy scalars
        cnt("options:numpy_types" if p["np_types"] else "options:python_types")
        if alt:
            p["route"] = alt
            cnt(f"route:{alt}")
        out = check_pair(p)
        if out.get("route_unavailable"):
            cnt(f"route:{alt}:unavailable:{out['route_unavailable']}")
            continue
        if alt and out["inside"] and out["obs"] is not None:
            cnt(f"route:{alt}:inside_gate")
            if p["log_F_ext"] != 0.0:
                cnt(f"route:{alt}:inside_gate:nonzero_log_F_ext")
        cname = out["cell"]
        tname = f"{p['test']}/{'Y' if p['adm'] else 'Z'}"
        cnt(f"run:{cname}")
        cnt(f"transform:{p['transform']}")
        viol.extend(out["viol"])
        o = out["obs"]
        if o is None:
            cnt("raised")
            continue
        mx(f"dtau:{tname}", o.get("dtau"))
        if out["inside"]:
            evals += 1
            cnt("inside_gate")
            cnt(f"inside:{cname}")
            cnt(f"inside:transform:{p['transform']}")
            keys.append((cname, p["num_RC"], p["log_F_ext"], p["a"], p["b"], p["reverse"], tuple(map(tuple, p["Z"][:3]))))
            special = out.get("finding_cell")
            if special:
                which = special.split("/", 1)[1]
                cnt(f"n:[{which}]")
                cnt(f"fail:[{which}]", int(any(v["key"] == special for v in out["viol"])))
                mx(f"dres:[{which}]", o.get("dres"))
            else:
                cnt("regular_pairs")
                mx(f"dres:{cname}", o.get("dres"))
                mx(f"dchi_rel:{tname}", o["dchi_rel"] if o["dchi"] > CHI_ATOL else 0.0)
                mx(f"dpar:{cname}", o.get("dpar"))
                if sample is None:
                    sample = {"cell": cname, "N": len(p["f"]), "f_min": min(p["f"]), "f_max": max(p["f"]), "num_RC": p["num_RC"], "log_F_ext": p["log_F_ext"],
                              "transform": p["transform"], "a": p["a"], "b": p["b"], "meta": p["meta"],
                              "observed": {k: o[k] for k in ("res", "dres", "chi1", "chi2", "dpar", "dtau") if k in o}}
        else:
            cnt("outside_gate")
            mx(f"outside:dres:{tname}", o.get("dres"))
            if abs(np.log10(p["b"])) < MIN_LOG_B:
                mx(f"outside:dres(|log10 b|<5):{tname}", o.get("dres"))
    for k, v in c07.NP_REFUSED.items():
        if v - refused0.get(k, 0):
            cnt(f"options:numpy_types_refused:{k}", v - refused0.get(k, 0))
    return {"evals": evals, "keys": keys, "viol": viol[:40], "stats": stats, "maxobs": maxobs, "sample": sample}


def finalize(agg):
    inc = []
    st = agg["stats"]
    need = 20 if agg["tier"] == "quick" else 300
    for cell in LIN_CELLS:
        cn = c07.cell_name(*cell)
        if st.get(f"inside:{cn}", 0) < need:
            inc.append(f"cell {cn}: only {st.get(f'inside:{cn}', 0)} pairs inside the conditioning gate (need {need})")
    for alt in c07.ROUTES[1:]:
        if st.get(f"route:{alt}:inside_gate:nonzero_log_F_ext", 0) < 50:
            inc.append(f"route {alt}: only {st.get(f'route:{alt}:inside_gate:nonzero_log_F_ext', 0)} judged pairs with log_F_ext != 0 (need 50)")
    for t in TRANSFORMS:
        if st.get(f"inside:transform:{t}", 0) < need:
            inc.append(f"transform {t}: only {st.get(f'inside:transform:{t}', 0)} pairs inside the gate")
    info = {"inside_gate": st.get("inside_gate", 0), "outside_gate": st.get("outside_gate", 0),
            "tolerances": {"RES_TOL": RES_TOL, "CHI_RTOL": CHI_RTOL, "CHI_ATOL": CHI_ATOL, "PAR_TOL": PAR_TOL, "TAU_TOL": TAU_TOL},
            "gate": FREE_GATE, "raw_gate": RAW_GATE}
    return {"viol": [], "inconclusive": inc, "info": info}
