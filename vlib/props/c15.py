"""C15 - the element registry and the class default values can always be restored.

Shape: history + executable reference model, each batch of histories in a FRESH INTERPRETER.

run_case() generates concrete JSON histories over {register_element(valid | contradicting equation | built-in symbol |
taken user symbol | invalid symbol; private flag; validate_impedances), remove_elements, reset(flags),
Class.set_default_values, reset_default_parameter_values, parse_cdc, tampering with returned dictionaries} and hands them to
`python -B vlib/registry_model.py` (a new process).  That worker takes a snapshot of every observable right after import
(= "as freshly imported": 4 get_elements views, every built-in's defaults/limits/fixed flags/static texts/instance,
parse results of a probe list), then executes each history on the real library and on the reference model
(vlib.registry_model.Model) and after EVERY operation compares
  1. the four get_elements(default_only, private) views with the model; built-ins present and identical objects;
  2. the default values of every built-in (and accepted user) class with the model; built-in limits/symbols unchanged;
  3. the parser: every registered symbol parses to exactly its class at the class defaults, the concatenation of all
     registered symbols (ascending and descending, e.g. LLaLabLs) splits by longest match, every unregistered
     neighbour symbol (prefixes/extensions of registered ones, formerly registered ones) is refused;
  4. whenever the model is back in its initial state: the full snapshot equals the import-time snapshot.
Between two histories of a batch a barrier runs reset(), demands snapshot equality, registers fresh PUBLIC elements
under the symbols the history used (must be visible: this is where a leaked private flag shows), resets again.

Latitude (statement silent -> both behaviours accepted):
 - which exception type refuses a bad definition / remove_elements([]) / a non-class argument (or whether the latter raise);
 - default values of USER classes under reset()/reset_default_parameter_values (the model follows the observation);
 - in a refused multi-key set_default_values call the valid keys may be applied or not;
 - a class object that was accepted before and comes back with a contradicting equation (after remove_elements / reset /
   nothing, same or another free symbol) MUST be refused with all views unchanged; what the refusal does to that user
   class's own attributes is not judged. Redefining a still-registered class consistently (same symbol/flag): either outcome;
 - not generated: a still-registered class ACCEPTED under a second symbol or with another private flag, definitions whose
   Class is a built-in class, validate_impedances=False with a contradicting
   equation (the user opted out of the comparison).
Out of scope (observed, not judged): register_element(ElementDefinition(Class=<a built-in class>, symbol="Rzz", ...)) is accepted and
renames the built-in for the rest of the process (reset() does not undo it); the property quantifies over user-defined elements.
Minor-component family (templates Rl, Cr, Rk): one component is <= 8e-6 of |Z| at all five comparison frequencies and the
contradicting equation flips, omits or doubles exactly that component - refusal is demanded because the contradiction is
>= 1e3 x that component's own allclose tolerance (margins in worst_observed).
Contradicting equations are generated only when they differ from the numeric impedance by >= 1e3 x numpy.allclose's
tolerance at the library's five comparison frequencies (worst margin reported in worst_observed).
"""
import json
import os
import subprocess
import sys

import numpy as np

from .. import env
from .. import registry_model as rm

ID = "C15"
RULE = (
    "histories of 8-20 (thorough: 8-40, single-history interpreters twice that) operations over {register_element x {valid, padded symbol, "
    "identical re-registration, built-in symbol, taken user symbol, invalid symbol (18 forms), equation contradicting _impedance in re/im/both for a new "
    "class AND for a class object accepted earlier (after remove/reset/nothing, same/other symbol), consistent redefinition of a registered class} x "
    "private in {omitted, True, False} x 10 element templates (incl. a Resistor subclass, a container and 3 minor-component templates whose "
    "contradiction is < 1e-5 of |Z| but >= 1e3 x the component's own tolerance), remove_elements, reset x 4 flag cells, "
    "set_default_values (kw/positional/mixed, invalid forms) on built-ins incl. the private K/Ky and on user classes, reset_default_parameter_values "
    "(None/class/list), parse_cdc of composed codes, tampering with returned dicts} generated from rng([seed, case]); 25 histories per fresh "
    "interpreter with a reset()+snapshot barrier, plus single-history interpreters; every step is compared with the registry reference model. "
    "A history is non-trivial when at least one user element was accepted; distinct = distinct operation signatures (kind, variant, symbol, flags)."
)
ASSUMPTIONS = [
    "a snapshot taken right after `import pyimpspec` in the same fresh interpreter is the ground truth for 'as freshly imported'",
    "reference model vlib.registry_model.Model (two dicts + private set + defaults, ~55 lines, self-checked at import)",
    "tokenizer rule for element identifiers: letter followed by lower-case letters/digits/underscore (independent regex in the model)",
    "numpy/sympy evaluate the template equations correctly (used only to show the generator's margin, not for verdicts)",
]
SHARDS = 16
CASE_TIMEOUT = 600
MIN_EVALS = 500
WORKER = os.path.join(env.VERIF_DIR, "vlib", "registry_model.py")
WORKER_TIMEOUT = 240

_BINFO = None


def _binfo():
    global _BINFO
    if _BINFO is None:
        _BINFO = rm.builtin_info()  # this process never mutates the registry: read-only facts for the generator
    return _BINFO


def gen_cases(tier, seed):
    nb, ns = (56, 16) if tier == "quick" else (700, 100)
    cases = [{"kind": "batch", "seed": [int(seed), i], "count": 25, "tier": tier, "long": False} for i in range(nb)]
    cases += [{"kind": "batch", "seed": [int(seed), 100000 + i], "count": 1, "tier": tier, "long": True} for i in range(ns)]
    # interleave so that every shard gets singles and batches
    cases.sort(key=lambda c: (c["seed"][1] % 1000, c["seed"][1]))
    return cases


def _run_worker(histories):
    child_env = dict(os.environ)
    child_env["PYTHONHASHSEED"] = "0"
    p = subprocess.Popen([sys.executable, "-B", WORKER], stdin=subprocess.PIPE, stdout=subprocess.PIPE, stderr=subprocess.PIPE,
                         env=child_env, cwd=env.VERIF_DIR, text=True)
    try:
        out, err = p.communicate(json.dumps({"histories": histories}), timeout=WORKER_TIMEOUT)
    finally:
        if p.poll() is None:
            p.kill()
            p.wait()
    line = next((ln for ln in reversed(out.splitlines()) if ln.startswith(rm.MARK)), None)
    if p.returncode != 0 or line is None:
        raise RuntimeError("C15 worker failed (exit %s): %s" % (p.returncode, (err or out)[-1500:]))
    return json.loads(line[len(rm.MARK):])


def run_case(case):
    if case["kind"] == "explicit":
        histories = case["histories"]
    else:
        rng = np.random.default_rng(case["seed"])
        histories = [rm.gen_history(rng, _binfo(), case.get("tier", "quick"), case.get("long", False)) for _ in range(case["count"])]
    res = _run_worker(histories)
    viol, keys, evals = [], [], 0
    stats = dict(res["stats"])
    stats["interpreters"] = 1
    stats["interpreters:single-history" if len(histories) == 1 else "interpreters:batch"] = 1
    for h, r in zip(histories, res["results"]):
        if not r.get("executed"):
            stats["histories_not_executed_after_dirty_barrier"] = stats.get("histories_not_executed_after_dirty_barrier", 0) + 1
            continue
        stats["histories"] = stats.get("histories", 0) + 1
        evals += r["steps"]
        if r["nontrivial"] and not r["viol"]:
            keys.append(rm.signature(h))
        viol.extend(r["viol"])
    # a violation found deep inside a batch: make the witness self-contained (single truncated history in a fresh
    # interpreter if that reproduces the same mechanism, else the batch prefix)
    if case["kind"] != "explicit" and len(histories) > 1:
        for n, v in enumerate(viol):
            w = v["witness"]
            single = w["replay_case"]
            same = False
            if n == 0:
                try:
                    again = _run_worker(single["histories"])
                    same = any(x["key"] == v["key"] for r in again["results"] if r.get("executed") for x in r["viol"])
                except Exception:
                    same = False
            if not same:  # not (shown to be) reproducible on its own: keep the histories that ran before it in this interpreter
                w["replay_case"] = {"kind": "explicit", "histories": histories[: w["history_index"]] + single["histories"]}
                w["needs_batch_prefix"] = True
    maxobs = dict(res["maxobs"])
    maxobs["interpreter_import_s"] = float(res["import_s"])
    maxobs["history_length"] = float(max(len(h["ops"]) for h in histories))
    sample = None
    if histories:
        h = histories[0]
        sample = {"history": [rm._op_text(o) for o in h["ops"]], "histories_in_this_interpreter": len(histories)}
    return {"evals": evals, "keys": keys, "viol": viol[:20], "stats": stats, "maxobs": maxobs, "sample": sample}


def finalize(agg):
    st = agg["stats"]
    inc = []
    need = ["observe", "view:d0p0", "view:d1p1", "probe:registered", "probe:unregistered", "probe:concatenation", "snapshot-compare", "barrier",
            "postreset-registration", "op:register:valid", "op:register:inconsistent", "op:register:dup-builtin", "op:register:dup-user",
            "op:register:invalid-symbol", "op:register:reuse-inconsistent", "pattern:reuse-inconsistent", "op:remove", "op:reset", "op:set_defaults", "op:reset_defaults", "op:parse", "interpreters:single-history"]
    for k in need:
        if st.get(k, 0) == 0:
            inc.append("deciding comparison never ran: " + k)
    for t in ("Rl", "Cr", "Rk"):
        for eq in ("neg", "zero", "dbl"):
            if not any(k.startswith("pattern:minor-component:%s:%s:" % (t, eq)) and v > 0 for k, v in st.items()):
                inc.append("pattern never occurred: minor-component contradiction (template %s, %s)" % (t, eq))
    rel = agg["maxobs"].get("minor_component_over_modulus")
    if rel is not None and rel > 8e-6:
        inc.append("generator precondition not met: a 'minor' component exceeds 8e-6 of |Z|")
    for after in ("nothing", "remove", "reset", "unregistered-earlier"):
        for sk in ("same", "other"):
            if not any(k.startswith("pattern:reuse-inconsistent:after=%s:symbol=%s:" % (after, sk)) and v > 0 for k, v in st.items()):
                inc.append("pattern never occurred: accepted class re-registered with a contradicting equation (after=%s, symbol=%s)" % (after, sk))
    if st.get("histories_not_executed_after_dirty_barrier", 0) and not inc:
        pass  # only happens together with a violation, which decides the run
    margin = agg["maxobs"].get("inconsistent_def_inverse_margin_in_allclose_units")
    if margin is not None and margin > 1e-2:
        inc.append("generator precondition not met: a 'contradicting' equation is within 100x of numpy.allclose's tolerance")
    good = agg["maxobs"].get("valid_def_mismatch_in_allclose_units")
    if good is not None and good > 1e-2:
        inc.append("generator precondition not met: a 'valid' template disagrees with its own equation")
    return {"viol": [], "inconclusive": inc, "info": {"builtins": 23}}
