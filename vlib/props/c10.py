"""C10 - automatic Kramers-Kronig testing tracks the noise and flags drift.

Shape: differential oracle over observed results, statistical.  The REAL `perform_kramers_kronig_test(data,
num_procs=1)` (every other setting at its default: extension optimisation, number-of-RC suggestion, representation
choice) is run on spectra produced by the REAL `generate_mock_data(identifier, noise=pct, seed=s)`; the harness knows
the noise-free spectrum (`noise=0`) and the injected level.  Two boundary recorders (re-bound module globals of
`analysis/kramers_kronig/single.py`: `suggest_num_RC`, `suggest_representation`) observe, inside that very call,
the `(suggestion, scores, lower, upper)` tuples - i.e. the limits the automatic test "reports" - without altering them.

Clauses (bands frozen in vlib/c10_band.json after calibration on the unchanged tree; nothing is derived at run time):

 per run (hard)
  R1  the calls complete (an exception of the library on a valid bundled / ladder spectrum is a violation)
  R2  lower <= num_RC <= upper for every (suggestion, limits) tuple that suggest_num_RC returned during the run and
      for the returned result; same for the public perform_exploratory_kramers_kronig_tests + suggest_num_RC route
      (run on a sampled subset)
 per cell = (circuit | ladder family, noise level), >= 8 seeds (fewer => that cell is INCONCLUSIVE, never "held")
  A0  at most ONE run of the cell has estimated / injected noise outside the wide per-run limits [0.25, 6]
      (first contact: the heuristics of the unchanged tree miss on roughly 1 run in 3000 - e.g. 9.2 x for an ideal
      single-arc RC spectrum whose chi2(num_RC) curve is a staircase - so a zero-tolerance per-run clause is a
      false-alarm generator; every such run is counted in the evidence)
  A1  median over seeds of estimated / injected noise inside [0.5, 3.0]
  A2  (cells at the lowest noise level that have a bundled *_INVALID counterpart, same seeds)
      median over seeds of chi2(invalid) / chi2(valid) >= 5
 unit twins ("<cell>x<a>"): the spectrum of a bundled circuit multiplied by a = 1e7 (CIRCUIT_8|9, which only the admittance
      representation fits) or 1e-6 - the same valid spectrum in other units, same relative noise; clauses A0/A1 as for any cell
 history cells ("<cell>/after-session"): the >= 8 runs of a cell executed back to back in ONE process after a preamble of other
      spectra - the other bundled spectra with the SAME number of points (different window) in random order plus two arbitrary
      ones; ladder sessions use spectra that all have the same number of points but different windows.  The same A0-A2 clauses
      decide; an analysis must not depend on what the process analysed before.  (Round-robin sharding gives every other run a
      mixed history too, but a history-dependent deviation is then diluted below the cell clauses - seeded change c10-r3.)
 pooled over >= 400 points with independent seeds (noise model of the mock data, the premise of the statement)
  A3  the realised noise  (Z_noisy - Z_ideal) / (pct/100 * |Z_ideal|)  has rms 1 and mean 0 in the real and in the
      imaginary part, also on the subsets of points where |Re Z| < |Z|/2 and where |Im Z| < |Z|/2

Mechanism keys: an A0 violation all of whose out-of-limit runs reported the limits (2, number of points) - the structural
signature of the "possibly a single resistor or capacitor" shortcut of suggest_num_RC_limits - carries the suffix
':single-R-or-C-shortcut-limits' (open finding for ladder spectra with very small dispersion, see known_findings.json);
every other A0 violation keeps the plain family key and is a VIOLATION.

Latitude: which representation, extension or num_RC is picked is free as long as the clauses hold; nothing is demanded
of a single unlucky seed beyond R1-R2; the drift clause is not evaluated above the lowest noise level (the drift is
legitimately buried at 1 %); the fit error against the noise-free spectrum is reported, not judged.
"""
import json
import math
import os

import numpy as np

from .. import monitors

ID = "C10"
RULE = (
    "runs = (spectrum source, noise %, seed): the 19 bundled valid mock circuits x noise {0.02, 0.05, 0.2, 1} % x >= 8 RNG seeds "
    "per cell drawn from rng([seed, ...]) (quick: 3 drift cells at 0.02 % + 6 cells at the other levels, rotated by VERIF_SEED, "
    "one of them always CIRCUIT_8|9; thorough: all 76 cells x 10 seeds + log-uniform noise 0.02..1 % x 8 seeds per circuit); the "
    "bundled *_INVALID drift counterparts at 0.02 % with the same seeds (thorough: all 16); random RC / RQ / mixed ladder "
    "circuits (R0 + 1..4 (RC)|(RQ) stages, time constants >= 0.6 decade apart inside the window, 4..7 decades at 10 points/"
    "decade; thorough also 'wide': up to 5 stages, 8|10|12 points/decade, time constants up to 0.1 decade from the window edge) "
    "passed to generate_mock_data as circuit description codes, every run a different circuit; the noise model is probed on all "
    "35 bundled definitions x 4 levels x 8 (24) seeds; unit twins: 2 cells (thorough: 38) of a bundled spectrum x 1e7 | 1e-6; history cells: 2 bundled + 1 ladder session (thorough: 13 + 4) whose runs "
    "follow a preamble of same-length spectra with other windows in the same process. Every run executes the default "
    "perform_kramers_kronig_test(num_procs=1) with recorders on single.suggest_num_RC / suggest_representation. A run is "
    "non-trivial when the test returned a result and the limits were observed; distinct = distinct (identifier, noise, seed)."
)
ASSUMPTIONS = [
    "numpy statistics (median, rms) over the observed results",
    "generate_mock_data(identifier, noise=0) is the noise-free spectrum of generate_mock_data(identifier, noise=p, seed=s)",
    "bands in vlib/c10_band.json were calibrated once on the unchanged tree (tools/c10_calibrate.py) and are frozen",
    "re-binding the module globals single.suggest_num_RC / single.suggest_representation is transparent (counted; zero calls => "
    "limits are taken from the public exploratory route instead)",
]
SHARDS = 16
CASE_TIMEOUT = 900
MIN_EVALS = 60

_HERE = os.path.dirname(os.path.abspath(__file__))
with open(os.path.join(_HERE, "..", "c10_band.json")) as _fp:
    BAND = json.load(_fp)
MEDIAN_BAND = tuple(BAND["median_band"])
RUN_BAND = tuple(BAND["per_run_band"])
DRIFT_MIN = float(BAND["drift_min_median_chisqr_ratio"])
MIN_SEEDS = int(BAND["min_seeds_per_cell"])
MAX_OUT = int(BAND["max_runs_outside_per_run_band_per_cell"])
NM_RMS = tuple(BAND["noise_model"]["rms_band"])
NM_MEAN = float(BAND["noise_model"]["abs_mean_max"])
NM_MIN_N = int(BAND["noise_model"]["min_pooled_points"])

NOISE_LEVELS = [0.02, 0.05, 0.2, 1.0]
LOWEST = 0.02
N_VALID = 19
N_DRIFT = 16
VALID = [f"CIRCUIT_{i}" for i in range(1, N_VALID + 1)]
DRIFT = [f"CIRCUIT_{i}" for i in range(1, N_DRIFT + 1)]
# number of points of the bundled spectra (only used to order cases by expected cost)
_COST = {1: 41, 2: 31, 3: 36, 4: 56, 5: 41, 6: 51, 7: 71, 8: 46, 9: 36, 10: 61, 11: 61, 12: 41, 13: 41, 14: 41, 15: 91, 16: 91,
         17: 71, 18: 81, 19: 71}


# ------------------------------------------------------------------------------------------------
# recorders on the real pipeline (module globals of single.py; looked up at call time)
# ------------------------------------------------------------------------------------------------
_REC = []


def install_recorders():
    import pyimpspec.analysis.kramers_kronig.single as single

    if getattr(single.suggest_num_RC, "_c10_recorder", False):
        return
    orig_num = single.suggest_num_RC
    orig_rep = single.suggest_representation

    def suggest_num_RC(tests, *args, **kwargs):
        out = orig_num(tests, *args, **kwargs)
        monitors.count("recorder.single.suggest_num_RC")
        try:
            _REC.append(("num_RC", out, len(tests)))
        except Exception:
            pass
        return out

    def suggest_representation(suggestions, *args, **kwargs):
        out = orig_rep(suggestions, *args, **kwargs)
        monitors.count("recorder.single.suggest_representation")
        try:
            _REC.append(("representation", out, len(suggestions)))
        except Exception:
            pass
        return out

    suggest_num_RC._c10_recorder = True
    suggest_num_RC.__wrapped__ = orig_num
    suggest_representation.__wrapped__ = orig_rep
    single.suggest_num_RC = suggest_num_RC
    single.suggest_representation = suggest_representation


def setup_shard():
    install_recorders()


def shard_report():
    return dict(monitors.COUNTERS)


# ------------------------------------------------------------------------------------------------
# ladder circuits (generator knows the circuit; the library adds the noise)
# ------------------------------------------------------------------------------------------------
def gen_ladder(rng, family, wide=False, span=None):
    """R0 + n x (R C) | (R Q) with time constants inside the measured window. Returns the kwargs of a run."""
    log_max_f = float(rng.integers(3, 7))
    span = float(rng.integers(4, 8)) if span is None else float(span)
    log_min_f = log_max_f - span
    ppd = 10 if not wide else int(rng.choice([8, 10, 12]))
    margin = 0.5 if not wide else 0.1
    # log10(tau) window: tau = 1/(2 pi f)
    lo = -math.log10(2 * math.pi) - log_max_f + margin
    hi = -math.log10(2 * math.pi) - log_min_f - margin
    sep = 0.6
    nmax = max(1, min(4 if not wide else 5, int((hi - lo) / sep)))
    n = int(rng.integers(1, nmax + 1))
    # n points in [lo, hi] at least `sep` apart: sample the slack
    slack = (hi - lo) - sep * (n - 1)
    cuts = np.sort(rng.uniform(0, slack, size=n))
    logtau = [lo + cuts[i] + sep * i for i in range(n)]
    R0 = 10 ** rng.uniform(0, 2)
    scale = 10 ** rng.uniform(-1, 3)
    parts = ["R{R=%.6e}" % R0]
    for lt in logtau:
        R = scale * 10 ** rng.uniform(-0.7, 0.7)
        tau = 10**lt
        kind = family if family in ("RC", "RQ") else str(rng.choice(["RC", "RQ"]))
        if kind == "RC":
            parts.append("(R{R=%.6e}C{C=%.6e})" % (R, tau / R))
        else:
            nq = float(rng.uniform(0.7, 1.0))
            parts.append("(R{R=%.6e}Q{Y=%.6e,n=%.4f})" % (R, tau**nq / R, nq))
    return {"ident": "".join(parts), "kwargs": {"log_max_f": log_max_f, "log_min_f": log_min_f, "num_per_decade": ppd},
            "cost": int(span * ppd + 1)}


# ------------------------------------------------------------------------------------------------
# case generation
# ------------------------------------------------------------------------------------------------
def _seeds(seed, tag, n):
    rng = np.random.default_rng([int(seed), 10] + [int(t) for t in tag])
    return [int(x) for x in rng.integers(0, 2**31 - 1, size=n)]


def _mock_run(cid, noise, s, invalid=False, cell=None, explore=False):
    k = int(cid.split("_")[1])
    return {"kind": "run", "family": "mock", "ident": cid + ("_INVALID" if invalid else ""), "base": cid, "invalid": bool(invalid),
            "noise": float(noise), "seed": int(s), "kwargs": {}, "cell": cell or f"{cid}@{noise:g}", "explore": bool(explore),
            "cost": _COST.get(k, 60)}


# bundled spectra grouped by number of points: members of a group differ only in the frequency window, which is the hostile
# history for anything the library keeps between calls keyed by shape
N_GROUPS = [[1, 5, 12, 13, 14], [3, 9], [7, 17, 19], [10, 11], [15, 16]]
SESSION = "/after-session"


def gen_sessions(tier, seed):
    """History cells: the runs of one cell executed back to back in ONE process after a preamble of other spectra (the other
    bundled spectra with the same number of points in random order, then two arbitrary ones); judged by the same A0-A2 clauses."""
    out = []
    rng = np.random.default_rng([int(seed), 10, 9])
    members = [m for g in N_GROUPS for m in g]
    if tier == "quick":
        targets = [int(x) for x in rng.permutation(members)[:2]]
        levels = [LOWEST, NOISE_LEVELS[1 + int(seed) % 3]]
        n_lad = 1
    else:
        targets = [int(x) for x in rng.permutation(members)]
        levels = [LOWEST if i % 2 == 0 else NOISE_LEVELS[1 + (i // 2 + int(seed)) % 3] for i in range(len(targets))]
        n_lad = 4
    for j, (t, noise) in enumerate(zip(targets, levels)):
        grp = next(g for g in N_GROUPS if t in g)
        pre = [int(x) for x in rng.permutation([m for m in grp if m != t])]
        pre += [int(x) for x in rng.permutation([m for m in range(1, N_VALID + 1) if m not in grp])[:2]]
        cid = f"CIRCUIT_{t}"
        pre_s = _seeds(seed, (9, j, 0), len(pre))
        runs = []
        for s_ in _seeds(seed, (9, j, 1), MIN_SEEDS):
            runs.append(_mock_run(cid, noise, s_, cell=f"{cid}@{noise:g}{SESSION}"))
            if noise == LOWEST and t <= N_DRIFT:
                runs.append(_mock_run(cid, noise, s_, invalid=True, cell=f"{cid}_INVALID@{noise:g}{SESSION}"))
        out.append({"kind": "session", "name": f"{cid}@{noise:g}", "cost": 10000 - j,
                    "preamble": [_mock_run(f"CIRCUIT_{m}", noise, s_, cell="session-preamble") for m, s_ in zip(pre, pre_s)],
                    "runs": runs})
    # ladder sessions: every spectrum has the same number of points but a different window
    for j in range(n_lad):
        fam = ["RC", "RQ", "mixed"][(int(seed) + j) % 3]
        noise = NOISE_LEVELS[(int(seed) + j) % 4]
        span = int(rng.integers(4, 7))
        lrng = np.random.default_rng([int(seed), 10, 9, 5, j])

        def lad(cell, s_):
            d = gen_ladder(lrng, fam, span=span)
            return {"kind": "run", "family": "ladder", "base": f"ladder-{fam}", "invalid": False, "noise": noise, "seed": s_,
                    "cell": cell, "explore": False, **d}
        pre = [lad("session-preamble", s_) for s_ in _seeds(seed, (9, 5, j, 0), 5)]
        runs = [lad(f"ladder-{fam}/same-N@{noise:g}{SESSION}", s_) for s_ in _seeds(seed, (9, 5, j, 1), MIN_SEEDS)]
        out.append({"kind": "session", "name": f"ladder-{fam}/same-N@{noise:g}", "cost": 9000 - j, "preamble": pre, "runs": runs})
    return out


def gen_cases(tier, seed):
    seed = int(seed)
    cases = []
    if tier == "quick":
        ns = MIN_SEEDS
        # drift cells: 3 circuits with an *_INVALID counterpart at the lowest noise level, valid + invalid, same seeds
        for j in range(3):
            k = (3 * seed + j) % N_DRIFT
            cid = DRIFT[k]
            for i, s in enumerate(_seeds(seed, (1, k), ns)):
                cases.append(_mock_run(cid, LOWEST, s, explore=(i == 0)))
                cases.append(_mock_run(cid, LOWEST, s, invalid=True, cell=f"{cid}_INVALID@{LOWEST:g}"))
        # other noise levels: 6 (circuit, noise) cells; the first is always one of the two circuits with a negative
        # differential resistance (CIRCUIT_8 / CIRCUIT_9), where the choice of representation decides the quality of the fit
        for j in range(6):
            k = (5 * seed + 3 * j + 7) % N_VALID if j else 7 + seed % 2
            noise = NOISE_LEVELS[1 + (seed + j) % 3]
            for i, s in enumerate(_seeds(seed, (2, k, j), ns)):
                cases.append(_mock_run(VALID[k], noise, s, explore=(i == 0)))
        # unit twins: the spectrum of a bundled circuit multiplied by 1e7 (always CIRCUIT_8|9, which only the admittance
        # representation can fit) and by 1e-6 (rotating circuit)
        for j, (k, a) in enumerate([(7 + (seed + 1) % 2, 1e7), ((7 * seed + 2) % N_VALID, 1e-6)]):
            noise = NOISE_LEVELS[1 + (seed + j) % 3]
            for i, s in enumerate(_seeds(seed, (7, k, j), ns)):
                c = _mock_run(VALID[k], noise, s, cell=f"{VALID[k]}@{noise:g}x{a:g}")
                c["zscale"] = a
                cases.append(c)
        # ladders: 2 (family, noise) cells, every run a different random circuit
        for j in range(2):
            fam = ["RC", "RQ", "mixed"][(seed + j) % 3]
            noise = NOISE_LEVELS[(seed + 2 * j) % 4]
            rng = np.random.default_rng([seed, 10, 3, j])
            for i, s in enumerate(_seeds(seed, (3, j), ns)):
                lad = gen_ladder(rng, fam)
                cases.append({"kind": "run", "family": "ladder", "base": f"ladder-{fam}", "invalid": False, "noise": noise, "seed": s,
                              "cell": f"ladder-{fam}@{noise:g}", "explore": i == 0, **lad})
        nm_seeds = 8
    else:
        ns, ns2 = 10, MIN_SEEDS
        for k, cid in enumerate(VALID):
            for li, noise in enumerate(NOISE_LEVELS):
                for i, s in enumerate(_seeds(seed, (1, k) if noise == LOWEST else (2, k, li), ns)):
                    cases.append(_mock_run(cid, noise, s, explore=(i % 6 == 0)))
                    if noise == LOWEST and k < N_DRIFT:
                        cases.append(_mock_run(cid, LOWEST, s, invalid=True, cell=f"{cid}_INVALID@{LOWEST:g}"))
            # unit twins
            for a in (1e7, 1e-6):
                noise = NOISE_LEVELS[(k + seed + (a > 1)) % 4]
                for i, s in enumerate(_seeds(seed, (7, k, int(a > 1)), ns2)):
                    c = _mock_run(cid, noise, s, cell=f"{cid}@{noise:g}x{a:g}")
                    c["zscale"] = a
                    cases.append(c)
            # noise level anywhere in the quantifier's range
            rng = np.random.default_rng([seed, 10, 4, k])
            for i, s in enumerate(_seeds(seed, (4, k), ns2)):
                noise = float(10 ** rng.uniform(math.log10(0.02), 0.0))
                cases.append(_mock_run(cid, round(noise, 5), s, cell=f"{cid}@loguniform"))
        for fi, fam in enumerate(["RC", "RQ", "mixed"]):
            for li, noise in enumerate(NOISE_LEVELS):
                for wide in (False, True):
                    rng = np.random.default_rng([seed, 10, 5, fi, li, int(wide)])
                    for i, s in enumerate(_seeds(seed, (5, fi, li, int(wide)), ns2)):
                        lad = gen_ladder(rng, fam, wide=wide)
                        cases.append({"kind": "run", "family": "ladder", "base": f"ladder-{fam}", "invalid": False, "noise": noise,
                                      "seed": s, "cell": f"ladder-{fam}{'-wide' if wide else ''}@{noise:g}", "explore": i % 6 == 0, **lad})
        nm_seeds = 24
    cases += gen_sessions(tier, seed)
    # heavy runs first so that the round-robin sharding is balanced
    cases.sort(key=lambda c: -c.get("cost", 0))
    # noise model of the mock data (cheap, no KK test): every bundled definition x every noise level
    idents = VALID + [c + "_INVALID" for c in DRIFT]
    for b in range(0, len(idents), 5):
        cases.append({"kind": "noise_model", "idents": idents[b:b + 5], "noises": NOISE_LEVELS,
                      "seeds": {i: {f"{p:g}": _seeds(seed, (6, b + j, li), nm_seeds) for li, p in enumerate(NOISE_LEVELS)}
                                for j, i in enumerate(idents[b:b + 5])}})
    return cases


# ------------------------------------------------------------------------------------------------
# one run
# ------------------------------------------------------------------------------------------------
def _viol(key, msg, case):
    rc = {k: v for k, v in case.items() if k != "cost"}
    return {"key": key, "msg": msg, "witness": {"replay_case": rc}}


def _noise_sums(Zn, Zi, pct):
    """Pooled sums of the normalised realised noise (all points / |Re Z| < |Z|/2 / |Im Z| < |Z|/2)."""
    d = (Zn - Zi) / (pct / 100.0 * np.abs(Zi))
    out = {}
    lowre = np.abs(Zi.real) < 0.5 * np.abs(Zi)
    lowim = np.abs(Zi.imag) < 0.5 * np.abs(Zi)
    for name, m in (("all", np.ones(len(d), dtype=bool)), ("lowRe", lowre), ("lowIm", lowim)):
        for comp, v in (("re", d.real[m]), ("im", d.imag[m])):
            out[f"{name}.{comp}"] = [int(len(v)), float(np.sum(v)), float(np.sum(v * v))]
    return out


def _add_sums(acc, new):
    for k, (n, s, ss) in new.items():
        a = acc.setdefault(k, [0, 0.0, 0.0])
        a[0] += n
        a[1] += s
        a[2] += ss


def make_data(case):
    from pyimpspec import generate_mock_data

    kw = dict(case.get("kwargs") or {})
    noisy = generate_mock_data(case["ident"], noise=float(case["noise"]), seed=int(case["seed"]), **kw)
    ideal = generate_mock_data(case["ident"], noise=0.0, **kw)
    if len(noisy) != 1 or len(ideal) != 1:
        raise RuntimeError(f"harness: identifier {case['ident']!r} matched {len(noisy)} definitions")
    a = case.get("zscale")
    if a:
        # the same valid spectrum in other units (micro-ohm ... mega-ohm): relative noise and validity are unchanged
        from pyimpspec import DataSet

        return tuple(DataSet(d.get_frequencies(), d.get_impedances() * float(a), label=d.get_label()) for d in (noisy[0], ideal[0]))
    return noisy[0], ideal[0]


def run_one(case):
    """Execute one run; returns (record | None, violations)."""
    from pyimpspec import perform_kramers_kronig_test

    install_recorders()
    viol = []
    try:
        data, ideal = make_data(case)
    except RuntimeError:
        raise
    except Exception as ex:
        o = monitors.exception_origin(ex)
        viol.append(_viol(f"C10/mock-data-raised:{o['type']}@{o['func']}", f"generate_mock_data({case['ident']!r}, noise={case['noise']}, "
                          f"seed={case['seed']}) raised: {monitors.tb_tail(ex)}", case))
        return None, viol
    Zn, Zi = data.get_impedances(), ideal.get_impedances()
    f = data.get_frequencies()
    pct = float(case["noise"])
    rec = {"cell": case["cell"], "family": case["family"], "base": case["base"], "ident": case["ident"], "invalid": bool(case["invalid"]),
           "noise": pct, "seed": int(case["seed"]), "n": int(len(f)), "kwargs": dict(case.get("kwargs") or {})}
    if case.get("zscale"):
        rec["zscale"] = float(case["zscale"])
    same_grid = len(Zn) == len(Zi) and np.array_equal(f, ideal.get_frequencies())
    if same_grid:
        rec["sums"] = _noise_sums(Zn, Zi, pct)
    del _REC[:]
    try:
        res = perform_kramers_kronig_test(data, num_procs=1)
    except Exception as ex:
        o = monitors.exception_origin(ex)
        viol.append(_viol(f"C10/kk-test-raised:{'invalid' if case['invalid'] else 'valid'}:{o['type']}@{o['func']}",
                          f"perform_kramers_kronig_test(generate_mock_data({case['ident']!r}, noise={pct}, seed={case['seed']}, "
                          f"**{case.get('kwargs')}), num_procs=1) raised: {monitors.tb_tail(ex)}", case))
        return None, viol
    recorded = [r for r in _REC if r[0] == "num_RC"]
    del _REC[:]
    est = float(res.get_estimated_percent_noise())
    try:
        lfe = float(res.get_log_F_ext())
    except Exception:
        # the accessor refuses a result whose low/high extensions differ; that is not what C10 states, so it is only counted and
        # the band/detection clauses below decide
        lfe = float("nan")
        monitors.count("log_F_ext_accessor_raised")
    rec.update(est=est, ratio=est / pct, num_RC=int(res.num_RC), adm=bool(res.admittance), chi2=float(res.pseudo_chisqr), log_F_ext=lfe)
    if same_grid:
        Zf = res.get_impedances()
        if len(Zf) == len(Zi):
            rec["truth_err"] = float(math.sqrt(np.mean(np.abs(Zf - Zi) ** 2 / np.abs(Zi) ** 2) / 2.0) * 100.0 / pct)
    # R2: limits reported during this very call
    lim = None
    tuples = []
    for _, out, ntests in recorded:
        try:
            t, _scores, lo, up = out
            tuples.append((t, int(lo), int(up), int(ntests)))
        except Exception:
            continue
    rec["recorded"] = len(tuples)
    for t, lo, up, ntests in tuples:
        if not (lo <= t.num_RC <= up):
            viol.append(_viol("C10/num_RC-outside-reported-limits:candidate",
                              f"{case['ident']} noise={pct} seed={case['seed']}: suggest_num_RC (admittance={t.admittance}) suggested "
                              f"num_RC={t.num_RC} but reported limits [{lo}, {up}]", case))
        if t is res or (lim is None and bool(t.admittance) == bool(res.admittance)):
            lim = (lo, up, ntests)
    if lim is not None:
        rec.update(lower=lim[0], upper=lim[1], ntests=lim[2], limits_src="recorder")
    if lim is None or case.get("explore"):
        # public route: perform_exploratory_kramers_kronig_tests + suggest_num_RC report (suggestion, scores, lower, upper)
        ex_out = _explore(case, data, res, rec, viol)
        if lim is None and ex_out is not None:
            lim = ex_out
            rec.update(lower=lim[0], upper=lim[1], limits_src="exploratory")
    if lim is not None and not (lim[0] <= res.num_RC <= lim[1]):
        viol.append(_viol("C10/num_RC-outside-reported-limits:returned",
                          f"{case['ident']} noise={pct} seed={case['seed']}: perform_kramers_kronig_test returned num_RC={res.num_RC} "
                          f"(admittance={res.admittance}) but the limits reported for that representation are [{lim[0]}, {lim[1]}]", case))
    # per-run limits: recorded here, judged per cell (A0)
    rec["shortcut"] = bool(lim is not None and lim[0] == 2 and lim[1] == rec["n"])
    rec["out"] = None
    if not case["invalid"] and not (RUN_BAND[0] <= rec["ratio"] <= RUN_BAND[1]):
        rec["out"] = "low" if rec["ratio"] < RUN_BAND[0] else "high"
    return rec, viol


def _explore(case, data, res, rec, viol):
    from pyimpspec import perform_exploratory_kramers_kronig_tests
    from pyimpspec.analysis.kramers_kronig import suggest_num_RC

    try:
        tests, (sres, _scores, lo, up) = perform_exploratory_kramers_kronig_tests(data, num_procs=1)
        r2, _s2, lo2, up2 = suggest_num_RC(tests)
    except Exception as ex:
        o = monitors.exception_origin(ex)
        viol.append(_viol(f"C10/exploratory-raised:{o['type']}@{o['func']}", f"perform_exploratory_kramers_kronig_tests / suggest_num_RC on "
                          f"{case['ident']} noise={case['noise']} seed={case['seed']} raised: {monitors.tb_tail(ex)}", case))
        return None
    rec["explored"] = 1
    for who, t, a, b in (("perform_exploratory_kramers_kronig_tests", sres, lo, up), ("suggest_num_RC(tests)", r2, lo2, up2)):
        if not (a <= t.num_RC <= b):
            viol.append(_viol("C10/num_RC-outside-reported-limits:exploratory",
                              f"{case['ident']} noise={case['noise']} seed={case['seed']}: {who} suggested num_RC={t.num_RC} "
                              f"(admittance={t.admittance}) with reported limits [{a}, {b}]", case))
    rec["explore_agrees"] = int(sres.num_RC == res.num_RC and bool(sres.admittance) == bool(res.admittance)
                                and sres.pseudo_chisqr == res.pseudo_chisqr)
    return (int(lo), int(up), len(tests))


def run_noise_model(case):
    from pyimpspec import generate_mock_data

    viol, sums, n = [], {}, 0
    for ident in case["idents"]:
        try:
            Zi = generate_mock_data(ident, noise=0.0)[0].get_impedances()
        except Exception as ex:
            o = monitors.exception_origin(ex)
            viol.append(_viol(f"C10/mock-data-raised:{o['type']}@{o['func']}", f"generate_mock_data({ident!r}, noise=0.0): {monitors.tb_tail(ex)}", case))
            continue
        acc = sums.setdefault(ident, {})
        for pct in case["noises"]:
            for s in case["seeds"][ident][f"{pct:g}"]:  # independent seeds per (identifier, noise level)
                try:
                    Zn = generate_mock_data(ident, noise=float(pct), seed=int(s))[0].get_impedances()
                except Exception as ex:
                    o = monitors.exception_origin(ex)
                    viol.append(_viol(f"C10/mock-data-raised:{o['type']}@{o['func']}", f"generate_mock_data({ident!r}, noise={pct}, seed={s}): "
                                      f"{monitors.tb_tail(ex)}", case))
                    continue
                if len(Zn) != len(Zi):
                    viol.append(_viol("C10/mock-noise-model:grid", f"{ident}: noisy and noise-free spectra have different lengths", case))
                    continue
                _add_sums(acc, _noise_sums(Zn, Zi, float(pct)))
                n += 1
    return {"evals": n, "viol": viol, "stats": {"noise_model_spectra": n}, "agg": {"kind": "noise_model", "sums": sums},
            "keys": [("nm", i, p) for i in case["idents"] for p in case["noises"]]}


def run_case(case):
    if case["kind"] == "noise_model":
        return run_noise_model(case)
    if case["kind"] == "cells":  # replay of an aggregate witness: re-run the cell(s) and apply the aggregate oracle
        recs, viol = [], []
        for c in case["runs"]:
            if c["kind"] == "noise_model":
                r = run_noise_model(c)
                recs.append(r["agg"])
                viol += r["viol"]
                continue
            if c["kind"] == "session":
                r = run_session(c)
                recs += [dict(a["rec"]) for a in r["agg"]["items"] if a.get("rec") is not None]
                viol += r["viol"]
                continue
            rec, v = run_one(c)
            viol += v
            if rec is not None:
                recs.append(rec)
        fin = _aggregate(recs, case.get("planned"))
        return {"evals": len(recs), "viol": viol + fin["viol"], "stats": {"replayed_runs": len(recs)}, "sample": fin["info"]}
    if case["kind"] == "session":
        return run_session(case)
    return _run_result(case)


def run_session(case):
    """Preamble (only the per-run clauses R1/R2 are applied to it), then the cell's runs; one process, no reset in between."""
    viol, aggs, stats, maxobs, keys, evals = [], [], {"sessions": 1}, {}, [], 0
    sess = {k: v for k, v in case.items() if k != "cost"}
    for c in case["preamble"]:
        rec, v = run_one(c)
        viol += v
        stats["session_preamble_runs"] = stats.get("session_preamble_runs", 0) + 1
    for c in case["runs"]:
        r = _run_result(c)
        viol += r["viol"]
        evals += r["evals"]
        keys += r["keys"]
        for k, v in r["stats"].items():
            stats[k] = stats.get(k, 0) + v
        for k, v in r["maxobs"].items():
            maxobs[k] = max(maxobs.get(k, v), v)
        a = r["agg"]
        if a.get("rec") is not None:
            a["rec"]["session"] = sess
            stats["session_runs_completed"] = stats.get("session_runs_completed", 0) + 1
        aggs.append(a)
    for v in viol:
        v.setdefault("witness", {})["replay_case"] = sess
    return {"evals": evals, "keys": keys, "viol": viol, "stats": stats, "maxobs": maxobs, "sample": None,
            "agg": {"kind": "session", "items": aggs}}


def _run_result(case):
    rec, viol = run_one(case)
    stats = {f"run:{case['family']}{':invalid' if case['invalid'] else ''}": 1}
    maxobs = {}
    keys = []
    if rec is not None:
        stats[f"completed:{case['family']}{':invalid' if case['invalid'] else ''}"] = 1
        stats["representation:" + ("Y" if rec["adm"] else "Z")] = 1
        if "lower" in rec:
            stats["limits_observed:" + rec["limits_src"]] = 1
            stats["limit_tuples_checked"] = rec.get("recorded", 0)
            keys.append((case["ident"], case["noise"], case["seed"], json.dumps(case.get("kwargs"), sort_keys=True)))
            maxobs["num_RC_minus_upper"] = float(rec["num_RC"] - rec["upper"])
            maxobs["lower_minus_num_RC"] = float(rec["lower"] - rec["num_RC"])
            if rec["num_RC"] == rec["upper"]:
                stats["num_RC_at_upper_limit"] = 1
            if rec["num_RC"] == rec["lower"]:
                stats["num_RC_at_lower_limit"] = 1
        else:
            stats["limits_unobserved"] = 1
        if rec.get("explored"):
            stats["explored_public_route"] = 1
            stats["explored_agrees_with_single"] = rec.get("explore_agrees", 0)
        if not case["invalid"]:
            tag = ":single-R-or-C-shortcut-limits" if rec.get("lower") == 2 and rec.get("upper") == rec["n"] else ""
            maxobs["per_run_ratio_max" + tag] = rec["ratio"]
            maxobs["per_run_inv_ratio_max" + tag] = 1.0 / rec["ratio"] if rec["ratio"] > 0 else float("inf")
            if tag:
                stats["runs_with_single-R-or-C-shortcut-limits"] = 1
            if rec.get("out"):
                stats[f"runs_outside_per_run_limits:{rec['out']}{tag}"] = 1
            if "truth_err" in rec:
                maxobs["fit_error_vs_noise_free_in_noise_units"] = rec["truth_err"]
    planned = {"cell": case["cell"]}
    return {"evals": 1 if rec is not None else 0, "keys": keys, "viol": viol, "stats": stats, "maxobs": maxobs,
            "sample": {k: v for k, v in rec.items() if k != "sums"} if rec is not None and (case.get("explore") or case["seed"] % 5 == 0) else None,
            "agg": {"kind": "run", "case": {k: v for k, v in case.items() if k != "cost"}, "rec": rec, "planned": planned}}


# ------------------------------------------------------------------------------------------------
# aggregate oracle
# ------------------------------------------------------------------------------------------------
def _pooled(acc):
    out = {}
    for k, (n, s, ss) in acc.items():
        if n > 0:
            out[k] = {"n": int(n), "mean": s / n, "rms": math.sqrt(ss / n)}
    return out


def _aggregate(items, planned_cells=None):
    """items: run records (dicts with 'cell') and noise-model aggregates ({'kind': 'noise_model', 'sums': ...})."""
    viol, inconclusive, info = [], [], {}
    runs = [r for r in items if r.get("kind") != "noise_model"]
    cells = {}
    for r in runs:
        cells.setdefault(r["cell"], []).append(r)
    for c in planned_cells or []:
        cells.setdefault(c, [])
    table = {}
    cases_of = {}
    for r in runs:
        cases_of.setdefault(r["cell"], []).append(
            {"kind": "run", "family": r["family"], "ident": r["ident"], "base": r["base"], "invalid": r["invalid"], "noise": r["noise"],
             "seed": r["seed"], "kwargs": r.get("kwargs", {}), "cell": r["cell"], "explore": False,
             **({"zscale": r["zscale"]} if r.get("zscale") else {})})
    for cell, rs in cells.items():  # a history cell is replayed with its history
        if rs and rs[0].get("session"):
            cases_of[cell] = [rs[0]["session"]]
    n_a1 = n_a2 = 0
    for cell, rs in sorted(cells.items()):
        invalid = bool(rs and rs[0]["invalid"])
        if len(rs) < MIN_SEEDS:
            inconclusive.append(f"cell {cell}: only {len(rs)} completed runs (< {MIN_SEEDS})")
            continue
        if invalid:
            continue
        ratios = np.array([r["ratio"] for r in rs])
        med = float(np.median(ratios))
        row = {"n": len(rs), "median_ratio": med, "min_ratio": float(ratios.min()), "max_ratio": float(ratios.max()),
               "median_num_RC": float(np.median([r["num_RC"] for r in rs])), "admittance_share": float(np.mean([r["adm"] for r in rs]))}
        te = [r["truth_err"] for r in rs if "truth_err" in r]
        if te:
            row["median_fit_error_vs_noise_free"] = float(np.median(te))
        outs = [r for r in rs if r.get("out")]
        row["runs_outside_per_run_limits"] = len(outs)
        table[cell] = row
        n_a1 += 1
        if len(outs) > MAX_OUT:
            side = "high" if sum(r["out"] == "high" for r in outs) * 2 >= len(outs) else "low"
            sig = ":single-R-or-C-shortcut-limits" if all(r.get("shortcut") for r in outs) else ""
            viol.append({"key": f"C10/noise-estimate-outliers:{side}:{rs[0]['family']}{sig}",
                         "msg": f"cell {cell}: {len(outs)} of {len(rs)} runs have estimated/injected noise outside the per-run limits {RUN_BAND} "
                                f"(allowed {MAX_OUT}): " + ", ".join(f"{r['ratio']:.3g} (seed {r['seed']}, num_RC {r['num_RC']} in [{r.get('lower')},"
                                                                     f"{r.get('upper')}], {'Y' if r['adm'] else 'Z'})" for r in outs[:8]),
                         "witness": {"cell": cell, "outliers": [{k: r.get(k) for k in ("ident", "kwargs", "noise", "seed", "ratio", "num_RC", "lower",
                                                                                       "upper", "adm", "log_F_ext")} for r in outs],
                                     "replay_case": {"kind": "cells", "runs": cases_of.get(cell, [])}}})
        if not (MEDIAN_BAND[0] <= med <= MEDIAN_BAND[1]):
            side = "low" if med < MEDIAN_BAND[0] else "high"
            viol.append({"key": f"C10/noise-estimate-median:{side}:{cell}",
                         "msg": f"cell {cell}: median over {len(rs)} seeds of estimated/injected noise = {med:.3g} (per-run {ratios.min():.3g}.."
                                f"{ratios.max():.3g}) outside the frozen band {MEDIAN_BAND}",
                         "witness": {"cell": cell, "ratios": [float(x) for x in ratios],
                                     "replay_case": {"kind": "cells", "runs": cases_of.get(cell, [])}}})
        # A2 drift
        icell = f"{rs[0]['base']}_INVALID@{rs[0]['noise']:g}" + (SESSION if cell.endswith(SESSION) else "")
        plain = f"{rs[0]['base']}@{rs[0]['noise']:g}"  # unit twins ("...x1e+07") have no drift counterpart of their own
        if rs[0]["noise"] == LOWEST and icell in cells and rs[0]["family"] == "mock" and cell in (plain, plain + SESSION):
            inv = {r["seed"]: r for r in cells[icell]}
            pairs = [(r, inv[r["seed"]]) for r in rs if r["seed"] in inv]
            if len(pairs) < MIN_SEEDS:
                inconclusive.append(f"drift cell {icell}: only {len(pairs)} (valid, invalid) pairs (< {MIN_SEEDS})")
            else:
                q = np.array([b["chi2"] / a["chi2"] for a, b in pairs])
                mq = float(np.median(q))
                row["drift_median_chisqr_ratio"] = mq
                row["drift_min_chisqr_ratio"] = float(q.min())
                n_a2 += 1
                if not (mq >= DRIFT_MIN):
                    viol.append({"key": f"C10/drift-not-flagged:{rs[0]['base']}",
                                 "msg": f"{rs[0]['base']} at {LOWEST} % noise: median over {len(pairs)} seeds of chi2(invalid)/chi2(valid) = {mq:.3g} "
                                        f"(per-seed {q.min():.3g}..{q.max():.3g}) < {DRIFT_MIN}",
                                 "witness": {"cell": icell, "ratios": [float(x) for x in q],
                                             "replay_case": {"kind": "cells", "runs": cases_of.get(cell, []) + (
                                                 [] if cell.endswith(SESSION) else cases_of.get(icell, []))}}})
    # A3 noise model: pooled per identifier over the dedicated probes, and globally per subset
    nm = {}
    for it in items:
        if it.get("kind") == "noise_model":
            for ident, acc in it["sums"].items():
                _add_sums(nm.setdefault(ident, {}), {k: tuple(v) for k, v in acc.items()})
    for r in runs:  # ladder spectra (and the mock runs) contribute to the global pools
        if "sums" in r:
            _add_sums(nm.setdefault("ladders" if r["family"] == "ladder" else "kk-runs", {}), {k: tuple(v) for k, v in r["sums"].items()})
    glob = {}
    for ident, acc in nm.items():
        if ident != "kk-runs":
            _add_sums(glob, {k: tuple(v) for k, v in acc.items()})
    n_a3 = 0
    worst = {"rms_high": 0.0, "rms_low": float("inf"), "abs_mean": 0.0}
    nm_table = {}
    for ident, acc in list(nm.items()) + [("ALL", glob)]:
        if ident == "kk-runs":
            continue
        p = _pooled(acc)
        nm_table[ident] = {k: {"n": v["n"], "rms": round(v["rms"], 4), "mean": round(v["mean"], 4)} for k, v in p.items()}
        for k, v in p.items():
            if v["n"] < NM_MIN_N:
                continue
            if ident != "ALL" and not k.startswith("all."):
                continue  # subsets are judged on the global pool only
            n_a3 += 1
            worst["rms_high"] = max(worst["rms_high"], v["rms"])
            worst["rms_low"] = min(worst["rms_low"], v["rms"])
            worst["abs_mean"] = max(worst["abs_mean"], abs(v["mean"]))
            if not (NM_RMS[0] <= v["rms"] <= NM_RMS[1]) or abs(v["mean"]) > NM_MEAN:
                viol.append({"key": f"C10/mock-noise-model:{k}",
                             "msg": f"noise added by generate_mock_data ({ident}, subset.component {k}, {v['n']} points pooled): realised/nominal "
                                    f"rms = {v['rms']:.3g}, mean = {v['mean']:.3g} (band rms {NM_RMS}, |mean| <= {NM_MEAN})",
                             "witness": {"ident": ident, "subset": k, "pooled": v}})
    info.update(cells=table, noise_model=nm_table, cells_judged=n_a1, drift_cells_judged=n_a2, noise_model_pools_judged=n_a3,
                noise_model_worst=worst)
    return {"viol": viol, "inconclusive": inconclusive, "info": info}


def finalize(agg):
    items, planned = [], set()
    for a in agg["aggs"]:
        if a.get("kind") == "noise_model":
            items.append(a)
        elif a.get("kind") in ("run", "session"):
            for b in (a["items"] if a["kind"] == "session" else [a]):
                planned.add(b["planned"]["cell"])
                if b.get("rec") is not None:
                    items.append(dict(b["rec"]))
    fin = _aggregate(items, sorted(planned))
    inc = list(fin["inconclusive"])
    st = agg["stats"]
    if fin["info"]["cells_judged"] == 0:
        inc.append("no (circuit, noise) cell reached the aggregate oracle")
    if fin["info"]["drift_cells_judged"] == 0:
        inc.append("no drift cell reached the aggregate oracle")
    if fin["info"]["noise_model_pools_judged"] == 0:
        inc.append("noise-model pools never reached the minimum size")
    if st.get("limits_unobserved", 0) > 0:
        inc.append(f"limits were not observed in {st['limits_unobserved']} run(s)")
    if st.get("limits_observed:recorder", 0) + st.get("limits_observed:exploratory", 0) == 0:
        inc.append("the limits reported by suggest_num_RC were never observed (recorder never fired, public route never ran)")
    info = fin["info"]
    cells = info["cells"]
    if cells:
        meds = [v["median_ratio"] for v in cells.values()]
        info["median_ratio_range"] = [min(meds), max(meds)]
        dr = [v["drift_median_chisqr_ratio"] for v in cells.values() if "drift_median_chisqr_ratio" in v]
        if dr:
            info["drift_median_ratio_min"] = min(dr)
    return {"viol": fin["viol"], "inconclusive": inc, "info": info}
