"""C11 - Z-HIT reconstructs the modulus from the phase.

Shape: generator-is-the-oracle + metamorphic relations over executions of the real `perform_zhit`, plus invariants
at two hooks (`zhit.smoothing._smooth_phase`, `zhit.weights._generate_weights`) that fire on every call the workload
makes, including the calls made inside `perform_zhit`.

Clauses decided (one concrete spectrum + option cell = one "sub-case"):
 cp       constant-phase spectrum (R, C, L, Q, W; numpy formula, parameters over decades, any grid, optional mask
          with poison values): at every unmasked point | |Z_fit|/|Z| - 1 | <= TOL_CP (1e-2; the floor is the
          termination of lmfit's offset fit at ~4e-6*|offset|, worst observed 1.2e-4) AND the spread of
          ln(|Z_fit|/|Z|) over the spectrum <= TOL_CP_SHAPE (1e-6, worst observed 1.2e-11: the part of the result that
          is reconstructed from the phase, free of the offset fit), for the option cell (smoother x interpolator x
          {Z,Y}, plus the option value "auto") x (num_points, polynomial_order) x window (14 named windows with
          random centre/width, "auto", custom weight arrays).
 ladder   R0 + sum R_k/(1+(j w tau_k)^n_k) (1-4 RC/RQ elements): deviation <= TOL_LADDER at the well-weighted points
          (weight >= half of the largest weight).
 scale    Z*a -> Z_fit*a (both clauses).
 weights  |Z| multiplied by arbitrary factors on points outside the window / with zero custom weight (phase kept)
          -> identical reconstruction; |Z| multiplied by b on every point inside the window -> reconstruction * b
          everywhere (the offset is determined by, and only by, the weighted points).
 twins    grid twins: within one process, the same named window (same centre/width) on a log-uniform grid and then on
          warped / jittered grids and on differently masked copies of one data set that all share N and the first and
          last frequency (plus a custom-weights control); every call is subject to the cp, scale and weights clauses
          and to the support check of the hooked `_generate_weights` output.
 smooth   direct `_smooth_phase` calls: constant and linear sequences come back unchanged (TOL_SMOOTH) for every
          (smoother, num_points 1..11, polynomial_order 1..10) the smoother accepts.
 window   direct `_generate_weights` calls: shape, 0 <= w <= 1, zero outside [centre-width/2, centre+width/2],
          boxcar == 1 inside, >= 1 positive weight when a point sits in the central fifth of a window >= 0.5 decades.

Latitude (the statement is silent, so both behaviours are accepted):
 - a smoother may refuse a (num_points, polynomial_order) pair with an exception (e.g. modsinc with an odd order);
   inside the *core* domain 0 < order < num_points <= 11, order <= 9 (modsinc: even order) - the domain the library's
   own argument validation and docstrings describe - a refusal is a violation;
 - only the modulus is compared (the phase of the result is not constrained by the statement);
 - ladders are run on regular grids with >= 8 points per decade and with the default smoothing parameters
   (num_points=3, polynomial_order=2) because the statement is about smooth spectra reconstructed "within a few
   percent", not about coarse or over-smoothed phase data (calibration: num_points=5 at 10 ppd reaches 5.5 %, 6 ppd
   4.5 %; inside the chosen domain the worst observed equals the 4 % intrinsic error of the two-term series);
 - lowess cells use regular log grids only: statsmodels' robustness iterations on noise-free data on irregular grids
   move an exactly constant phase by up to 4e-5 rad (third-party numerics, reported as information only);
 - ladder deviations are judged at well-weighted points only: the offset is fitted there, elsewhere the (few percent)
   systematic error of the two-term Z-HIT series is not centred.
"""
import warnings

import numpy as np

from .. import monitors

ID = "C11"
RULE = (
    "sub-cases drawn from rng([seed, case]): cp = element in {R,C,L,Q,W} (parameters log-uniform over 8-13 decades, "
    "Q exponent 0.05-1) x grid (regular 3-20 ppd / jittered / random, 2-9 decades, asc|desc, optional poisoned mask) x "
    "cell cycled over 5 smoothers x 4 interpolators x {Z,Y} (every 23rd: smoothing=interpolation='auto') x window cycled over 14 named windows (random centre/width) "
    "and 5 custom-weight patterns x (num_points, polynomial_order) from the core domain; ladder = 1-4 RC/RQ elements, "
    "R_k/R_0 in [1,100], regular grids 8-16 ppd, default smoothing parameters. Each sub-case runs the base reconstruction plus the scaling and the two "
    "weight-perturbation relations. Direct-call blocks: every (smoother, num_points 1..11, order 1..10) x constant/"
    "linear sequences x lengths; every named window x random centre/width x grids. Non-trivial = the reconstruction "
    "ran and was compared; distinct = distinct (clause, element/ladder size, parameter decade, cell, window, "
    "num_points, order, grid size) keys resp. (smoother, num_points, order, sequence kind, length) and (window, "
    "rounded centre/width, grid) keys."
)
ASSUMPTIONS = [
    "numpy complex arithmetic for the element formulas Z=R, 1/(jwC), jwL, 1/(Y(jw)^n) and the ladder sum is the trusted reference",
    "scipy.signal.windows names discovered by the library are the 14 two-parameter windows of scipy 1.18",
    "ladder tolerance 8 % is the design's reading of 'a few percent' (intrinsic error of the two-term series is <= 4 %)",
]
SHARDS = 16
CASE_TIMEOUT = 600
MIN_EVALS = 500

SMOOTHERS = ["none", "lowess", "modsinc", "savgol", "whithend"]
INTERPS = ["akima", "makima", "cubic", "pchip"]
WINDOWS = ["barthann", "bartlett", "blackman", "blackmanharris", "bohman", "boxcar", "cosine", "flattop", "hamming",
           "hann", "lanczos", "nuttall", "parzen", "triang"]
CUSTOM = ["sparse", "block", "ones", "single", "two-far"]
ELEMS = ["R", "C", "L", "Q", "W"]

# frozen tolerances (calibration: see the report in evidence.coverage.worst_observed)
TOL_CP = 1e-2  # total deviation; floor = termination of lmfit's offset fit, measured <= 4.1e-6*|ln|Z(f_max)|| <= 1.6e-4
TOL_CP_SHAPE = 1e-6  # spread of ln(|Z_fit|/|Z|) over the points (the part that does not depend on the offset fit)
LADDER_MEDIAN_MAX = 0.025  # aggregate: median over all ladder cases of a run (observed 0.0127-0.0139)
LADDER_P95_MAX = 0.055     # aggregate: 95th percentile (observed 0.030-0.032)
TOL_LADDER = 0.08  # observed <= 0.040 inside the generator domain (= intrinsic error of the two-term series); mutants >= 0.2
TOL_SCALE_CP = 1e-2  # two independent offset fits, each within the cp floor
TOL_SCALE_LADDER = 1e-2  # same floor (two offset fits); observed <= 2.5e-5
TOL_REL_SHAPE = 1e-6  # relations: spread of ln(|Z_fit'|/|Z_fit|) (same phase data -> same shape)
TOL_ZERO = 1e-9  # zero-weight perturbation: identical residual vector, observed <= 2e-16
TOL_SMOOTH = 1e-9  # radians; none/savgol/whithend/modsinc observed <= 2e-12
TOL_SMOOTH_LOWESS = 1e-6  # radians; statsmodels' robustness iterations on noise-free data, regular grids: observed <= 5e-11
EPS_WIN = 1e-9  # margin around the window edges


# ------------------------------------------------------------------------------------------------
# spectra
# ------------------------------------------------------------------------------------------------
def truth(model, f):
    f = np.asarray(f, dtype=float)
    w = 2 * np.pi * f
    e = model["elem"]
    if e == "R":
        return np.full(len(f), model["R"], dtype=complex)
    if e == "C":
        return 1 / (1j * w * model["C"])
    if e == "L":
        return 1j * w * model["L"]
    if e == "Q":
        return 1 / (model["Y"] * (1j * w) ** model["n"])
    if e == "W":
        return 1 / (model["Y"] * (1j * w) ** 0.5)
    if e == "ladder":
        Z = np.full(len(f), model["R0"], dtype=complex)
        for R, t, n in zip(model["R"], model["tau"], model["n"]):
            Z = Z + R / (1 + (1j * w * t) ** n)
        return Z
    raise ValueError(e)


def _selfcheck():
    f = np.array([1.0, 100.0])
    assert np.allclose(np.abs(truth({"elem": "C", "C": 1e-6}, f)), 1 / (2 * np.pi * f * 1e-6))
    assert np.allclose(np.angle(truth({"elem": "Q", "Y": 1e-3, "n": 0.5}, f)), -np.pi / 4)
    assert np.allclose(np.angle(truth({"elem": "W", "Y": 1e-3}, f)), -np.pi / 4)
    assert np.allclose(np.angle(truth({"elem": "L", "L": 1e-3}, f)), np.pi / 2)
    z = truth({"elem": "ladder", "R0": 1.0, "R": [9.0], "tau": [1.0], "n": [1.0]}, np.array([1e-9, 1e9]))
    assert abs(z[0] - 10) < 1e-6 and abs(z[1] - 1) < 1e-6


_selfcheck()


def _grid(rng, kind, lo, span, ppd, nmin=13, nmax=150):
    n = int(min(nmax, max(nmin, round(span * ppd) + 1)))
    if kind == "regular":
        lf = np.linspace(lo, lo + span, n)
    elif kind == "jitter":
        lf = np.linspace(lo, lo + span, n)
        step = span / (n - 1)
        lf = lf + rng.uniform(-0.3, 0.3, n) * step
    else:  # random
        lf = np.sort(rng.uniform(lo, lo + span, n))
        for i in range(1, n):
            if lf[i] - lf[i - 1] < 2e-3:
                lf[i] = lf[i - 1] + 2e-3
    return lf


def _cp_model(rng, elem):
    if elem == "R":
        return {"elem": "R", "R": float(10 ** rng.uniform(-3, 7))}
    if elem == "C":
        return {"elem": "C", "C": float(10 ** rng.uniform(-12, 1))}
    if elem == "L":
        return {"elem": "L", "L": float(10 ** rng.uniform(-10, 1))}
    if elem == "Q":
        return {"elem": "Q", "Y": float(10 ** rng.uniform(-9, 2)), "n": float(rng.choice([rng.uniform(0.05, 1.0), 1.0, 0.5], p=[0.8, 0.1, 0.1]))}
    return {"elem": "W", "Y": float(10 ** rng.uniform(-9, 2))}


def _core_params(rng, sm, max_np=11):
    """(num_points, polynomial_order) from the core domain 0 < order < num_points <= 11, order <= 9, modsinc even."""
    if sm == "modsinc":
        np_ = int(rng.integers(3, max_np + 1))
        order = int(rng.choice([o for o in (2, 4, 6, 8) if o < np_]))
    elif sm in ("savgol", "whithend"):
        np_ = int(rng.integers(2, max_np + 1))
        order = int(rng.integers(1, min(np_ - 1, 9) + 1))
    else:
        np_ = int(rng.integers(1, max_np + 1))
        order = int(rng.integers(1, 11))
    return np_, order


def _window(rng, widx, lf_desc):
    """Window spec over the unmasked, descending log10(f) array."""
    n = len(lf_desc)
    span = float(lf_desc[0] - lf_desc[-1])
    k = widx % (len(WINDOWS) + len(CUSTOM))
    if k < len(WINDOWS):
        width = float(min(12.0, max(0.5, 10 ** rng.uniform(np.log10(0.5), np.log10(span + 2.0)))))
        anchor = float(lf_desc[int(rng.integers(0, n))])
        center = anchor + float(rng.uniform(-0.1, 0.1)) * width
        return {"kind": "named", "name": WINDOWS[k], "center": center, "width": width}
    pat = CUSTOM[k - len(WINDOWS)]
    w = np.zeros(n)
    if pat == "sparse":
        p = rng.uniform(0.1, 0.9)
        sel = rng.random(n) < p
        if sel.sum() < 2:
            sel[rng.choice(n, 2, replace=False)] = True
        w[sel] = rng.uniform(0.01, 5.0, int(sel.sum()))
    elif pat == "block":
        a = int(rng.integers(0, n - 2))
        b = int(rng.integers(a + 2, n + 1))
        w[a:b] = 1.0
    elif pat == "ones":
        w[:] = 1.0
    elif pat == "single":
        w[int(rng.integers(0, n))] = float(rng.uniform(0.1, 2.0))
    else:
        w[0] = 1.0
        w[-1] = float(rng.uniform(0.1, 1.0))
    return {"kind": "custom", "pattern": pat, "weights": [float(x) for x in w], "window_arg": str(rng.choice(["auto", "boxcar"]))}


def _relations(rng, n):
    return {"scale": float(10 ** rng.uniform(-3, 3)), "b": float(2.0 ** int(rng.choice([-5, -3, -1, 1, 2, 4, 7]))),
            "zexp": [int(x) for x in rng.choice([-9, -4, -1, 1, 3, 8], size=n)]}


def gen_cp(rng, j):
    """j decides the option cell and the window (cycled), rng everything else."""
    cell = j % 40
    sm, ip, adm = SMOOTHERS[cell % 5], INTERPS[(cell // 5) % 4], bool(cell // 20)
    elem = ELEMS[(j // 40 + j) % 5] if rng.random() < 0.7 else str(rng.choice(ELEMS))
    model = _cp_model(rng, elem)
    kind = str(rng.choice(["regular", "jitter", "random"], p=[0.5, 0.25, 0.25]))
    auto = j % 23 == 11
    if sm == "lowess" or auto:
        kind = "regular"  # see the module docstring (latitude)
    span = float(rng.uniform(2, 9))
    lo = float(rng.uniform(-4, 7.5 - span))
    ppd = float(rng.uniform(3, 20))
    lf = _grid(rng, kind, lo, span, ppd)
    n = len(lf)
    asc = bool(rng.random() < 0.5)
    f = 10.0 ** (lf if asc else lf[::-1])
    mask = []
    if rng.random() < 0.15 and n >= 18:
        mask = sorted(int(i) for i in rng.choice(n, size=int(rng.integers(1, n - 13)), replace=False))[: n - 13]
    keep = np.array([i for i in range(n) if i not in set(mask)])
    lf_desc = np.sort(np.log10(f[keep]))[::-1]
    np_, order = _core_params(rng, sm)
    win = _window(rng, j, lf_desc)  # 19 window kinds vs 40 cells: co-prime, every pair is reached within 760 sub-cases
    do_rel = True
    if auto:
        # the option value "auto": all 5 smoothers x 4 interpolators (x 14 windows) are evaluated, the best one is
        # returned; (num_points, order) must then lie in every smoother's core domain
        sm = ip = "auto"
        np_ = int(rng.choice([3, 5, 7, 9, 11]))
        order = int(rng.choice([o for o in (2, 4, 6, 8) if o < np_]))
        if win["kind"] == "named" and rng.random() < 0.5:
            win = dict(win, name="auto")
        do_rel = False  # which of the equally exact candidates wins may change between two calls
    return {
        "clause": "cp", "model": model, "f": [float(x) for x in f], "mask": mask, "grid": kind,
        "opt": {"smoothing": sm, "interpolation": ip, "admittance": adm, "num_points": np_, "polynomial_order": order,
                "num_iterations": int(rng.integers(1, 6))},
        "win": win, "rel": _relations(rng, len(keep)), "do_rel": do_rel,
    }


def gen_ladder(rng, j, tier):
    cell = j % 40
    sm, ip, adm = SMOOTHERS[cell % 5], INTERPS[(cell // 5) % 4], bool(cell // 20)
    K = int(rng.integers(1, 5))
    if tier == "quick":
        ppd = int(rng.integers(8, 11))
        span = float(rng.uniform(4, 5))
    else:
        ppd = int(rng.integers(8, 17))
        span = float(rng.uniform(4, 6))
    lo = float(rng.uniform(-3, 6.5 - span))
    n = int(round(span * ppd)) + 1
    lf = lo + np.arange(n) / ppd
    R0 = float(10 ** rng.uniform(-1, 4))
    R = [float(R0 * 10 ** rng.uniform(0, 2)) for _ in range(K)]
    fc = rng.uniform(lf[0] + 0.5, lf[-1] - 0.5, K)  # characteristic frequencies inside the measured range
    tau = [float(1 / (2 * np.pi * 10**x)) for x in fc]
    rq = bool(rng.random() < 0.5)
    ns = [float(rng.uniform(0.6, 1.0)) if rq else 1.0 for _ in range(K)]
    asc = bool(rng.random() < 0.5)
    f = 10.0 ** (lf if asc else lf[::-1])
    np_, order = 3, 2  # the library defaults: the mildest smoothing every smoother accepts
    lf_desc = lf[::-1]
    # windows for ladders cover at least two decades so that the offset is fitted over a representative range
    wsel = int(rng.integers(0, len(WINDOWS) + 3))
    if wsel < len(WINDOWS):
        width = float(rng.uniform(2.0, span + 1.0))
        center = float(rng.uniform(lf[0] + min(1.0, span / 4), lf[-1] - min(1.0, span / 4)))
        win = {"kind": "named", "name": WINDOWS[wsel], "center": center, "width": width}
    else:
        pat = ["ones", "block", "sparse"][wsel - len(WINDOWS)]
        w = np.zeros(n)
        if pat == "ones":
            w[:] = 1.0
        elif pat == "block":
            m = int(2 * ppd)
            a = int(rng.integers(0, n - m))
            b = int(rng.integers(a + m, n + 1))
            w[a:b] = 1.0
        else:
            sel = rng.random(n) < rng.uniform(0.4, 0.9)
            w[sel] = rng.uniform(0.5, 1.0, int(sel.sum()))
            w[0] = 1.0
            w[-1] = 1.0
        win = {"kind": "custom", "pattern": pat, "weights": [float(x) for x in w], "window_arg": str(rng.choice(["auto", "boxcar"]))}
    return {
        "clause": "ladder", "model": {"elem": "ladder", "R0": R0, "R": R, "tau": tau, "n": ns}, "f": [float(x) for x in f],
        "mask": [], "grid": "regular", "ppd": ppd,
        "opt": {"smoothing": sm, "interpolation": ip, "admittance": adm, "num_points": np_, "polynomial_order": order,
                "num_iterations": int(rng.integers(1, 6))},
        "win": win, "rel": _relations(rng, n), "do_rel": bool(rng.random() < 0.25),
    }


def gen_twins(rng, j):
    """Grid twins: consecutive calls IN ONE PROCESS whose unmasked grids share the number of points and the first and
    last frequency but differ in the interior (log-uniform, then warped / jittered; then the same data set with two
    different interior points masked), all with the same named window (same centre/width) plus a custom-weights
    control.  Any state the library keeps between calls that is keyed on less than the full grid shows up as weights
    on the wrong points in the second call."""
    cell = j % 32  # lowess excluded: the twin grids are irregular (see the module docstring)
    sm, ip, adm = ["none", "modsinc", "savgol", "whithend"][cell % 4], INTERPS[(cell // 4) % 4], bool(cell // 16)
    n = int(rng.integers(25, 81))
    span = float(rng.uniform(3, 7))
    lo = float(rng.uniform(-3, 7 - span))
    u = np.linspace(0.0, 1.0, n)
    lfA = lo + span * u
    fA = 10.0 ** lfA
    grids = [("regular", fA)]
    for kind in (["warp2", "jitter"] if j % 2 == 0 else ["warp-half", "warp2"]):
        if kind == "warp2":
            lf = lo + span * u**2
        elif kind == "warp-half":
            lf = lo + span * u**0.5
        else:
            lf = lfA + np.concatenate([[0.0], rng.uniform(-0.45, 0.45, n - 2), [0.0]]) * (span / (n - 1))
        f = 10.0**lf
        f[0], f[-1] = fA[0], fA[-1]  # bit-identical end points
        grids.append((kind, f))
    # one named window for the whole sequence; its edges lie well inside the range so that the grids disagree about
    # which indices are inside
    name = "boxcar" if j % 3 == 0 else WINDOWS[(j // 3) % len(WINDOWS)]
    width = float(rng.uniform(0.3, 0.5) * span)
    center = float(lo + span * rng.uniform(0.4, 0.6))
    named = {"kind": "named", "name": name, "center": center, "width": width}
    model = _cp_model(rng, ELEMS[j % 5])
    np_, order = _core_params(rng, sm)
    opt = {"smoothing": sm, "interpolation": ip, "admittance": adm, "num_points": np_, "polynomial_order": order, "num_iterations": 3}
    asc = bool(rng.random() < 0.5)

    def sub(kind, f, mask, win):
        ff = f if asc else f[::-1]
        mm = [int(i) if asc else int(len(f) - 1 - i) for i in mask]
        return {"clause": "cp", "model": model, "f": [float(x) for x in ff], "mask": sorted(mm), "grid": "twin:" + kind, "opt": opt,
                "win": win, "rel": _relations(rng, len(f) - len(mask)), "do_rel": True}

    subs = [sub(kind, f, [], named) for kind, f in grids]
    # masked twins: n+1 points, one interior point masked on either side of the upper window edge
    fD = 10.0 ** (lo + span * np.linspace(0.0, 1.0, n + 1))
    e = int(np.argmin(np.abs(np.log10(fD) - (center + width / 2))))
    i1, i2 = max(1, e - 3), min(n - 1, e + 3)
    subs.append(sub("masked-a", fD, [i1], named))
    subs.append(sub("masked-b", fD, [i2], named))
    # control: custom weights (the indicator of the same window) on the warped grid
    fB = grids[1][1]
    ins = np.abs(np.log10(np.sort(fB)[::-1]) - center) <= width / 2
    if ins.sum() >= 1:
        subs.append(sub("control:" + grids[1][0], fB, [], {"kind": "custom", "pattern": "window-indicator", "weights": [float(x) for x in ins], "window_arg": "boxcar"}))
    return subs


def run_twins(case):
    rng = np.random.default_rng(case["seed"])
    subs = gen_twins(rng, case["j"])
    out = {"evals": 0, "keys": [], "viol": [], "stats": {}, "maxobs": {}}
    wit = {"replay_case": {"kind": "twinseq", "subs": subs}}
    return _run_twin_subs(subs, out, wit)


def _run_twin_subs(subs, out, wit):
    for k, sub in enumerate(subs):
        r = run_sub(sub)
        out["evals"] += r["evals"]
        if r["key"] is not None:
            out["keys"].append(("twin", k) + tuple(r["key"]))
        for v in r["viol"]:
            v = dict(v, witness=wit, msg=f"[grid twin #{k} ({sub['grid']}) of a sequence sharing N and the end frequencies] " + v["msg"])
            out["viol"].append(v)
        _merge(out["stats"], r["stats"], lambda a, b: a + b)
        _merge(out["maxobs"], r["maxobs"], max)
        if k > 0 and sub["win"]["kind"] == "named":
            out["stats"]["grid_twins"] = out["stats"].get("grid_twins", 0) + 1
    seen, keep = set(), []
    for v in out["viol"]:
        if v["key"] not in seen:
            seen.add(v["key"])
            keep.append(v)
    out["viol"] = keep
    s0 = subs[1]
    out["sample"] = {"kind": "grid-twins", "grids": [x["grid"] for x in subs], "n": len(s0["f"]), "f_first_last": [s0["f"][0], s0["f"][-1]],
                     "window": {k: v for k, v in subs[0]["win"].items()}, "opt": s0["opt"], "model": s0["model"]}
    return out


# ------------------------------------------------------------------------------------------------
# hooks (installed per shard): every call of _smooth_phase / _generate_weights is observed
# ------------------------------------------------------------------------------------------------
_HOOKS = {"installed": False, "quiet": False, "last_weights": None}


def _in_window(lf, center, width):
    lo, hi = center - width / 2, center + width / 2
    lf = np.asarray(lf, dtype=float)
    return (lf >= lo + EPS_WIN) & (lf <= hi - EPS_WIN), (lf < lo - EPS_WIN) | (lf > hi + EPS_WIN)


def check_weights(log_f, window, center, width, w):
    """Invariants of a weight vector; returns list of (key-suffix, message)."""
    out = []
    log_f = np.asarray(log_f, dtype=float)
    w = np.asarray(w)
    if w.shape != log_f.shape:
        return [("shape", f"weights shape {w.shape} != log_f shape {log_f.shape}")]
    if not np.all(np.isfinite(w)) or np.any(w < 0) or np.any(w > 1):
        out.append(("range", f"weights outside [0,1] or not finite: min={np.nanmin(w)}, max={np.nanmax(w)}"))
    inside, outside = _in_window(log_f, center, width)
    if np.any(w[outside] != 0):
        i = int(np.flatnonzero(outside & (w != 0))[0])
        out.append(("outside-window", f"window={window} center={center} width={width}: log f={log_f[i]} lies outside but has weight {w[i]}"))
    if window == "boxcar" and np.any(np.abs(w[inside] - 1.0) > 1e-12):
        i = int(np.flatnonzero(inside & (np.abs(w - 1.0) > 1e-12))[0])
        out.append(("boxcar-inside", f"boxcar center={center} width={width}: log f={log_f[i]} lies inside but has weight {w[i]}"))
    if width >= 0.5:
        central = np.abs(log_f - center) <= 0.1 * width + 1e-12
        if np.any(central) and not np.any(w > 0):
            out.append(("none-positive", f"window={window} center={center} width={width}: a point sits in the central fifth but no weight is positive"))
    return out


def smooth_tol(sm):
    return TOL_SMOOTH_LOWESS if sm == "lowess" else TOL_SMOOTH


def setup_shard():
    if _HOOKS["installed"]:
        return
    _HOOKS["installed"] = True
    import pyimpspec.analysis.zhit.smoothing as S
    import pyimpspec.analysis.zhit.weights as Wm

    orig_smooth = S._smooth_phase
    orig_weights = Wm._generate_weights

    def _smooth_phase(smoothing, num_points, polynomial_order, num_iterations, ln_omega, phase):
        snap = np.array(phase, dtype=float, copy=True)
        out = orig_smooth(smoothing, num_points, polynomial_order, num_iterations, ln_omega, phase)
        if not _HOOKS["quiet"]:
            try:
                monitors.count("hook:_smooth_phase")
                if snap.size and np.ptp(snap) <= 1e-13:
                    monitors.count("hook:_smooth_phase:constant-input")
                    o = np.asarray(out, dtype=float)
                    if o.shape != snap.shape or not np.all(np.abs(o - snap) <= smooth_tol(smoothing)):
                        monitors.record("smooth-constant", f"{smoothing}(num_points={num_points}, order={polynomial_order}) changed a constant "
                                        f"phase sequence of length {snap.size} (value {snap[0]!r}) inside perform_zhit", {"smoother": smoothing})
            except Exception as e:  # the hook must never break the run
                monitors.record("harness", f"smooth hook error {e!r}")
        return out

    def _generate_weights(log_f, window, center, width):
        w = orig_weights(log_f, window, center, width)
        if not _HOOKS["quiet"]:
            try:
                monitors.count("hook:_generate_weights")
                _HOOKS["last_weights"] = np.array(w, copy=True)
                for suffix, msg in check_weights(log_f, window, center, width, w):
                    monitors.record("weights", msg, {"suffix": suffix})
            except Exception as e:
                monitors.record("harness", f"weights hook error {e!r}")
        return w

    _smooth_phase.__wrapped__ = orig_smooth
    _generate_weights.__wrapped__ = orig_weights
    S._smooth_phase = _smooth_phase
    Wm._generate_weights = _generate_weights
    if len(Wm._WINDOW_FUNCTIONS) == 0:
        Wm._initialize_window_functions()


def shard_report():
    return dict(monitors.COUNTERS)


# ------------------------------------------------------------------------------------------------
# one sub-case: base reconstruction + relations
# ------------------------------------------------------------------------------------------------
def _zhit(f, Z, mask, opt, win):
    from pyimpspec import DataSet, perform_zhit

    ds = DataSet(np.array(f, dtype=float), np.array(Z, dtype=complex), mask={int(i): True for i in mask})
    kw = dict(smoothing=opt["smoothing"], interpolation=opt["interpolation"], num_points=int(opt["num_points"]),
              polynomial_order=int(opt["polynomial_order"]), num_iterations=int(opt["num_iterations"]),
              admittance=bool(opt["admittance"]), num_procs=1)
    if win["kind"] == "named":
        kw.update(window=win["name"], center=float(win["center"]), width=float(win["width"]))
    else:
        kw.update(weights=np.array(win["weights"], dtype=np.float64), window=win.get("window_arg", "auto"))
    with warnings.catch_warnings():
        warnings.simplefilter("ignore")
        return perform_zhit(ds, **kw)


def _cell(opt):
    return f"{opt['smoothing']}/{opt['interpolation']}/{'Y' if opt['admittance'] else 'Z'}"


def run_sub(sub):
    """Returns dict(viol, evals, stats, maxobs, key, meas)."""
    viol, stats, maxobs = [], {}, {}
    evals = 0
    opt, win, clause = sub["opt"], sub["win"], sub["clause"]
    cell = _cell(opt)
    wname = win["name"] if win["kind"] == "named" else "custom:" + win.get("pattern", "?")
    witness = {"replay_case": {"kind": "one", "sub": sub}}

    def bad(key, msg):
        viol.append({"key": key, "msg": f"[{clause} {sub['model']['elem']} {cell} np={opt['num_points']} order={opt['polynomial_order']} window={wname} n={len(sub['f'])}] {msg}",
                     "witness": witness})

    def st(name, n=1):
        stats[name] = stats.get(name, 0) + n

    def mx(name, v):
        v = float(v)
        if v == v:
            maxobs[name] = max(maxobs.get(name, 0.0), v)

    f = np.array(sub["f"], dtype=float)
    Z = truth(sub["model"], f)
    maskset = set(sub["mask"])
    Zin = Z.copy()
    for k, i in enumerate(sorted(maskset)):
        Zin[i] = 1e30 * np.exp(1j * (0.7 + k))  # poison: must never be looked at
    keep = np.array([i for i in range(len(f)) if i not in maskset])
    order = keep[np.argsort(-f[keep])]  # unmasked, descending frequency: the order of the result arrays
    f_desc = f[order]
    lf_desc = np.log10(f_desc)
    Zt = Z[order]

    def call(Zarr, tag):
        monitors.drain()
        _HOOKS["last_weights"] = None
        try:
            r = _zhit(f, Zarr, sub["mask"], opt, win)
        except Exception as e:
            o = monitors.exception_origin(e)
            st(f"{clause}:raised")
            bad(f"C11/zhit-raised:{o['type']}:{o['func']}", f"perform_zhit raised on the {tag} spectrum: {monitors.tb_tail(e)}")
            return None
        for rec in monitors.drain():
            if rec["monitor"] == "smooth-constant":
                bad(f"C11/in-zhit:smooth-constant:{rec['witness']['smoother']}", rec["msg"])
            elif rec["monitor"] == "weights":
                bad(f"C11/in-zhit:weights:{rec['witness']['suffix']}", rec["msg"])
            else:
                st("harness-hook-error")
        if (r.smoothing not in SMOOTHERS or r.interpolation not in INTERPS or (win["kind"] == "named" and r.window not in WINDOWS)
                or (opt["smoothing"] != "auto" and (r.smoothing, r.interpolation) != (opt["smoothing"], opt["interpolation"]))
                or (win["kind"] == "named" and win["name"] != "auto" and r.window != win["name"])):
            bad("C11/result-labels", f"result of the {tag} call is labelled {r.smoothing}/{r.interpolation}/{r.window}")
        Zf = np.asarray(r.impedances)
        fr = np.asarray(r.frequencies)
        if Zf.shape != Zt.shape or fr.shape != f_desc.shape or not np.array_equal(fr, f_desc):
            bad("C11/result-frequencies", f"result of the {tag} call does not carry the unmasked frequencies in descending order (shapes {Zf.shape}, {fr.shape} vs {Zt.shape})")
            return None
        if not np.all(np.isfinite(Zf)):
            bad(f"C11/{clause}-modulus:{opt['smoothing']}:{opt['interpolation']}:{'Y' if opt['admittance'] else 'Z'}",
                f"reconstruction of the {tag} spectrum contains non-finite values")
            return None
        return r

    # ---- weighted / zero-weight sets (independent of the library's weight function)
    if win["kind"] == "named":
        inside, outside = _in_window(lf_desc, win["center"], win["width"])
        wset = ~outside  # superset of the weighted points (includes the edge band)
        zset = outside
    else:
        wv = np.array(win["weights"], dtype=float)
        wset = wv > 0
        zset = ~wset

    r0 = call(Zin, "base")
    st(f"{clause}:subcases")
    st(f"{clause}:cell:{cell}")
    st(f"{clause}:window:{wname}")
    st(f"{clause}:elem:{sub['model']['elem']}" if clause == "cp" else f"ladder:K={len(sub['model']['R'])}:{'RQ' if any(n < 1 for n in sub['model']['n']) else 'RC'}")
    st(f"{clause}:grid:{sub.get('grid')}")
    if sub["mask"]:
        st(f"{clause}:masked-subcases")
    meas = {"cell": cell, "window": wname}
    if r0 is None:
        return {"viol": viol, "evals": evals, "stats": stats, "maxobs": maxobs, "key": None, "meas": meas}
    Zf0 = np.asarray(r0.impedances)
    dev = np.abs(np.abs(Zf0) / np.abs(Zt) - 1)
    res = np.asarray(r0.residuals)
    rep = "Y" if opt["admittance"] else "Z"
    if clause == "cp":
        evals += 1
        worst = float(np.max(dev))
        mx(f"cp:{cell}", worst)
        mx(f"cp:elem:{sub['model']['elem']}", worst)
        mx("cp:residuals-attr", float(np.max(np.abs(res))))
        meas["dev"] = worst
        lr = np.log(np.abs(Zf0) / np.abs(Zt))
        shape = float(np.max(lr) - np.min(lr))
        mx(f"cp-shape:{opt['smoothing']}/{opt['interpolation']}", shape)
        meas["shape"] = shape
        if not shape <= TOL_CP_SHAPE:
            bad(f"C11/cp-shape:{opt['smoothing']}:{opt['interpolation']}:{rep}",
                f"constant-phase spectrum {sub['model']}: ln(|Z_fit|/|Z|) varies by {shape:.3e} over the spectrum (tolerance {TOL_CP_SHAPE})")
        if not worst <= TOL_CP:
            i = int(np.argmax(dev))
            bad(f"C11/cp-modulus:{opt['smoothing']}:{opt['interpolation']}:{rep}",
                f"constant-phase spectrum {sub['model']}: |Z_fit|/|Z|-1 = {dev[i]:.3e} at f={f_desc[i]:.6g} Hz (tolerance {TOL_CP})")
        # the residuals attribute is a second observation channel of the same quantity
        if res.shape != Zt.shape or not np.all(np.abs(res) <= 2 * TOL_CP):
            bad(f"C11/cp-residuals:{opt['smoothing']}:{opt['interpolation']}:{rep}",
                f"constant-phase spectrum {sub['model']}: max |residual| = {float(np.max(np.abs(res))):.3e}")
    else:
        evals += 1
        wl = _HOOKS["last_weights"] if win["kind"] == "named" else np.array(win["weights"], dtype=float)
        if wl is None or len(wl) != len(dev) or not np.any(wl > 0):
            st("ladder:no-weights-observed")
            sel = wset
        else:
            sel = wl >= 0.5 * np.max(wl)
        worst = float(np.max(dev[sel]))
        mx(f"ladder:{cell}", worst)
        mx("ladder:all-points(info)", float(np.max(dev)))
        meas.update(dev=worst, dev_all=float(np.max(dev)), dev_w=float(np.max(dev[wset])), nsel=int(sel.sum()))
        if not worst <= TOL_LADDER:
            i = int(np.argmax(np.where(sel, dev, -1)))
            bad(f"C11/ladder-modulus:{opt['smoothing']}:{opt['interpolation']}:{rep}",
                f"ladder {sub['model']}: |Z_fit|/|Z|-1 = {dev[i]:.3e} at f={f_desc[i]:.6g} Hz, a point with weight >= half the maximum (tolerance {TOL_LADDER})")

    if sub.get("do_rel"):
        rel = sub["rel"]
        # positions of the unmasked points in the input array, in result order
        # -- global scaling
        a = rel["scale"]
        r1 = call(Zin * a, "scaled")
        if r1 is not None:
            evals += 1
            q = np.abs(np.asarray(r1.impedances)) / np.abs(a * Zf0)
            d = float(np.max(np.abs(q - 1)))
            sp = float(np.ptp(np.log(q)))
            mx(f"scale:{clause}", d)
            mx("scale:shape", sp)
            meas["scale"] = d
            meas["scale_shape"] = sp
            if not (d <= (TOL_SCALE_CP if clause == "cp" else TOL_SCALE_LADDER) and sp <= TOL_REL_SHAPE):
                bad(f"C11/scaling:{clause}", f"Z*{a:.6g} does not scale the reconstruction by the same constant: max rel. deviation {d:.3e}, spread of the log ratio {sp:.3e}")
        if np.any(zset) and np.any(wset):
            # -- zero-weight points: arbitrary modulus factors, phase kept
            fac = np.ones(len(f))
            zexp = np.array(rel["zexp"][: len(order)], dtype=float)
            fac[order[zset]] = 2.0 ** zexp[zset]
            r2 = call(Zin * fac, "zero-weight-perturbed")
            if r2 is not None:
                evals += 1
                d = float(np.max(np.abs(np.abs(np.asarray(r2.impedances)) / np.abs(Zf0) - 1)))
                mx("weights:zero-weight-perturbation", d)
                st(f"weights:zero-perturb:{win['kind']}")
                meas["zero"] = d
                if not d <= TOL_ZERO:
                    bad(f"C11/offset-depends-on-zero-weight-points:{win['kind']}",
                        f"changing |Z| on {int(zset.sum())} points with zero weight changed the reconstruction by {d:.3e} (rel.)")
            # -- weighted points: all multiplied by b -> reconstruction * b everywhere
            b = rel["b"]
            fac = np.ones(len(f))
            fac[order[wset]] = b
            r3 = call(Zin * fac, "weighted-points-scaled")
            if r3 is not None:
                evals += 1
                q = np.abs(np.asarray(r3.impedances)) / np.abs(b * Zf0)
                d = float(np.max(np.abs(q - 1)))
                sp = float(np.ptp(np.log(q)))
                mx(f"weights:weighted-scaling:{clause}", d)
                mx("weights:weighted-scaling:shape", sp)
                st(f"weights:weighted-scale:{win['kind']}")
                meas["wscale"] = d
                meas["wscale_shape"] = sp
                if not (d <= (TOL_SCALE_CP if clause == "cp" else TOL_SCALE_LADDER) and sp <= TOL_REL_SHAPE):
                    bad(f"C11/offset-not-determined-by-weighted-points:{win['kind']}",
                        f"multiplying |Z| by {b} on the {int(wset.sum())} points inside the window should multiply the whole reconstruction by {b}: deviation {d:.3e}")
    m = sub["model"]
    if clause == "cp":
        pdec = int(np.floor(np.log10(m.get("R") or m.get("C") or m.get("L") or m.get("Y"))))
        key = ("cp", m["elem"], pdec, round(m.get("n", 0), 1), cell, wname, opt["num_points"], opt["polynomial_order"], len(f), len(sub["mask"]) > 0)
    else:
        key = ("ladder", len(m["R"]), tuple(round(float(np.log10(t)), 1) for t in m["tau"]), cell, wname, opt["num_points"], len(f))
    return {"viol": viol, "evals": evals, "stats": stats, "maxobs": maxobs, "key": key, "meas": meas}


# ------------------------------------------------------------------------------------------------
# direct calls: smoothers
# ------------------------------------------------------------------------------------------------
def in_core(sm, np_, order):
    if sm in ("none", "lowess"):
        return True
    ok = 0 < order < np_ <= 11 and order <= 9
    if sm == "modsinc":
        ok = ok and order % 2 == 0
    return ok


def linear_class(sm, np_, order):
    """Structural class of a (smoother, num_points, order) triple for the linear-sequence clause."""
    if sm == "savgol" and np_ % 2 == 0:
        return "savgol:even-num_points"
    if sm == "whithend" and order == 1:
        return "whithend:polynomial_order=1"
    if sm == "modsinc" and order >= 8 and np_ == order // 2:
        return "modsinc:order>=8,num_points=order/2"
    return sm


def smooth_one(sm, np_, order, it, lnw, seq):
    """Direct call through the module attribute. Returns ('ok', deviation) | ('raised', exc)."""
    import pyimpspec.analysis.zhit.smoothing as S

    _HOOKS["quiet"] = True
    try:
        with warnings.catch_warnings():
            warnings.simplefilter("ignore")
            out = S._smooth_phase(sm, int(np_), int(order), int(it), np.array(lnw, dtype=float), np.array(seq, dtype=float))
    except Exception as e:
        return "raised", e
    finally:
        _HOOKS["quiet"] = False
    out = np.asarray(out, dtype=float)
    if out.shape != np.shape(seq):
        return "ok", float("inf")
    d = np.abs(out - np.asarray(seq, dtype=float))
    return "ok", float(np.max(d)) if np.all(np.isfinite(d)) else float("inf")


def run_smooth(case):
    rng = np.random.default_rng(case["seed"])
    sm, np_ = case["smoother"], case["num_points"]
    viol, stats, maxobs, keys = [], {}, {}, []
    evals = 0
    lengths = [12, 25, 60] + [int(x) for x in rng.integers(12, 151, size=case.get("extra_lengths", 1))]
    for order in range(1, 11):
        core = in_core(sm, np_, order)
        for n in lengths:
            lnw_reg = np.log(2 * np.pi * 10.0 ** np.linspace(rng.uniform(3, 7), rng.uniform(-4, 0), n))
            lnw_irr = np.sort(rng.uniform(-8, 18, n))[::-1].copy()
            seqs = [("constant", np.full(n, rng.uniform(-np.pi, np.pi)), lnw_reg),
                    ("constant", np.full(n, float(rng.choice([0.0, -np.pi / 2, np.pi / 2, -np.pi / 4]))), lnw_reg),
                    ("constant", np.full(n, rng.uniform(-np.pi, np.pi)), lnw_reg if sm == "lowess" else lnw_irr)]
            for _ in range(2):
                a, b = rng.uniform(-np.pi, np.pi, 2)
                seqs.append(("linear", np.linspace(a, b, n), lnw_reg))
            a = rng.uniform(-1.5, 1.5)
            seqs.append(("linear", a + 1e-3 * rng.uniform(-1, 1) * np.arange(n), lnw_reg))
            if sm == "lowess":  # information only: irregular grid (robustness weights are driven by rounding noise there)
                status, val = smooth_one(sm, np_, order, 3, lnw_irr, np.full(n, 0.5))
                if status == "ok" and val == val and val != float("inf"):
                    maxobs["smooth:lowess-irregular-grid(info)"] = max(maxobs.get("smooth:lowess-irregular-grid(info)", 0.0), val)
            for kind, seq, lnw in seqs:
                it = int(rng.integers(1, 6))
                status, val = smooth_one(sm, np_, order, it, lnw, seq)
                wit = {"replay_case": {"kind": "smooth1", "smoother": sm, "num_points": np_, "order": order, "it": it,
                                       "lnw": [float(x) for x in lnw], "seq": [float(x) for x in seq], "seqkind": kind}}
                if status == "raised":
                    o = monitors.exception_origin(val)
                    stats[f"smooth:refused:{sm}"] = stats.get(f"smooth:refused:{sm}", 0) + 1
                    if core:
                        viol.append({"key": f"C11/smoother-raised:{sm}:{o['type']}",
                                     "msg": f"{sm}(num_points={np_}, order={order}) raised inside the core domain on a {kind} sequence of length {n}: {monitors.tb_tail(val)}",
                                     "witness": wit})
                    continue
                evals += 1
                stats[f"smooth:{kind}:{sm}"] = stats.get(f"smooth:{kind}:{sm}", 0) + 1
                keys.append(("smooth", sm, np_, order, kind, n))
                cls = linear_class(sm, np_, order) if kind == "linear" else sm
                name = f"smooth:{kind}:{cls}"
                if val == val and val != float("inf"):
                    maxobs[name] = max(maxobs.get(name, 0.0), val)
                if not val <= smooth_tol(sm):
                    viol.append({"key": f"C11/smooth-{kind}:{cls}",
                                 "msg": f"{sm}(num_points={np_}, order={order}) changed a {kind} sequence of length {n} by up to {val:.3e} rad (tolerance {smooth_tol(sm)})",
                                 "witness": wit})
    # keep one witness per key from this case
    seen, out = set(), []
    for v in viol:
        if v["key"] not in seen:
            seen.add(v["key"])
            out.append(v)
    return {"evals": evals, "keys": keys, "viol": out, "stats": stats, "maxobs": maxobs,
            "sample": {"kind": "smooth", "smoother": sm, "num_points": np_, "orders": "1..10", "lengths": lengths}}


# ------------------------------------------------------------------------------------------------
# direct calls: window weights
# ------------------------------------------------------------------------------------------------
def weights_one(lf, name, center, width):
    import pyimpspec.analysis.zhit.weights as Wm

    _HOOKS["quiet"] = True
    try:
        with warnings.catch_warnings():
            warnings.simplefilter("ignore")
            return "ok", Wm._generate_weights(np.array(lf, dtype=float), name, float(center), float(width))
    except Exception as e:
        return "raised", e
    finally:
        _HOOKS["quiet"] = False


def _ideal_window(name, u):
    """Continuous window shape at relative position u in [0,1] (information only)."""
    from scipy.signal import windows

    M = 2001
    return np.interp(u, np.linspace(0, 1, M), getattr(windows, name)(M))


def run_weights(case):
    rng = np.random.default_rng(case["seed"])
    viol, stats, maxobs, keys = [], {}, {}, []
    evals = 0
    for name in WINDOWS:
        for k in range(case["count"]):
            span = float(rng.uniform(2, 9))
            lo = float(rng.uniform(-4, 7.5 - span))
            lf = _grid(rng, str(rng.choice(["regular", "jitter", "random"])), lo, span, float(rng.uniform(3, 20)))[::-1].copy()
            mode = k % 3
            if mode == 0:  # anchored: a point in the central fifth
                width = float(10 ** rng.uniform(np.log10(0.5), np.log10(12)))
                center = float(lf[int(rng.integers(0, len(lf)))] + rng.uniform(-0.1, 0.1) * width)
            elif mode == 1:  # anywhere, any width (may miss the data entirely)
                width = float(10 ** rng.uniform(-2, 1.2))
                center = float(rng.uniform(lo - 2, lo + span + 2))
            else:  # edges exactly on data points / integer decades
                a, b = sorted(rng.choice(len(lf), 2, replace=False))
                hi_, lo_ = float(lf[a]), float(lf[b])
                if rng.random() < 0.5:
                    hi_, lo_ = float(np.ceil(hi_)), float(np.floor(lo_))
                width = max(hi_ - lo_, 0.05)
                center = (hi_ + lo_) / 2
            status, w = weights_one(lf, name, center, width)
            wit = {"replay_case": {"kind": "weights1", "name": name, "center": center, "width": width, "lf": [float(x) for x in lf]}}
            if status == "raised":
                o = monitors.exception_origin(w)
                stats[f"window:raised:{o['type']}"] = stats.get(f"window:raised:{o['type']}", 0) + 1
                if mode == 0:
                    viol.append({"key": f"C11/weights-raised:{o['type']}:{o['func']}",
                                 "msg": f"_generate_weights({name}, center={center}, width={width}) raised: {monitors.tb_tail(w)}", "witness": wit})
                continue
            evals += 1
            stats[f"window:direct:{name}"] = stats.get(f"window:direct:{name}", 0) + 1
            keys.append(("window", name, round(center, 2), round(width, 2), len(lf)))
            for suffix, msg in check_weights(lf, name, center, width, w):
                viol.append({"key": f"C11/weights:{suffix}", "msg": msg, "witness": wit})
            inside, _ = _in_window(lf, center, width)
            if width >= 2.0 and np.any(inside) and np.shape(w) == np.shape(lf):
                u = (lf[inside] - (center - width / 2)) / width
                d = float(np.max(np.abs(np.clip(_ideal_window(name, u), 0, 1) - np.asarray(w)[inside])))
                maxobs["window:shape-vs-continuous(info)"] = max(maxobs.get("window:shape-vs-continuous(info)", 0.0), d)
            if np.shape(w) == np.shape(lf):
                stats["window:positive-weights"] = stats.get("window:positive-weights", 0) + int(np.sum(np.asarray(w) > 0))
    seen, out = set(), []
    for v in viol:
        if v["key"] not in seen:
            seen.add(v["key"])
            out.append(v)
    return {"evals": evals, "keys": keys, "viol": out, "stats": stats, "maxobs": maxobs,
            "sample": {"kind": "weights", "windows": len(WINDOWS), "specs_per_window": case["count"]}}


# ------------------------------------------------------------------------------------------------
# runner API
# ------------------------------------------------------------------------------------------------
SIZES = {
    "quick": {"cp_cases": 120, "cp_count": 10, "ladder": 160, "weights_cases": 4, "weights_count": 9, "extra_lengths": 1, "twins": 32},
    "thorough": {"cp_cases": 1200, "cp_count": 10, "ladder": 1200, "weights_cases": 24, "weights_count": 15, "extra_lengths": 4, "twins": 320},
}


def gen_cases(tier, seed):
    s = SIZES[tier]
    cases = []
    for sm in SMOOTHERS:
        for np_ in range(1, 12):
            cases.append({"kind": "smooth", "smoother": sm, "num_points": np_, "seed": [int(seed), 1, len(cases)], "extra_lengths": s["extra_lengths"]})
    for i in range(s["weights_cases"]):
        cases.append({"kind": "weights", "seed": [int(seed), 2, i], "count": s["weights_count"]})
    rot = (int(seed) * 7) % 40
    for i in range(s["twins"]):
        cases.append({"kind": "twins", "seed": [int(seed), 5, i], "j": rot + i})
    for i in range(s["cp_cases"]):
        cases.append({"kind": "cp", "seed": [int(seed), 3, i], "first": rot + i * s["cp_count"], "count": s["cp_count"]})
    for i in range(s["ladder"]):
        cases.append({"kind": "ladder", "seed": [int(seed), 4, i], "j": rot + i, "tier": tier})
    return cases


def _merge(dst, src, fn):
    for k, v in src.items():
        dst[k] = fn(dst[k], v) if k in dst else v


def run_case(case):
    kind = case["kind"]
    if kind == "smooth":
        return run_smooth(case)
    if kind == "weights":
        return run_weights(case)
    if kind == "smooth1":
        status, val = smooth_one(case["smoother"], case["num_points"], case["order"], case["it"], case["lnw"], case["seq"])
        viol = []
        if status == "raised":
            if in_core(case["smoother"], case["num_points"], case["order"]):
                viol.append({"key": f"C11/smoother-raised:{case['smoother']}:{type(val).__name__}", "msg": monitors.tb_tail(val), "witness": {}})
        elif not val <= smooth_tol(case["smoother"]):
            cls = linear_class(case["smoother"], case["num_points"], case["order"]) if case["seqkind"] == "linear" else case["smoother"]
            viol.append({"key": f"C11/smooth-{case['seqkind']}:{cls}", "msg": f"deviation {val:.3e} rad", "witness": {}})
        return {"evals": 1, "keys": ["smooth1"], "viol": viol}
    if kind == "weights1":
        status, w = weights_one(case["lf"], case["name"], case["center"], case["width"])
        if status == "raised":
            o = monitors.exception_origin(w)
            return {"evals": 1, "viol": [{"key": f"C11/weights-raised:{o['type']}:{o['func']}", "msg": monitors.tb_tail(w), "witness": {}}]}
        return {"evals": 1, "keys": ["weights1"],
                "viol": [{"key": f"C11/weights:{s}", "msg": m, "witness": {}} for s, m in check_weights(case["lf"], case["name"], case["center"], case["width"], w)]}
    if kind == "twins":
        return run_twins(case)
    if kind == "twinseq":
        return _run_twin_subs(case["subs"], {"evals": 0, "keys": [], "viol": [], "stats": {}, "maxobs": {}}, {"replay_case": case})
    if kind == "one":
        r = run_sub(case["sub"])
        return {"evals": r["evals"], "keys": [r["key"]] if r["key"] else [], "viol": r["viol"], "stats": r["stats"], "maxobs": r["maxobs"]}
    rng = np.random.default_rng(case["seed"])
    if kind == "cp":
        subs = [gen_cp(rng, case["first"] + k) for k in range(case["count"])]
    else:
        subs = [gen_ladder(rng, case["j"], case["tier"])]
    out = {"evals": 0, "keys": [], "viol": [], "stats": {}, "maxobs": {}, "agg": []}
    for sub in subs:
        r = run_sub(sub)
        out["evals"] += r["evals"]
        if r["key"] is not None:
            out["keys"].append(r["key"])
        out["viol"].extend(r["viol"])
        _merge(out["stats"], r["stats"], lambda a, b: a + b)
        _merge(out["maxobs"], r["maxobs"], max)
        if kind == "ladder" and "dev" in r["meas"]:
            out["agg"].append(round(r["meas"]["dev"], 5))
    seen, keep = set(), []
    for v in out["viol"]:
        if v["key"] not in seen:
            seen.add(v["key"])
            keep.append(v)
    out["viol"] = keep
    s0 = subs[0]
    out["sample"] = {"clause": s0["clause"], "model": s0["model"], "opt": s0["opt"], "grid": s0.get("grid"), "n": len(s0["f"]),
                     "f_first_last": [s0["f"][0], s0["f"][-1]], "masked": len(s0["mask"]),
                     "window": {k: (v if k != "weights" else f"<{len(v)} weights, {sum(1 for x in v if x > 0)} positive>") for k, v in s0["win"].items()}}
    if not out["agg"]:
        out["agg"] = None
    return out


def finalize(agg):
    inc = []
    stats, mon = agg["stats"], agg["monitors"]
    for sm in SMOOTHERS:
        for ip in INTERPS:
            for rep in "ZY":
                if stats.get(f"cp:cell:{sm}/{ip}/{rep}", 0) == 0:
                    inc.append(f"constant-phase cell {sm}/{ip}/{rep} never exercised")
                if stats.get(f"ladder:cell:{sm}/{ip}/{rep}", 0) == 0:
                    inc.append(f"ladder cell {sm}/{ip}/{rep} never exercised")
    for w in WINDOWS:
        if stats.get(f"cp:window:{w}", 0) == 0 or stats.get(f"window:direct:{w}", 0) == 0:
            inc.append(f"window {w} never exercised")
    for p in CUSTOM:
        if stats.get(f"cp:window:custom:{p}", 0) == 0:
            inc.append(f"custom weight pattern {p} never exercised")
    for e in ELEMS:
        if stats.get(f"cp:elem:{e}", 0) == 0:
            inc.append(f"element {e} never exercised")
    for sm in SMOOTHERS:
        if stats.get(f"smooth:constant:{sm}", 0) == 0 or stats.get(f"smooth:linear:{sm}", 0) == 0:
            inc.append(f"smoother {sm}: no constant/linear sequence was accepted")
    for name in ("weights:zero-perturb:named", "weights:zero-perturb:custom", "weights:weighted-scale:named", "weights:weighted-scale:custom"):
        if stats.get(name, 0) == 0:
            inc.append(f"relation {name} never evaluated")
    if stats.get("grid_twins", 0) == 0:
        inc.append("no grid-twin sequence (same N and end frequencies, different interior, same named window, one process) was executed")
    if stats.get("harness-hook-error", 0) > 0:
        inc.append(f"{stats['harness-hook-error']} hook evaluation(s) failed inside the harness")
    if mon.get("hook:_smooth_phase:constant-input", 0) == 0 or mon.get("hook:_generate_weights", 0) == 0:
        inc.append("hooks on _smooth_phase/_generate_weights never fired inside perform_zhit")
    devs = sorted(x for a in agg["aggs"] if a for x in a)
    info = {}
    if devs:
        info = {"ladder_cases": len(devs), "ladder_median_dev": devs[len(devs) // 2], "ladder_p95_dev": devs[int(0.95 * (len(devs) - 1))], "ladder_max_dev": devs[-1]}
    # aggregate ladder clause: the per-case bound TOL_LADDER is a method-accuracy bound (intrinsic error of the two-term
    # series ~4 %); a systematic shift of a few percent (e.g. a wrong |gamma| that is not a sign flip) shows in the
    # distribution instead.  Observed on the unchanged tree over 3 quick seeds (160 ladder cases each): median
    # 0.0127-0.0139, 95th percentile 0.030-0.032.
    viol = []
    if len(devs) >= 100:
        if info["ladder_median_dev"] > LADDER_MEDIAN_MAX or info["ladder_p95_dev"] > LADDER_P95_MAX:
            viol.append({"key": "C11/ladder-modulus-distribution",
                         "msg": f"over {len(devs)} ladder cases the median deviation is {info['ladder_median_dev']:.4f} (allowed {LADDER_MEDIAN_MAX}) and the "
                                f"95th percentile {info['ladder_p95_dev']:.4f} (allowed {LADDER_P95_MAX})", "witness": info})
    return {"viol": viol, "inconclusive": inc, "info": info}
