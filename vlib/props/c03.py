"""C03 - circuit description codes mean one circuit, however they are spelled.

The generator is the oracle: an intended tree (vlib.gen_circuit) is materialised as real objects, serialised by the
library at 1..17 decimals, parsed back and compared in structural normal form (merge directly nested same-kind
connections, unwrap single-child series); re-serialisation must be a fixpoint, copies must serialise identically, and
every spelling variant produced by the grammar-directed printer must parse to the same normal form.

Latitude / preconditions (generator side):
 - values lie within their limits, and lower/upper limits stay distinguishable at the printed number of decimals
   (otherwise the *text* itself denotes lower == upper, which no parser could accept);
 - the exact-text fixpoint is required for decimals <= 14 and >= 16 (17+ significant digits identify a double, <= 15
   round-trip by IEEE-754; 16 significant digits do not in general) - at decimals == 15 only numeric closeness;
 - labels that cannot round-trip by design of the syntax (unbalanced braces; leading punctuation, whose rejection the
   repository's own test-suite pins) and degenerate connections (single-child parallel, empty nested connection) are
   generated only in dedicated probe cases and mapped to their own mechanism keys.
"""
import copy
import math

import numpy as np

from .. import gen_circuit as G
from .. import monitors

ID = "C03"
RULE = (
    "intended trees from vlib.gen_circuit (exhaustive topologies with <=4 (quick) / <=5 (thorough) leaves x random leaf "
    "assignments x every single-feature spelling toggle; random trees with 1..12 leaves, nested containers to depth 2, "
    "limit states {default, tight, +-inf, above/below class defaults, percentage, on-the-limit}, 9 label classes); each tree: "
    "object build -> to_string(d) for d in a sample of 1..17 -> parse -> normal-form comparison at the printed precision, "
    "fixpoint, copy/deepcopy, 6..20 spelling variants. Non-trivial = tree with >=1 non-default parameter state, label or "
    "container; distinct = distinct (normal-form shape, limit-state classes, label classes, decimals/variant flags)."
)
ASSUMPTIONS = [
    "IEEE-754 double <-> decimal conversions of CPython (repr round-trips; '%.17E' identifies a double)",
    "normal form: merging of directly nested same-kind connections and unwrapping of single-child series is the equivalence the property names",
    "the harness builds objects through the public setter API in an order-safe way",
]
SHARDS = 16
CASE_TIMEOUT = 300
MIN_EVALS = 500

FREQS = np.array([1e-3, 0.37, 11.0, 2.5e3, 8.1e5])
PARSE_ERRORS = None


def _errs():
    global PARSE_ERRORS
    if PARSE_ERRORS is None:
        from pyimpspec.exceptions import ParsingError, TokenizingError

        PARSE_ERRORS = (ParsingError, TokenizingError)
    return PARSE_ERRORS


def _tree_classes(tree):
    labels, states, subs = set(), set(), set()
    for e in G.iter_elements(tree):
        labels.add(G.label_class(e["label"].strip()))
        for s in e.get("_states", []):
            states.add(s)
        for k, v in e.get("subs", {}).items():
            subs.add("open" if v is None else ("short" if G.count_elements(v) == 0 else "tree"))
    return labels, states, subs


def _finding_key(tree):
    """Mechanism key for the by-design limitations; only trees from the dedicated probe cases can carry these."""
    labels, _, _ = _tree_classes(tree)
    if "unbalanced-brace" in labels:
        return "C03/label-unbalanced-brace"
    if "lead-punct" in labels:
        return "C03/label-leading-punctuation"
    if _degenerate(tree):
        return "C03/degenerate-connection"
    return None


def _degenerate(node, top=True):
    if node is None or node["t"] == "E":
        if node is not None:
            return any(_degenerate(v, True) for v in node.get("subs", {}).values() if v is not None and G.count_elements(v) > 0)
        return False
    if node["t"] == "P" and len(node["c"]) < 2:
        return True
    if not top and len(node["c"]) == 0:
        return True
    return any(_degenerate(c, False) for c in node["c"])


def _is_normal(node, top=False, sub=False):
    """True if the intended tree is already in the form the parser produces (no directly nested same-kind connections,
    no single-child series except the circuit's own top-level series / a sub-circuit holding one element)."""
    if node is None:
        return True
    if node["t"] == "E":
        return all(_is_normal(v, sub=True) for v in node.get("subs", {}).values())
    if node["t"] == "S" and len(node["c"]) == 1 and not top:
        if not (sub and node["c"][0]["t"] == "E"):
            return False
    if node["t"] == "S" and len(node["c"]) == 0 and not (top or sub):
        return False
    for c in node["c"]:
        if c["t"] == node["t"]:
            return False
        if not _is_normal(c):
            return False
    return True


def _limits_distinct(tree, d):
    for e in G.iter_elements(tree):
        for k, (v, lo, hi, fx) in e["p"].items():
            lo, hi, v = G.dec(lo), G.dec(hi), G.dec(v)
            if math.isinf(lo) or math.isinf(hi):
                continue
            if float((f"%.{d}E") % lo) >= float((f"%.{d}E") % hi):
                return False
    return True


def _simulate(c):
    from pyimpspec.exceptions import ImpedanceError

    try:
        with np.errstate(all="ignore"):
            return c.get_impedances(FREQS)
    except Exception:
        # limit states deliberately include unphysical values (negative exponents ...): any refusal counts as
        # "does not simulate"; the round-trip clause only compares circuits that both simulate or both refuse
        return None


_REFUSED = ["R{R=25:stale}X", "(RC", "[RC", "R{R=1,R=2}C", None, "R{R=5:lbl}C{C=1e-6}(", "[R(C[LR", "Tlm{X_1=RC,X_1=R}", "RC)", None, "R{R=2/3/1}", "(R{R=7}Q{n=2})"]

def check_tree(tree, rng, decimals_list, variants, st, probe=False):
    """Returns list of violations for one intended tree."""
    from pyimpspec import parse_cdc as _real_parse_cdc

    calls = [0]
    hostile_every = 1 if G.count_elements(tree) == 0 else 3

    def parse_cdc(text):
        """history clause: a code means the same circuit whatever the parser was asked before - every n-th valid parse is
        preceded by a call the parser must refuse part-way (after it has already consumed elements / brackets)"""
        calls[0] += 1
        if not probe and calls[0] % hostile_every == 0:
            junk = _REFUSED[(calls[0] // hostile_every) % len(_REFUSED)]
            junk = junk if junk is not None else text[: max(1, (2 * len(text)) // 3)] + "("
            try:
                _real_parse_cdc(junk)
                st["hostile_parse_accepted"] = st.get("hostile_parse_accepted", 0) + 1
            except Exception:
                st["refused_parse_before_valid_parse"] = st.get("refused_parse_before_valid_parse", 0) + 1
        return _real_parse_cdc(text)

    viol = []
    fkey = _finding_key(tree) if probe else None
    enc_tree = tree

    def bad(key, msg, text=None):
        viol.append({"key": fkey or key, "msg": msg + (f" | text={text[:300]!r}" if text else ""),
                     "witness": {"tree": G.brief(G.nf(tree)), "text": text, "replay_case": {"kind": "tree", "tree": enc_tree, "decimals": decimals_list, "variants": variants, "probe": probe}}})

    want = G.nf(tree)
    try:
        c_obj = G.build_objects(tree)
    except Exception as e:
        bad(f"C03/object-build-raised:{type(e).__name__}", monitors.tb_tail(e))
        return viol
    d0 = G.compare_nf(want, G.nf_of_circuit(c_obj), 0.0)
    st["obj_compare"] = st.get("obj_compare", 0) + 1
    if d0:
        bad("C03/object-route-differs", f"objects built through the public API present a different circuit: {d0}")
        return viol

    for d in decimals_list:
        if not _limits_distinct(tree, d):
            st["skipped_limits_collapse_at_d"] = st.get("skipped_limits_collapse_at_d", 0) + 1
            continue
        try:
            text = c_obj.to_string(d)
            ser = c_obj.serialize(d)
        except Exception as e:
            bad(f"C03/serialize-raised:{type(e).__name__}", monitors.tb_tail(e))
            continue
        if ser != "!V=1!" + text:
            bad("C03/serialize-header", f"serialize() != '!V=1!' + to_string(): {ser[:60]!r}")
        try:
            c1 = parse_cdc(ser)
        except Exception as e:
            bad(f"C03/parse-of-serialised-raised:{type(e).__name__}", f"d={d}: {type(e).__name__}: {e}", ser)
            continue
        st["roundtrips"] = st.get("roundtrips", 0) + 1
        rel = 0.51 * 10.0 ** (-d) + 5e-16
        diff = G.compare_nf(want, G.nf_of_circuit(c1), rel)
        if diff:
            bad("C03/roundtrip-differs", f"d={d}: parse(serialize(c)) differs: {diff}", ser)
            continue
        t2 = c1.to_string(d)
        if d != 15:
            # identical text is demanded of circuits that are already in the parser's normal form; for the others
            # (merging of nested connections is explicitly allowed) the text must be stable after one round
            if _is_normal(tree, top=True):
                st["fixpoint_strict"] = st.get("fixpoint_strict", 0) + 1
                ref, got, what = text, t2, "re-serialised text differs"
            else:
                st["fixpoint_after_one_round"] = st.get("fixpoint_after_one_round", 0) + 1
                try:
                    ref, got, what = t2, parse_cdc(t2).to_string(d), "text is not stable after one round"
                except Exception as e:
                    ref, got, what = t2, f"<{type(e).__name__}: {e}>", "re-parsing the re-serialised text raised"
            if got != ref:
                i = next((j for j in range(min(len(got), len(ref))) if got[j] != ref[j]), min(len(got), len(ref)))
                bad("C03/reserialise-not-identical", f"d={d}: {what} at char {i}: ...{ref[max(0,i-30):i+30]!r} vs ...{got[max(0,i-30):i+30]!r}", text)
        for nm, cp in (("deepcopy", copy.deepcopy), ("copy", copy.copy)):
            try:
                cc = cp(c_obj)
                tc = cc.to_string(d)
            except Exception as e:
                bad(f"C03/{nm}-raised:{type(e).__name__}", monitors.tb_tail(e))
                continue
            if tc != text:
                bad(f"C03/{nm}-serialises-differently", f"d={d}: {nm}(c).to_string differs: {tc[:200]!r} vs {text[:200]!r}")
        if d == 17:
            z0, z1 = _simulate(c_obj), _simulate(c1)
            if (z0 is None) != (z1 is None):
                bad("C03/impedance-differs", "one of original/parsed circuit simulates, the other refuses", ser)
            elif z0 is not None:
                st["z_compared"] = st.get("z_compared", 0) + 1
                if not np.allclose(z0, z1, rtol=1e-9, atol=0):
                    bad("C03/impedance-differs", f"impedances differ after round trip: {z0[:2]} vs {z1[:2]}", ser)

    # history clause: serialisation follows later changes (no stale text) and a deep copy is independent of them
    if not fkey:
        try:
            els = list(c_obj.generate_element_identifiers(running=True))
            target = None
            for e in els[::-1]:
                for k, val in e.get_values().items():
                    trial = val * 1.25 if val != 0 else 0.5
                    if e.get_lower_limit(k) <= trial <= e.get_upper_limit(k) and math.isfinite(trial) and trial != val:
                        target = (e, k, val, trial)
                        break
                if target:
                    break
            if target:
                e, k, val, trial = target
                before17 = c_obj.to_string(17)
                dc = copy.deepcopy(c_obj)
                e.set_values(k, trial)
                after17 = c_obj.to_string(17)
                st["mutate_then_serialise"] = st.get("mutate_then_serialise", 0) + 1
                if dc.to_string(17) != before17:
                    bad("C03/deepcopy-not-independent", f"changing {e.get_symbol()}.{k} of the original changed the deep copy's serialisation")
                c2 = parse_cdc(after17)
                got = [x for x in c2.generate_element_identifiers(running=True)]
                idx = els.index(e)
                if after17 == before17 or len(got) != len(els) or got[idx].get_value(k) != trial:
                    bad("C03/stale-serialisation", f"after {e.get_symbol()}.set_values({k}={trial!r}) the serialisation does not carry the new value")
                e.set_values(k, val)
        except Exception as ex:
            bad(f"C03/mutate-then-serialise-raised:{type(ex).__name__}", monitors.tb_tail(ex))

    for v in variants:
        text = G.print_cdc(tree, 17, v, rng)
        try:
            cv = parse_cdc(text)
        except Exception as e:
            flags = "+".join(sorted(k for k, val in v.items() if val and k != "header"))
            bad(f"C03/variant-parse-raised:{type(e).__name__}", f"variant [{flags}] header={v.get('header')!r}: {type(e).__name__}: {e}", text)
            continue
        st["variants"] = st.get("variants", 0) + 1
        diff = G.compare_nf(want, G.nf_of_circuit(cv), 2e-15)
        if diff:
            flags = "+".join(sorted(k for k, val in v.items() if val and k != "header"))
            bad(f"C03/variant-differs:{flags if len(flags) < 40 else 'multi'}", f"spelling variant [{flags}] header={v.get('header')!r} parses to a different circuit: {diff}", text)
    return viol


def _strip(tree):
    """drop private annotation keys so the tree is JSON-clean"""
    return tree


def gen_cases(tier, seed):
    cases = []
    maxl = 4 if tier == "quick" else 5
    for n in range(1, maxl + 1):
        ntop = len(G.topologies(n)) if n > 1 else 1
        per = 8 if tier == "quick" else 10
        for i in range(0, ntop, per):
            cases.append({"kind": "exh", "n": n, "lo": i, "hi": min(ntop, i + per), "seed": [int(seed), 1, n, i], "assign": 3 if tier == "quick" else 8})
    nr = 640 if tier == "quick" else 6000
    for i in range(nr):
        cases.append({"kind": "rand", "seed": [int(seed), 2, i], "count": 6})
    for i in range(8 if tier == "quick" else 40):
        cases.append({"kind": "probe", "seed": [int(seed), 3, i], "count": 8})
    # the smallest circuit of all: no elements (its header-carrying serialisation '!V=1![]' takes a path of its own in the parser)
    cases.append({"kind": "tree", "tree": {"t": "S", "c": []}, "decimals": [1, 12, 17], "variants": G.single_flag_variants()})
    return cases


def setup_shard():
    G.catalogue()


def run_case(case):
    st = {}
    viol = []
    keys = []
    evals = 0
    sample = None
    if case["kind"] == "tree":
        rng = np.random.default_rng(0)
        viol = check_tree(case["tree"], rng, case["decimals"], case["variants"], st, probe=case.get("probe", False))
        return {"evals": 1, "keys": [G.brief(G.nf(case["tree"]))], "viol": viol, "stats": st}
    rng = np.random.default_rng(case["seed"])
    trees = []
    if case["kind"] == "exh":
        tops = G.topologies(case["n"])[case["lo"]:case["hi"]]
        simple = [s for s in G.all_symbols()]
        for shape in tops:
            for a in range(case["assign"]):
                mode = "states" if a % 2 == 0 else "physical"
                t = G.random_tree(rng, case["n"], mode=mode, shape=shape, max_sub_depth=1, leaf_syms=simple)
                trees.append((t, [12, int(rng.integers(1, 18))], G.single_flag_variants()))
    elif case["kind"] == "rand":
        for _ in range(case["count"]):
            n = int(rng.choice([1, 2, 3, 4, 5, 6, 8, 12], p=[0.1, 0.15, 0.2, 0.15, 0.15, 0.1, 0.1, 0.05]))
            t = G.random_tree(rng, n, mode="states", max_sub_depth=2)
            ds = sorted(set([12, 17] + [int(x) for x in rng.integers(1, 18, size=2)]))
            nv = int(rng.integers(6, 21)) if n <= 6 else 6
            trees.append((t, ds, [G.random_variant(rng) for _ in range(nv)]))
    elif case["kind"] == "probe":
        for _ in range(case["count"]):
            r = rng.random()
            if r < 0.6:  # labels that cannot round-trip by design
                cls = ["unbalanced-brace", "lead-punct"][int(rng.integers(0, 2))]
                t = {"t": "S", "c": [G.make_element_spec(rng, str(rng.choice(["R", "C", "Q"])), mode="physical", label_classes=[cls])]}
                if rng.random() < 0.5:
                    t["c"].append(G.make_element_spec(rng, "L", mode="physical", label_classes=["none"]))
            else:  # degenerate connections, reachable through the object route only
                e1 = G.make_element_spec(rng, "R", mode="physical", label_classes=["none"])
                e2 = G.make_element_spec(rng, "C", mode="physical", label_classes=["none"])
                t = [
                    {"t": "S", "c": [{"t": "P", "c": [e1]}]},
                    {"t": "S", "c": [e1, {"t": "S", "c": []}]},
                    {"t": "S", "c": [{"t": "P", "c": [e1, {"t": "S", "c": []}]}, e2]},
                    {"t": "S", "c": [e2, {"t": "P", "c": []}]},
                ][int(rng.integers(0, 4))]
            trees.append((t, [12], []))
    for t, ds, vs in trees:
        v = check_tree(t, rng, ds, vs, st, probe=(case["kind"] == "probe"))
        viol.extend(v)
        evals += len(ds) + len(vs) + 1
        labels, states, subs = _tree_classes(t)
        for x in labels:
            st["label:" + x] = st.get("label:" + x, 0) + 1
        for x in states:
            st["limits:" + x] = st.get("limits:" + x, 0) + 1
        for x in subs:
            st["sub:" + x] = st.get("sub:" + x, 0) + 1
        st["trees"] = st.get("trees", 0) + 1
        if len(labels | states | subs) > 2 or any(s != "default" for s in states):
            keys.append((G.brief(G.nf(t)), tuple(sorted(labels)), tuple(sorted(states)), tuple(ds), len(vs)))
        if sample is None:
            c = G.build_objects(t) if not viol else None
            sample = {"tree": G.brief(G.nf(t)), "decimals": ds, "variant_example": G.print_cdc(t, 17, vs[0], rng)[:300] if vs else None,
                      "canonical_12": c.to_string(12)[:300] if c is not None else None}
    return {"evals": evals, "keys": keys, "viol": viol[:12], "stats": st, "sample": sample}


def finalize(agg):
    inc = []
    s = agg["stats"]
    for need in ("roundtrips", "variants", "z_compared", "refused_parse_before_valid_parse"):
        if s.get(need, 0) == 0:
            inc.append(f"deciding comparison '{need}' never ran")
    return {"viol": [], "inconclusive": inc}
