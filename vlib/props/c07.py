"""C07 - Kramers-Kronig tests reproduce exactly any spectrum of their own model.

Shape: generator-is-the-oracle.  The harness draws the variables of the test's own equivalent circuit (series/parallel
R, one R_k|C_k per time constant, optional C and L), computes the spectrum with an independent implementation of the
documented model and time-constant formula (vlib/kk_model.py, no pyimpspec code), hands it to the REAL
perform_kramers_kronig_test(num_RC=n, num_F_ext_evaluations=0, log_F_ext=x, num_procs=1) and compares what comes back:

  residuals   max |Re|,|Im| of result.residuals, and of (Z_model - result.impedances)/|Z_model|        <= RES_TOL
  tau         result.time_constants and the tau of the circuit's RC elements == independently computed tau_k
  parameters  R, R_k|C_k, C, L read from result.circuit, compared in the variables in which the model is linear,
              each error weighted with that term's largest contribution to the spectrum and divided by the largest
              contribution of all terms                                                               <= PAR_TOL
  bookkeeping num_RC, representation and test label are the requested ones; pseudo chi-squared ~ 0
  log_F_ext   result.get_log_F_ext() reports the requested extension (LOGF_TOL; skipped where the limits of eq. 12 cross,
              the accessor is only defined for ascending time constants)
  completion  the call returns (any exception is a violation, inside or outside the gate)

Option types.  Every second instance passes its options as NumPy scalars (numpy.bool_ add_capacitance / add_inductance /
admittance, numpy.int64 num_RC / num_RCs / num_procs, numpy.float64 log_F_ext) on every route: the library's own type
checks accept them, so type variants of one value must give the same result.  A NumPy type that the library refuses up
front (explicit TypeError) is counted ("options:numpy_types_refused") and the call repeated with Python types.

Routes.  Every instance goes through perform_kramers_kronig_test; a fixed share (about 1/40 each, chosen from the case
index) ALSO goes through the other public entry points that perform a fixed-extension test, with the same clauses:
perform_exploratory_kramers_kronig_tests(num_RCs=[n-1, n, n+1]) (the result with n RC elements is picked from the list)
and evaluate_log_F_ext(num_RCs=[n]).  Violations seen only there carry an '@exploratory' / '@evaluate' key suffix.  An
exception raised inside the suggestion heuristics (analysis/kramers_kronig/algorithms/*) that the exploratory route
runs on the result list is not part of this property: the route is counted as unavailable for that instance.

The quantifier's "well-conditioned design matrix" is a precondition of the *instance*, decided before the library is
called from statistics of the harness's own matrices (kk_model.gate_stats, see GATE).  Instances outside the gate are
still executed (must complete, bookkeeping and tau still checked) but their residuals are only reported.

Latitude (what the statement does not fix, so the oracle does not demand it):
 - nothing about residual size for ill-conditioned instances (outside the gate);
 - the sign/size of a parameter whose contribution to the spectrum is below PAR_TOL of the largest term;
 - cnls is an iterative optimiser started from fixed values: it is only asked to reproduce spectra whose parameters
   lie within a decade of those start values, to CNLS_*_TOL (its termination criteria, not rounding, set the level).
8 % of the instances have some generating variables exactly zero (element absent from the generating circuit; counted as
"regime:absent-element" in the evidence, judged like every other instance).
Side regimes get their own mechanism keys (structural features of the instance, never seeds or values):
 - '<real-inv|imaginary-inv|complex-inv>-placeholder-constants'  the matrix-inversion tests leave hard-coded 1e-18 / 1e18
   placeholders in C, L (real-inv), the parallel R (imaginary-inv on admittance) or - any -inv test on admittance - in a
   parallel R / L whose fitted 1/R, 1/L is exactly 0.0 (element absent from the spectrum); instances where the
   harness predicts their effect above ARTEFACT_MAX (kk_model.placeholder_artefact) are judged under that key.
 - cnls cells (Y, any options) and (Z, add_capacitance) have their own keys 'cnls-admittance-local-minimum' and
   'cnls-impedance-capacitance-local-minimum' (optimiser stalls from the fixed start values).
"""
import json
import warnings

import numpy as np

from .. import kk_model as km
from .. import monitors

ID = "C07"
RULE = (
    "instances drawn from rng([seed, block, case]) for every legal cell (7 tests x {Z,Y} x add_capacitance x add_inductance; "
    "'-inv' tests always with L; 44 cells): grid 3..20 points/decade (30% jittered) over 1.5..10 decades anywhere in "
    "1e-7..1e12 Hz, ascending or descending input, log_F_ext in [-1,1] (incl. 0 and +-1; plus, per case and linear cell, one narrow 1..1.7-decade grid with log_F_ext in "
    "[-1,-0.5] whose tau limits cross so that the documented tau_k descend), num_RC from 2 up to 3 (complex) "
    "or 2 (real/imaginary) time constants per decade with #unknowns <= 0.75 #equations, variables with sign patterns "
    "(all +, all -, alternating, random), 0..6 decades spread (in contribution or in raw parameter space), overall scale "
    "1e-4..1e4, 8% with exact zeros; cnls: parameters within a decade of its start values, random signs of R_k|C_k. "
    "Spectrum from the harness's own model. Every second instance passes its options as NumPy scalars (bool_, int64, float64). About 1/40 of the linear instances each are additionally run through "
    "perform_exploratory_kramers_kronig_tests(num_RCs=[n-1,n,n+1]) and evaluate_log_F_ext(num_RCs=[n]). The deciding comparison (residuals, parameters) runs on instances inside "
    "the conditioning gate; tau/reported log_F_ext/bookkeeping/completion on all. A case is non-trivial when inside the gate; distinct = "
    "distinct (cell, N, num_RC, log_F_ext, variables) keys."
)
ASSUMPTIONS = [
    "numpy complex arithmetic and SVD are the trusted base of the reference model and of the conditioning gate",
    "reference model vlib/kk_model.py (time constants, Fig. 1 / Fig. 13 circuits; self-checked at import against hand-computed values)",
    "conditioning gate: first-order backward-error bound kappa (kk_model.gate_stats); thresholds calibrated on the unchanged tree and frozen",
    "DataSet presents frequencies in descending order (C05)",
]
SHARDS = 16
CASE_TIMEOUT = 900
MIN_EVALS = 1000

RES_TOL = 1e-4        # linear variants: max |relative residual| (Re or Im part)
PAR_TOL = 1e-4        # linear variants: contribution-weighted parameter error relative to the largest term
TAU_TOL = 1e-10       # relative
LOGF_TOL = 1e-6       # result.get_log_F_ext() vs requested (observed <= 1e-14)
CNLS_RES_TOL = 1e-2
CNLS_PAR_TOL = 1e-1
ARTEFACT_MAX = 3e-7   # predicted effect (rel. residual) of the -inv placeholder constants above which the instance is keyed separately;
                      # 300x below RES_TOL/PAR_TOL; corresponds to |Z|*omega > 3e11 (real-inv) or |Z| > 3e11 ohm (imaginary-inv on Y)

# Conditioning gate.  ratio and perdec are the property's own words (DESIGN C07 (i), (ii)); the rest bounds the rounding
# error of the solver class in units of machine epsilon (kk_model.gate_stats):
#   lstsq (complex/real/imaginary): numpy.linalg.lstsq on the unweighted systems; cond guards its rank decision
#   pinv  (real-inv/imaginary-inv): pseudo-inverse of the row-scaled systems
#   inv   (complex-inv): inverse of the normal equations -> column-normalised condition number (squared by the method)
#   cnls  : termination-limited; kept where the weighted problem is benign
GATE = {
    "ratio": 0.75,
    "perdec": {"complex": 3.0, "real": 2.0, "imaginary": 2.0},
    "lstsq": {"kappa": 1e7, "kpar": 1e7, "cond": 1e10},
    "pinv": {"kappa": 1e7, "kpar": 1e7, "cond": 1e10},
    "inv": {"condn": 1e2},
    "cnls": {"kappan": 1e4, "kparn": 1e3, "condn": 1e4},
}

LINEAR_TESTS = km.TESTS[:6]


def cells(tests):
    out = []
    for t in tests:
        for adm in (False, True):
            for c in (False, True):
                for l in ((True,) if t.endswith("-inv") else (False, True)):
                    out.append((t, adm, c, l))
    return out


LIN_CELLS = cells(LINEAR_TESTS)
CNLS_CELLS = cells(("cnls",))


def cell_name(t, adm, c, l):
    return f"{t}/{'Y' if adm else 'Z'}/{'C' if c else '-'}{'L' if l else '-'}"


def in_gate(test, st):
    kind = km.base_kind(test)
    if not (st["ratio"] <= GATE["ratio"] and st["perdec"] <= GATE["perdec"][kind] + 1e-9 and np.isfinite(st["dyn"])):
        return False
    return all(st[k] <= v for k, v in GATE[km.solver_class(test)].items())


# ------------------------------------------------------------------------------------------------
# instance generation (concrete and JSON-able)
# ------------------------------------------------------------------------------------------------
def gen_instance(rng, cell, tier, crossing=False):
    """crossing=True: narrow range (1..2 decades) with log_F_ext in [-1,-0.5] such that tau_min > tau_max (the limits of
    eq. 12 cross and the time constants run from large to small) - an ordinary member of the quantifier."""
    test, adm, add_c, add_l = cell
    kind = km.base_kind(test)
    thorough = tier == "thorough"
    cn = test == "cnls"
    ppd = int(rng.integers(3, 21))
    dec = float(rng.uniform(1.5, 10.0) if thorough else rng.uniform(2.0, 8.0))
    if crossing:
        dec = float(rng.uniform(1.0, 1.5))
        ppd = int(rng.integers(6, 21))
    nmax_pts = 60 if cn else (160 if thorough else 110)
    N = max(min(int(round(ppd * dec)) + 1, nmax_pts), 7)
    dec = (N - 1) / ppd
    if cn:
        # cnls starts from C=1e-6 F, L=1e-3 H: window in which such elements are visible next to R ~ 1 ohm
        # (series C: 1/(wC) ~ R above ~1e4 Hz; series L: wL ~ R below ~1e3 Hz; both: around the LC resonance, 5 kHz)
        lo_rng, dmax = (0.5, 3.0), 5.0
        if not adm:
            lo_rng, dmax = {(True, False): ((3.0, 4.5), 4.0), (False, True): ((0.5, 2.0), 3.0), (True, True): ((2.5, 3.3), 2.5)}.get((add_c, add_l), ((0.5, 3.0), 5.0))
        dec = min(dec, dmax)
        N = max(min(int(round(ppd * dec)) + 1, nmax_pts), 7)
        dec = (N - 1) / ppd
        lo = float(rng.uniform(*lo_rng))
    elif rng.random() < 0.7:
        lo = float(rng.uniform(-4.0, 1.0))  # usual laboratory window
    else:
        lo = float(rng.uniform(-7.0, 12.0 - dec))
    logf = lo + np.arange(N) / ppd
    if rng.random() < 0.3:  # jittered grid, still strictly increasing
        logf = logf + rng.uniform(-0.3, 0.3, size=N) / ppd
    f = 10.0**logf
    u = rng.random()
    x = 0.0 if u < 0.1 else (1.0 if u < 0.15 else (-1.0 if u < 0.2 else float(rng.uniform(-1, 1))))
    dec = float(logf[-1] - logf[0])
    if crossing:
        # tau range of at least 0.25 decades after the crossing (log10(tau_max/tau_min) = dec + 2x <= -0.25)
        hi = min(-0.5, -(dec + 0.25) / 2)
        x = float(rng.uniform(-1.0, hi)) if hi > -1.0 else -1.0
    elif dec + 2 * x < 1.0:
        x = float((1.0 - dec) / 2 + 0.01)
    tdec = abs(dec + 2 * x)
    extra = int(add_c) + int(add_l)
    nmax = int(np.floor(GATE["perdec"][kind] * tdec + 1e-9)) + 1
    if kind == "complex":
        nmax = min(nmax, int(np.floor(0.75 * 2 * N)) - 1 - extra)
    elif kind == "real":
        nmax = min(nmax, int(np.floor(0.75 * N)) - 1)
    else:
        nmax = min(nmax, int(np.floor(0.75 * N)) - extra)
    nmax = min(nmax, 2 * N - 5)
    if test.endswith("-inv"):
        nmax = min(nmax, N + 10)
    if cn:
        nmax = min(nmax, 8)
    nmax = max(nmax, 2)
    n = int(rng.integers(2, nmax + 1))
    if rng.random() < 0.35:  # favour sparse models as well
        n = int(rng.integers(2, max(2, min(nmax, int(tdec) + 1)) + 1))
    tau = km.taus(f, n, x)
    nv = 1 + n + extra
    B = np.abs(km.basis(f, tau, adm, add_c, add_l)).max(axis=0)
    pat = int(rng.integers(0, 5))
    if pat == 0:
        sign = np.ones(nv)
    elif pat == 1:
        sign = -np.ones(nv)
    elif pat == 2:
        sign = np.array([(-1.0) ** i for i in range(nv)])
    else:
        sign = rng.choice([-1.0, 1.0], size=nv)
    if cn:
        # within a decade of the fixed start values R=1, R_k|C_k=1, C=1e-6, L=1e-3 (the circuit's own parameters)
        par = 10.0 ** rng.uniform(-1, 1, size=nv)
        p = {"R": par[0], "k": list(par[1 : 1 + n])}
        if add_c:
            p["C"] = 1e-6 * par[1 + n]
        if add_l:
            p["L"] = 1e-3 * par[nv - 1]
        var = km.params_to_variables(p, adm, add_c, add_l)
        if rng.random() < 0.5:
            var[1 : 1 + n] *= sign[1 : 1 + n]
        mode, span = 9, 1.0
    else:
        span = float(rng.uniform(0, 6)) if thorough else float(rng.choice([0.0, 1.0, 3.0, 6.0]))
        scale = 10.0 ** rng.uniform(-4, 4)
        mag = scale * 10.0 ** rng.uniform(-span, 0, size=nv)
        mode = int(rng.random() < 0.4)
        if mode == 0:  # magnitudes of the largest contribution of every term
            var = sign * mag / B
        else:  # magnitudes of R, R_k|C_k themselves; C and L sized like the largest RC contribution
            var = sign * mag
            top = (np.abs(var[1 : 1 + n]) * B[1 : 1 + n]).max()
            for j in range(1 + n, nv):
                var[j] = sign[j] * top * 10.0 ** rng.uniform(-min(span, 3.0), 0) / B[j]
        if rng.random() < 0.08:  # exact zeros: element absent from the generating circuit
            z = rng.random(nv) < 0.3
            z[1 + int(rng.integers(0, n))] = False
            var = np.where(z, 0.0, var)
    with np.errstate(all="ignore"):
        Z = km.impedance(f, tau, var, adm, add_c, add_l)
    if not (np.all(np.isfinite(Z.real)) and np.all(np.isfinite(Z.imag)) and np.abs(Z).min() > 0):
        return gen_instance(rng, cell, tier, crossing)  # exact cancellation to 0 or overflow: not a spectrum; draw again
    asc = bool(rng.random() < 0.5)
    ff, ZZ = (f, Z) if asc else (f[::-1], Z[::-1])
    return {
        "test": test, "adm": bool(adm), "add_c": bool(add_c), "add_l": bool(add_l), "num_RC": n, "log_F_ext": float(x),
        "f": [float(v) for v in ff], "Z": [[float(z.real), float(z.imag)] for z in ZZ], "var": [float(v) for v in var],
        "meta": {"ppd": ppd, "lo": lo, "pat": pat, "mode": mode, "span": span, "asc": asc, "crossing": bool(crossing)},
    }


# ------------------------------------------------------------------------------------------------
# execution + oracle
# ------------------------------------------------------------------------------------------------
ROUTES = ("main", "exploratory", "evaluate")


class RouteResultMissing(Exception):
    pass


NP_REFUSED = {}  # option-type refusals seen in this process: "<route>:<ExcText>" -> count (run_case reports the delta)


def run_route(f, Z, test, num_RC, add_c, add_l, adm, log_F_ext, route="main", np_types=False):
    """np_types=True: the same option values are passed as NumPy scalars (numpy.bool_ flags, numpy.int64 num_RC / num_RCs /
    num_procs, numpy.float64 log_F_ext) - type variants of one value must give the same result.  If the library refuses
    such a type up front (explicit `raise TypeError` in pyimpspec), that is counted and the call is repeated with Python
    types (not a violation)."""
    if np_types:
        try:
            return _run_route(f, Z, test, num_RC, add_c, add_l, adm, log_F_ext, route, True)
        except TypeError as e:
            o = monitors.exception_origin(e)
            if not (o["in_tree"] and o["is_raise"]):
                raise
            k = f"{route}:{o['func']}"
            NP_REFUSED[k] = NP_REFUSED.get(k, 0) + 1
    return _run_route(f, Z, test, num_RC, add_c, add_l, adm, log_F_ext, route, False)


def _run_route(f, Z, test, num_RC, add_c, add_l, adm, log_F_ext, route, np_types):
    """One KramersKronigResult for (num_RC, log_F_ext fixed, num_F_ext_evaluations=0) through one of the public routes:
      main         perform_kramers_kronig_test(num_RC=n)
      exploratory  perform_exploratory_kramers_kronig_tests(num_RCs=[n-1, n, n+1] within the legal range); the result with
                   n RC elements is picked out of the returned list
      evaluate     evaluate_log_F_ext(num_RCs=[n]); one evaluation at the requested extension is expected
    """
    from pyimpspec import DataSet, perform_kramers_kronig_test
    from pyimpspec.analysis.kramers_kronig import evaluate_log_F_ext, perform_exploratory_kramers_kronig_tests

    n = int(num_RC)
    B, I, F = (np.bool_, np.int64, np.float64) if np_types else (bool, int, float)
    kw = dict(test=test, add_capacitance=B(add_c), add_inductance=B(add_l), admittance=B(adm),
              log_F_ext=F(log_F_ext), num_F_ext_evaluations=0, num_procs=I(1))
    with warnings.catch_warnings():
        warnings.simplefilter("ignore")
        data = DataSet(f, Z)
        if route == "main":
            return perform_kramers_kronig_test(data, num_RC=I(n), **kw)
        N = len(f)
        top = min(2 * N - 5, N + 10) if test.endswith("-inv") else 2 * N - 5
        if route == "exploratory":
            lst = [I(m) for m in (n - 1, n, n + 1) if 2 <= m <= top]
            tests, _ = perform_exploratory_kramers_kronig_tests(data, num_RCs=lst, **kw)
        elif route == "evaluate":
            ev = evaluate_log_F_ext(data, num_RCs=[I(n)], **kw)
            if len(ev) != 1 or abs(float(ev[0][0]) - float(log_F_ext)) > 1e-12:
                raise RouteResultMissing(f"evaluate_log_F_ext returned {len(ev)} evaluation(s) at log_F_ext={[float(e[0]) for e in ev][:3]}, requested one at {log_F_ext}")
            tests = ev[0][1]
        else:
            raise ValueError(route)
    hits = [t for t in tests if t.get_num_RC() == n]
    if len(hits) != 1:
        raise RouteResultMissing(f"{len(hits)} results with num_RC={n} among {[t.get_num_RC() for t in tests]}")
    return hits[0]


def observe(inst, route="main"):
    """Run the real test on a concrete instance."""
    f = np.array(inst["f"], dtype=float)
    Z = np.array([complex(a, b) for a, b in inst["Z"]])
    return run_route(f, Z, inst["test"], inst["num_RC"], inst["add_c"], inst["add_l"], inst["adm"], inst["log_F_ext"], route,
                     bool(inst.get("np_types", False)))


def _gate_of(inst):
    f = np.sort(np.array(inst["f"], dtype=float))[::-1]
    tau = km.taus(f, int(inst["num_RC"]), float(inst["log_F_ext"]))
    return km.gate_stats(f, tau, np.array(inst["var"], dtype=float), inst["test"], bool(inst["adm"]), bool(inst["add_c"]), bool(inst["add_l"]))


def check_instance(inst, route=None):
    """Oracle for one instance on one route.  Returns dict(viol, inside, obs, stats, cell, tags)."""
    route = route or inst.get("route") or "main"
    rsfx = "" if route == "main" else "@" + route
    test, adm, add_c, add_l = inst["test"], bool(inst["adm"]), bool(inst["add_c"]), bool(inst["add_l"])
    n, x = int(inst["num_RC"]), float(inst["log_F_ext"])
    cname = cell_name(test, adm, add_c, add_l)
    rep = "Y" if adm else "Z"
    f_in = np.array(inst["f"], dtype=float)
    Z_in = np.array([complex(a, b) for a, b in inst["Z"]])
    order = np.argsort(-f_in)
    f, Zm = f_in[order], Z_in[order]
    var = np.array(inst["var"], dtype=float)
    tau = km.taus(f, n, x)
    st = km.gate_stats(f, tau, var, test, adm, add_c, add_l)
    st["artefact"] = km.placeholder_artefact(f, Zm, test, adm, add_c, var=var, add_l=add_l)
    inside = in_gate(test, st)
    crossed = bool(tau[0] > tau[-1])  # limits of eq. 12 cross: the documented tau_k descend
    # results are read back sorted by tau (km.circuit_variables); bring the generating side into the same order
    perm = np.argsort(tau)
    tau = tau[perm]
    var = np.concatenate([var[:1], var[1 : 1 + n][perm], var[1 + n :]])
    tags = []
    if np.any(var == 0.0):
        tags.append("absent-element")
    placeholder = st["artefact"] > ARTEFACT_MAX
    known_cell = test == "cnls" and adm
    viol = []
    replay = {"kind": "explicit", "inst": dict({k: v for k, v in inst.items() if k != "meta"}, route=route)}

    def bad(mech, msg, key=None):
        viol.append({"key": key or f"C07/{mech}:{test}/{rep}{rsfx}",
                     "msg": f"[{cname} N={len(f)} f={f.min():.3g}..{f.max():.3g} Hz num_RC={n} log_F_ext={x:.3g} route={route}{' numpy-typed options' if inst.get('np_types') else ''}] {msg}",
                     "witness": {"cell": cname, "gate": {k: float(v) for k, v in st.items()}, "inside_gate": bool(inside), "replay_case": replay}})

    out = {"viol": viol, "inside": inside, "obs": None, "stats": st, "cell": cname, "finding_cell": None, "crossed": crossed,
           "tags": tags + (["placeholder-constants"] if placeholder else [])}
    try:
        res = observe(inst, route)
    except RouteResultMissing as e:
        bad("route-result-missing", str(e)[:300])
        return out
    except Exception as e:  # the library must complete on every instance, in or out of the gate
        o = monitors.exception_origin(e)
        if route == "exploratory" and "algorithms" in o["file"].replace("\\", "/").split("/"):
            # the exploratory route also runs the num_RC / representation *suggestion* heuristics on the list of results;
            # a failure inside them is not part of this property (C10/C18): the route is unavailable for this instance
            out["route_unavailable"] = f"{type(e).__name__}@{o['func']}"
            return out
        bad("raised", f"{type(e).__name__} at {o['file']}:{o['func']}: {e}"[:400] + "\n" + monitors.tb_tail(e, 4),
            key=f"C07/raised:{test}/{rep}:{type(e).__name__}@{o['func']}{rsfx}")
        return out

    obs = {}
    p = None
    try:
        r = np.asarray(res.residuals)
        obs["res"] = float(max(np.abs(r.real).max(), np.abs(r.imag).max())) if r.size == len(f) else float("inf")
        Zf = np.asarray(res.impedances)
        fr = np.asarray(res.frequencies, dtype=float)
        obs["same_grid"] = bool(len(fr) == len(f) and np.array_equal(fr, f) and len(Zf) == len(f))
        if obs["same_grid"]:
            own = (Zm - Zf) / np.abs(Zm)
            obs["res_own"] = float(max(np.abs(own.real).max(), np.abs(own.imag).max()))
        obs["chi"] = float(res.pseudo_chisqr)
        p, tfit = km.circuit_variables(res.circuit, adm, add_c, add_l)
        tc = np.sort(np.asarray(res.time_constants, dtype=float))
        obs["n_fit"] = len(tfit)
        obs["tau"] = float(max(np.abs(tfit / tau - 1).max(), np.abs(tc / tau - 1).max())) if len(tfit) == n and len(tc) == n else float("inf")
        obs["topology_ok"] = ({"R": True, "C": add_c, "L": add_l} == {k: p[k] is not None for k in ("R", "C", "L")}) and len(p["k"]) == n
        if obs["topology_ok"]:
            vfit = km.params_to_variables(p, adm, add_c, add_l)
            Bmax = np.abs(km.basis(f, tau, adm, add_c, add_l)).max(axis=0)
            with np.errstate(invalid="ignore"):
                err = Bmax * np.abs(vfit - var)
            ok = bool(np.all(np.isfinite(err)))
            obs["par"] = float(err.max() / (Bmax * np.abs(var)).max()) if ok else float("inf")
            obs["par_i"] = int(np.argmax(err)) if ok else int(np.argmax(~np.isfinite(err)))
            obs["par_fit"], obs["par_gen"] = float(vfit[obs["par_i"]]), float(var[obs["par_i"]])
        obs["num_RC"] = int(res.num_RC)
        obs["adm"] = bool(res.admittance)
        obs["test"] = str(res.test)
        if not crossed:  # the accessor reconstructs log F_ext from min/max tau; it is only defined for ascending limits
            obs["logF"] = float(res.get_log_F_ext())
    except Exception as e:
        o = monitors.exception_origin(e)
        if o["in_tree"]:
            bad("result-accessor-raised", f"{type(e).__name__} at {o['file']}:{o['func']}: {e}"[:400],
                key=f"C07/result-accessor-raised:{type(e).__name__}@{o['func']}")
            return out
        raise
    out["obs"] = obs

    # clauses that do not depend on conditioning
    if obs["num_RC"] != n or obs["n_fit"] != n:
        bad("num-RC", f"result has num_RC={obs['num_RC']} ({obs['n_fit']} RC elements), requested {n}")
    if obs["adm"] != adm or obs["test"] != test:
        bad("label", f"result says test={obs['test']!r} admittance={obs['adm']}, requested {test!r} admittance={adm}")
    if not obs["topology_ok"]:
        bad("topology", "fitted circuit does not consist of R, num_RC RC elements and exactly the requested C/L")
    if not obs["same_grid"]:
        bad("frequencies", "result.frequencies/impedances are not on the data set's frequencies")
    if "logF" in obs and not (abs(obs["logF"] - x) <= LOGF_TOL):
        bad("log-F-ext", f"result reports log_F_ext={obs['logF']:.6g}, requested {x:.6g}")
    if not (obs["tau"] <= TAU_TOL):
        bad("tau", f"time constants differ from eq. 12 (Schoenleber) / eq. 18 (Boukamp): max rel. deviation {obs['tau']:.3g}")
    if inside:
        rt, pt = (CNLS_RES_TOL, CNLS_PAR_TOL) if test == "cnls" else (RES_TOL, PAR_TOL)
        fk = None
        if known_cell:
            fk = "C07/cnls-admittance-local-minimum"
        elif test == "cnls" and add_c:
            fk = "C07/cnls-impedance-capacitance-local-minimum"
        elif placeholder:
            fk = f"C07/{test}-placeholder-constants:{rep}"
        out["finding_cell"] = fk
        res_all = max(obs["res"], obs.get("res_own", 0.0))
        if not (res_all <= rt):
            bad("residual", f"max |relative residual| {obs['res']:.3g} (recomputed from result.impedances: {obs.get('res_own', float('nan')):.3g}) > {rt:g} "
                f"on the test's own model spectrum" + (f"; predicted placeholder effect {st['artefact']:.3g}" if placeholder else ""), fk)
        elif not (obs["chi"] <= 2 * len(f) * rt * rt):
            bad("chisqr", f"pseudo chi-squared {obs['chi']:.3g} although residuals are {obs['res']:.3g}", fk)
        if obs["topology_ok"] and not (obs["par"] <= pt):
            names = ["R"] + [f"{'C' if adm else 'R'}_{i+1}" for i in range(n)] + (["C"] if add_c else []) + (["L"] if add_l else [])
            i = obs["par_i"]
            bad("parameter", f"generating parameters not recovered: weighted error {obs['par']:.3g} > {pt:g}; worst {names[i]}: linear variable fitted "
                f"{obs['par_fit']:.6g} vs generated {obs['par_gen']:.6g}", fk)
    return out


# ------------------------------------------------------------------------------------------------
# runner API
# ------------------------------------------------------------------------------------------------
def gen_cases(tier, seed):
    if tier == "quick":
        nb_lin, per_cell, nb_cnls, cn_per = 96, 10, 32, 3
    else:
        nb_lin, per_cell, nb_cnls, cn_per = 2000, 10, 200, 6
    cases = []
    for i in range(nb_cnls):  # cnls first: the slow cases are spread evenly over the shards
        cases.append({"kind": "cnls", "seed": [int(seed), 7, i], "cells": [list(CNLS_CELLS[(i * cn_per + j) % len(CNLS_CELLS)]) for j in range(cn_per)], "tier": tier})
    for i in range(nb_lin):
        cases.append({"kind": "linear", "seed": [int(seed), 1, i], "per_cell": per_cell, "tier": tier})
    return cases


def run_case(case):
    if case["kind"] == "explicit":
        out = check_instance(case["inst"])
        o = out["obs"] or {}
        return {"evals": 1, "keys": [json.dumps(case["inst"], sort_keys=True)], "viol": out["viol"],
                "stats": {"explicit": 1, "inside_gate": int(out["inside"])},
                "maxobs": {k: float(v) for k, v in o.items() if k in ("res", "res_own", "par", "tau") and np.isfinite(v)},
                "sample": {"cell": out["cell"], "obs": o, "gate": out["stats"], "tags": out["tags"]}}
    rng = np.random.default_rng(case["seed"])
    tier = case.get("tier", "quick")
    if case["kind"] == "linear":
        # regular instances first (their random stream is unchanged), then one instance per cell with crossing tau limits
        # a fixed share is ALSO run through the alternative public routes (chosen from the case index, no random draw):
        # case index mod 4 == 0: first regular instance of every cell -> exploratory; == 1: second one -> evaluate;
        # == 2: the crossing instance -> evaluate
        ci = int(case["seed"][-1])
        todo = [(c, False, "exploratory" if (j == 0 and ci % 4 == 0) else ("evaluate" if (j == 1 and ci % 4 == 1) else None))
                for c in LIN_CELLS for j in range(case["per_cell"])]
        todo += [(c, True, "evaluate" if ci % 4 == 2 else None) for c in LIN_CELLS for _ in range(case.get("crossing_per_cell", 1))]
    else:
        todo = [(tuple(c), False, None) for c in case["cells"]]
    viol, keys, stats, maxobs = [], [], {}, {}
    evals = 0
    sample = None

    def cnt(name, k=1):
        stats[name] = stats.get(name, 0) + k

    def mx(name, v):
        if v is not None and np.isfinite(v):
            maxobs[name] = max(maxobs.get(name, 0.0), float(v))

    refused0 = dict(NP_REFUSED)
    for idx, (cell, crossing, alt) in enumerate(todo):
        inst = gen_instance(rng, tuple(cell), tier, crossing)
        inst["np_types"] = bool(idx % 2)  # same instances, the options of every second one as NumPy scalars (all routes)
        cnt("options:numpy_types" if inst["np_types"] else "options:python_types")
        if case["kind"] == "cnls":
            # cnls costs ~1 s per call: the precondition is applied in the generator (redraw until the harness's own
            # statistics put the instance inside the gate; the library is not consulted)
            for _ in range(40):
                if in_gate(inst["test"], _gate_of(inst)):
                    break
                cnt("cnls_redraw")
                inst = gen_instance(rng, tuple(cell), tier)
                inst["np_types"] = bool(idx % 2)
        out = check_instance(inst)
        cname = out["cell"]
        tname = f"{inst['test']}/{'Y' if inst['adm'] else 'Z'}"
        cnt(f"run:{cname}")
        if out["crossed"]:
            cnt("crossing_tau_limits")
            cnt(f"crossing_tau_limits:{tname}")
            if out["inside"]:
                cnt("crossing_tau_limits:inside_gate")
        for t in out["tags"]:
            cnt(f"regime:{t}")
        viol.extend(out["viol"])
        if alt:
            evals += _alt_route(inst, alt, cnt, mx, viol, keys)
        o = out["obs"]
        if o is None:
            cnt("raised")
            continue
        mx(f"tau:{tname}", o["tau"])
        if "logF" in o:
            cnt("log_F_ext_checked")
            mx("logF:main", abs(o["logF"] - inst["log_F_ext"]))
        res_all = max(o["res"], o.get("res_own", 0.0))
        if out["crossed"] and out["inside"] and not out.get("finding_cell"):
            mx(f"res:crossing:{tname}", res_all)
            mx(f"par:crossing:{tname}", o.get("par"))
        if out["inside"]:
            evals += 1
            cnt(f"inside:{cname}")
            cnt("inside_gate")
            keys.append((cname, len(inst["f"]), inst["num_RC"], inst["log_F_ext"], tuple(inst["var"])))
            special = out.get("finding_cell")
            if special:  # cells / regimes with their own mechanism key are reported apart so that they do not mask the rest
                which = special.split("/", 1)[1]
                mx(f"res:[{which}]", res_all)
                cnt(f"fail:[{which}]", int(any(v["key"] == special for v in out["viol"])))
                cnt(f"n:[{which}]")
            else:
                mx(f"res:{cname}", res_all)
                mx(f"par:{cname}", o.get("par"))
            if sample is None and not special:
                sample = {"cell": cname, "N": len(inst["f"]), "f_min": min(inst["f"]), "f_max": max(inst["f"]), "num_RC": inst["num_RC"],
                          "log_F_ext": inst["log_F_ext"], "variables": inst["var"], "meta": inst["meta"],
                          "observed": {k: o[k] for k in ("res", "res_own", "par", "tau", "chi") if k in o},
                          "gate": {k: float(v) for k, v in out["stats"].items()}}
        else:
            cnt("outside_gate")
            cnt(f"outside:{tname}")
            mx(f"outside:res:{tname}", res_all)
    for k, v in NP_REFUSED.items():
        if v - refused0.get(k, 0):
            cnt(f"options:numpy_types_refused:{k}", v - refused0.get(k, 0))
    return {"evals": evals, "keys": keys, "viol": viol[:40], "stats": stats, "maxobs": maxobs, "sample": sample}


def _alt_route(inst, alt, cnt, mx, viol, keys):
    """The same oracle on an alternative public route.  Returns the number of deciding comparisons (0 or 1)."""
    out = check_instance(inst, alt)
    tname = f"{inst['test']}/{'Y' if inst['adm'] else 'Z'}"
    cnt(f"route:{alt}")
    viol.extend(out["viol"])
    if out.get("route_unavailable"):
        cnt(f"route:{alt}:unavailable:{out['route_unavailable']}")
        return 0
    o = out["obs"]
    if o is None:
        cnt(f"route:{alt}:no-result")
        return 0
    mx(f"tau:@{alt}", o["tau"])
    if "logF" in o:
        cnt(f"route:{alt}:log_F_ext_checked")
        mx(f"logF:@{alt}", abs(o["logF"] - inst["log_F_ext"]))
        if inst["log_F_ext"] != 0.0:
            cnt(f"route:{alt}:nonzero_log_F_ext")
    if not out["inside"]:
        return 0
    cnt(f"route:{alt}:inside_gate")
    keys.append((alt, out["cell"], len(inst["f"]), inst["num_RC"], inst["log_F_ext"], tuple(inst["var"])))
    if not out.get("finding_cell"):
        mx(f"res:@{alt}:{tname}", max(o["res"], o.get("res_own", 0.0)))
        mx(f"par:@{alt}:{tname}", o.get("par"))
    return 1


def finalize(agg):
    inc = []
    st = agg["stats"]
    need = 20 if agg["tier"] == "quick" else 500
    for cell in LIN_CELLS:
        cn = cell_name(*cell)
        if st.get(f"inside:{cn}", 0) < need:
            inc.append(f"cell {cn}: only {st.get(f'inside:{cn}', 0)} instances inside the conditioning gate (need {need})")
    for t in LINEAR_TESTS:
        for rep in ("Z", "Y"):
            if st.get(f"crossing_tau_limits:{t}/{rep}", 0) < 20:
                inc.append(f"{t}/{rep}: only {st.get(f'crossing_tau_limits:{t}/{rep}', 0)} instances with crossing time-constant limits (need 20)")
    if st.get("crossing_tau_limits:inside_gate", 0) < 20:
        inc.append(f"only {st.get('crossing_tau_limits:inside_gate', 0)} crossing-limit instances inside the conditioning gate (need 20)")
    refused = sum(v for k, v in st.items() if k.startswith("options:numpy_types_refused"))
    if st.get("options:numpy_types", 0) - refused < 1000:
        inc.append(f"only {st.get('options:numpy_types', 0) - refused} instances ran with NumPy-typed options ({refused} refused up front)")
    for alt in ROUTES[1:]:
        if st.get(f"route:{alt}:inside_gate", 0) < 100 or st.get(f"route:{alt}:nonzero_log_F_ext", 0) < 100:
            inc.append(f"route {alt}: only {st.get(f'route:{alt}:inside_gate', 0)} instances inside the gate / "
                       f"{st.get(f'route:{alt}:nonzero_log_F_ext', 0)} with log_F_ext != 0 and the accessor checked (need 100 each)")
    for cell in CNLS_CELLS:
        cn = cell_name(*cell)
        if st.get(f"inside:{cn}", 0) < 3:
            inc.append(f"cell {cn}: only {st.get(f'inside:{cn}', 0)} cnls instances inside the gate (need 3)")
    info = {"inside_gate": st.get("inside_gate", 0), "outside_gate": st.get("outside_gate", 0),
            "tolerances": {"RES_TOL": RES_TOL, "PAR_TOL": PAR_TOL, "TAU_TOL": TAU_TOL, "LOGF_TOL": LOGF_TOL, "CNLS_RES_TOL": CNLS_RES_TOL,
                           "CNLS_PAR_TOL": CNLS_PAR_TOL, "ARTEFACT_MAX": ARTEFACT_MAX},
            "gate": GATE}
    return {"viol": [], "inconclusive": inc, "info": info}
