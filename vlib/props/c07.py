"""C07 - Kramers-Kronig tests reproduce exactly any spectrum of their own model.

Shape: generator-is-the-oracle.  The harness draws the variables of the test's own equivalent circuit (series/parallel
R, one R_k|C_k per time constant, optional C and L), computes the spectrum with an independent implementation of the
documented model and time-constant formula (vlib/kk_model.py, no pyimpspec code), hands it to the REAL
perform_kramers_kronig_test(num_RC=n, num_F_ext_evaluations=0, log_F_ext=x) and compares what comes back:

  residuals   max |Re|,|Im| of result.residuals (and of (Z_model - result.impedances)/|Z_model|)  <= RES_TOL
  tau         result.time_constants == independently computed tau_k                               (rel TAU_TOL)
  parameters  R, R_k|C_k, C, L read from result.circuit, compared in the variables in which the model is linear,
              each error weighted with the size of that term's largest contribution to the spectrum and divided by
              the largest contribution of all terms                                              <= PAR_TOL
  bookkeeping num_RC, representation and test label of the result are the requested ones; pseudo chi-squared ~ 0

The quantifier's "well-conditioned design matrix" is a precondition of the *instance*, decided before the library is
called from statistics of the harness's own matrices (kk_model.gate_stats); see GATE below.  Instances outside the
gate are still executed (a crash is a violation) but their residuals are only reported (maxobs "outside:*").

Latitude (what the statement does not fix): nothing is demanded of ill-conditioned instances beyond completing;
nothing is demanded of the sign/size of parameters whose contribution to the spectrum is below PAR_TOL of the largest
term; cnls is only asked to reproduce spectra whose parameters lie within a decade of its fixed start values (the
property's "numerical precision" of an iterative optimiser started from fixed values).
"""
import json
import warnings

import numpy as np

from .. import kk_model as km
from .. import monitors

ID = "C07"
RULE = (
    "instances drawn from rng([seed, case]) for every legal cell (7 tests x {Z,Y} x add_capacitance x add_inductance; "
    "'-inv' tests always with L): grid 3..20 points/decade (optionally jittered) over 1.5..10 decades anywhere in "
    "1e-7..1e12 Hz, ascending or descending input, log_F_ext in [-1,1] (incl. 0 and +-1), num_RC from 2 up to 3 (complex) "
    "or 2 (real/imaginary) time constants per decade with #unknowns <= 0.75 #equations, variables with sign patterns "
    "(all +, all -, alternating, random), 0..6 decades spread, optional exact zeros; spectrum from the harness's own "
    "model. The deciding comparison (residuals, tau, parameters) runs on instances inside the conditioning gate; "
    "a case is non-trivial when it is inside the gate; distinct = distinct (cell, N, num_RC, log_F_ext, variables) keys."
)
ASSUMPTIONS = [
    "numpy complex arithmetic and SVD are the trusted base of the reference model and of the conditioning gate",
    "reference model vlib/kk_model.py (time constants, Fig. 1 / Fig. 13 circuits, 60 lines, self-checked at import)",
    "conditioning gate thresholds were calibrated on the unchanged tree (>= 2e5 in-gate instances per class) and frozen",
]
SHARDS = 16
CASE_TIMEOUT = 600
MIN_EVALS = 500

RES_TOL = 1e-4   # linear variants, max |relative residual| (Re or Im part)
PAR_TOL = 1e-4   # contribution-weighted parameter error relative to the largest term
TAU_TOL = 1e-10  # relative
CNLS_RES_TOL = 1e-3
CNLS_PAR_TOL = 1e-2

# Conditioning gate.  Class of the implementation -> statistic that bounds its rounding error (kk_model.gate_stats):
#   lstsq (complex/real/imaginary): numpy.linalg.lstsq on the UNWEIGHTED system -> kappa_u (backward-error bound in
#         units of eps for the relative residual) and cond_u (rank decisions of the SVD solver)
#   pinv  (real-inv/imaginary-inv): pseudo-inverse of the row-scaled system -> cond_s
#   inv   (complex-inv): inverse of the normal equations of the row-scaled system -> condn_s squared
GATE = {
    "ratio": 0.75,
    "perdec": {"complex": 3.0, "real": 2.0, "imaginary": 2.0},
    "lstsq": {"kappa_u": 1e7, "cond_u": 1e10, "cond_s": 1e9},
    "pinv": {"cond_s": 1e6},
    "inv": {"condn_s": 1e3},
    "cnls": {"kappa_u": 1e5, "cond_u": 1e8, "cond_s": 1e5},
}

LINEAR_TESTS = km.TESTS[:6]


def impl_class(test):
    if test == "cnls":
        return "cnls"
    if test == "complex-inv":
        return "inv"
    if test.endswith("-inv"):
        return "pinv"
    return "lstsq"


def cells(tests):
    out = []
    for t in tests:
        for adm in (False, True):
            for c in (False, True):
                for l in ((True,) if t.endswith("-inv") else (False, True)):
                    out.append((t, adm, c, l))
    return out


LIN_CELLS = cells(LINEAR_TESTS)
CNLS_CELLS = cells(("cnls",))


def cell_name(t, adm, c, l):
    return f"{t}/{'Y' if adm else 'Z'}/{'C' if c else '-'}{'L' if l else '-'}"


def in_gate(test, st):
    kind = km.base_kind(test)
    if not (st["ratio"] <= GATE["ratio"] and st["perdec"] <= GATE["perdec"][kind] + 1e-9 and np.isfinite(st["dyn"])):
        return False
    lim = GATE[impl_class(test)]
    return all(st[k] <= v for k, v in lim.items())


# ------------------------------------------------------------------------------------------------
# instance generation (concrete and JSON-able)
# ------------------------------------------------------------------------------------------------
def gen_instance(rng, cell, tier):
    test, adm, add_c, add_l = cell
    kind = km.base_kind(test)
    thorough = tier == "thorough"
    ppd = int(rng.integers(3, 21))
    dec = float(rng.uniform(1.5, 10.0) if thorough else rng.uniform(2.0, 8.0))
    nmax_pts = 160 if thorough else 110
    N = int(round(ppd * dec)) + 1
    if N > nmax_pts:
        N = nmax_pts
    N = max(N, 7)
    dec = (N - 1) / ppd
    if rng.random() < 0.7:
        lo = float(rng.uniform(-4.0, 1.0))  # typical laboratory window
    else:
        lo = float(rng.uniform(-7.0, 12.0 - dec))
    logf = lo + np.arange(N) / ppd
    if rng.random() < 0.3:  # jittered grid, still strictly increasing
        logf = logf + rng.uniform(-0.3, 0.3, size=N) / ppd
    f = 10.0**logf
    u = rng.random()
    x = 0.0 if u < 0.1 else (1.0 if u < 0.15 else (-1.0 if u < 0.2 else float(rng.uniform(-1, 1))))
    dec = float(logf[-1] - logf[0])
    if dec + 2 * x < 1.0:
        x = float((1.0 - dec) / 2 + 0.01)
    tdec = dec + 2 * x
    lim = GATE["perdec"][kind]
    nmax = int(np.floor(lim * tdec + 1e-9)) + 1
    extra = int(add_c) + int(add_l)
    if kind == "complex":
        nmax = min(nmax, int(np.floor(0.75 * 2 * N)) - 1 - extra)
    elif kind == "real":
        nmax = min(nmax, int(np.floor(0.75 * N)) - 1)
    else:
        nmax = min(nmax, int(np.floor(0.75 * N)) - extra)
    nmax = min(nmax, 2 * N - 5)
    if test.endswith("-inv"):
        nmax = min(nmax, N + 10)
    nmax = max(nmax, 2)
    if test == "cnls":
        nmax = min(nmax, 12)
    n = int(rng.integers(2, nmax + 1))
    if rng.random() < 0.35:  # favour sparse, well-conditioned models as well
        n = int(rng.integers(2, max(2, min(nmax, int(tdec) + 1)) + 1))
    tau = km.taus(f, n, x)
    nv = 1 + n + extra
    B = np.abs(km.basis(f, tau, adm, add_c, add_l)).max(axis=0)
    pat = int(rng.integers(0, 5))
    if pat == 0:
        sign = np.ones(nv)
    elif pat == 1:
        sign = -np.ones(nv)
    elif pat == 2:
        sign = np.array([(-1.0) ** i for i in range(nv)])
    else:
        sign = rng.choice([-1.0, 1.0], size=nv)
    if test == "cnls":
        # within a decade of the fixed start values R=1, R_k|C_k=1, C=1e-6, L=1e-3 (in the circuit's own parameters)
        par = 10.0 ** rng.uniform(-1, 1, size=nv)
        p = {"R": par[0], "k": list(par[1 : 1 + n])}
        if add_c:
            p["C"] = 1e-6 * par[1 + n]
        if add_l:
            p["L"] = 1e-3 * par[nv - 1]
        var = km.params_to_variables(p, adm, add_c, add_l)
        if rng.random() < 0.5:
            var[1 : 1 + n] *= sign[1 : 1 + n]
        mode, span = 9, 1.0
    else:
        span = float(rng.uniform(0, 6)) if thorough else float(rng.choice([0.0, 1.0, 3.0, 6.0]))
        scale = 10.0 ** rng.uniform(-4, 4)
        mag = scale * 10.0 ** rng.uniform(-span, 0, size=nv)
        mode = int(rng.random() < 0.4)
        if mode == 0:  # magnitudes of the largest contribution of every term
            var = sign * mag / B
        else:  # magnitudes of R, R_k|C_k themselves; C and L sized like the largest RC contribution
            var = sign * mag
            top = (np.abs(var[1 : 1 + n]) * B[1 : 1 + n]).max()
            for j in range(1 + n, nv):
                var[j] = sign[j] * top * 10.0 ** rng.uniform(-min(span, 3.0), 0) / B[j]
        if rng.random() < 0.08:  # exact zeros (element absent from the generating circuit)
            z = rng.random(nv) < 0.3
            z[1 + int(rng.integers(0, n))] = False
            var = np.where(z, 0.0, var)
    Z = km.impedance(f, tau, var, adm, add_c, add_l)
    asc = bool(rng.random() < 0.5)
    ff, ZZ = (f, Z) if asc else (f[::-1], Z[::-1])
    return {
        "test": test, "adm": bool(adm), "add_c": bool(add_c), "add_l": bool(add_l), "num_RC": n, "log_F_ext": float(x),
        "f": [float(v) for v in ff], "Z": [[float(z.real), float(z.imag)] for z in ZZ], "var": [float(v) for v in var],
        "meta": {"ppd": ppd, "lo": lo, "pat": pat, "mode": mode, "span": span, "asc": asc},
    }


# ------------------------------------------------------------------------------------------------
# execution + oracle
# ------------------------------------------------------------------------------------------------
def observe(inst):
    """Run the real test on a concrete instance.  Returns (obs dict, exception or None)."""
    from pyimpspec import DataSet, perform_kramers_kronig_test

    f = np.array(inst["f"], dtype=float)
    Z = np.array([complex(a, b) for a, b in inst["Z"]])
    with warnings.catch_warnings():
        warnings.simplefilter("ignore")
        data = DataSet(f, Z)
        res = perform_kramers_kronig_test(
            data, test=inst["test"], num_RC=int(inst["num_RC"]), add_capacitance=inst["add_c"], add_inductance=inst["add_l"],
            admittance=inst["adm"], log_F_ext=float(inst["log_F_ext"]), num_F_ext_evaluations=0, num_procs=1,
        )
    return data, res


def check_instance(inst, gated=None):
    """Oracle for one instance.  Returns dict(viol=[...], inside=bool, obs={...}, stats=gate stats)."""
    test, adm, add_c, add_l, n, x = inst["test"], inst["adm"], inst["add_c"], inst["add_l"], int(inst["num_RC"]), float(inst["log_F_ext"])
    cname = cell_name(test, adm, add_c, add_l)
    f_in = np.array(inst["f"], dtype=float)
    Z_in = np.array([complex(a, b) for a, b in inst["Z"]])
    order = np.argsort(-f_in)
    f = f_in[order]
    Zm = Z_in[order]
    var = np.array(inst["var"], dtype=float)
    tau = km.taus(f, n, x)
    st = km.gate_stats(f, tau, var, test, adm, add_c, add_l)
    inside = in_gate(test, st) if gated is None else gated
    viol = []
    replay = {"kind": "explicit", "inst": {k: v for k, v in inst.items() if k != "meta"}}
    known_cell = test == "cnls" and adm

    def bad(mech, msg, force_key=None):
        key = force_key or f"C07/{mech}:{km.base_kind(test) if test != 'cnls' else 'cnls'}{'-inv' if test.endswith('-inv') else ''}/{'Y' if adm else 'Z'}"
        viol.append({"key": key, "msg": f"[{cname} N={len(f)} num_RC={n} log_F_ext={x:.3g}] {msg}",
                     "witness": {"cell": cname, "gate": {k: float(v) for k, v in st.items()}, "replay_case": replay}})

    try:
        data, res = observe(inst)
    except Exception as e:  # the library must complete on every instance, in or out of the gate
        o = monitors.exception_origin(e)
        bad("raised", f"{type(e).__name__} at {o['file']}:{o['func']}: {e}"[:500] + "\n" + monitors.tb_tail(e, 4),
            force_key=f"C07/raised:{test}/{'Y' if adm else 'Z'}:{type(e).__name__}@{o['func']}")
        return {"viol": viol, "inside": inside, "obs": None, "stats": st, "cell": cname}

    obs = {}
    try:
        r = np.asarray(res.residuals)
        obs["res"] = float(max(np.abs(r.real).max(), np.abs(r.imag).max())) if r.size else float("nan")
        Zf = np.asarray(res.impedances)
        fr = np.asarray(res.frequencies, dtype=float)
        same_grid = len(fr) == len(f) and np.array_equal(fr, f)
        if same_grid and len(Zf) == len(f):
            own = (Zm - Zf) / np.abs(Zm)
            obs["res_own"] = float(max(np.abs(own.real).max(), np.abs(own.imag).max()))
        else:
            obs["res_own"] = float("inf")
        obs["chi"] = float(res.pseudo_chisqr)
        p, tfit = km.circuit_variables(res.circuit, adm, add_c, add_l)
        tc = np.asarray(res.time_constants, dtype=float)
        obs["n_fit"] = len(tfit)
        if len(tfit) == n and len(tc) == n:
            obs["tau"] = float(max(np.abs(tfit / tau - 1).max(), np.abs(np.sort(tc) / tau - 1).max()))
        else:
            obs["tau"] = float("inf")
        want = {"R": True, "C": add_c, "L": add_l}
        have = {k: p[k] is not None for k in ("R", "C", "L")}
        obs["topology_ok"] = want == have and len(p["k"]) == n
        if obs["topology_ok"]:
            vfit = km.params_to_variables(p, adm, add_c, add_l)
            Bmax = np.abs(km.basis(f, tau, adm, add_c, add_l)).max(axis=0)
            contrib = Bmax * np.abs(var)
            with np.errstate(invalid="ignore"):
                err = Bmax * np.abs(vfit - var)
            obs["par"] = float(np.nanmax(err) / contrib.max()) if np.all(np.isfinite(err)) else float("inf")
            obs["par_i"] = int(np.nanargmax(err)) if np.all(np.isfinite(err)) else -1
        obs["num_RC"] = int(res.num_RC)
        obs["adm"] = bool(res.admittance)
        obs["test"] = str(res.test)
    except Exception as e:
        o = monitors.exception_origin(e)
        if o["in_tree"]:
            bad("result-accessor-raised", f"{type(e).__name__} at {o['file']}:{o['func']}: {e}"[:400],
                force_key=f"C07/result-accessor-raised:{type(e).__name__}@{o['func']}")
            return {"viol": viol, "inside": inside, "obs": None, "stats": st, "cell": cname}
        raise

    # bookkeeping clauses hold for every instance (they do not depend on conditioning)
    if obs["num_RC"] != n or obs["n_fit"] != n:
        bad("num-RC", f"result has num_RC={obs['num_RC']} ({obs['n_fit']} RC elements), requested {n}")
    if obs["adm"] != adm or obs["test"] != test:
        bad("label", f"result says test={obs['test']!r} admittance={obs['adm']}, requested {test!r} admittance={adm}")
    if not obs["topology_ok"]:
        bad("topology", "fitted circuit does not contain exactly R, num_RC RC elements and the requested C/L")
    if not (obs["tau"] <= TAU_TOL):
        bad("tau", f"time constants differ from eq. 12 / eq. 18: max rel. deviation {obs['tau']:.3g}")
    if inside:
        rt, pt = (CNLS_RES_TOL, CNLS_PAR_TOL) if test == "cnls" else (RES_TOL, PAR_TOL)
        fk = "C07/cnls-admittance-local-minimum" if known_cell else None
        if not (obs["res"] <= rt) or not (obs["res_own"] <= rt):
            bad("residual", f"max |relative residual| {obs['res']:.3g} (recomputed from result.impedances: {obs['res_own']:.3g}) > {rt:g} on the test's own model spectrum", fk)
        elif not (obs["chi"] <= 2 * len(f) * rt * rt):
            bad("chisqr", f"pseudo chi-squared {obs['chi']:.3g} although residuals are {obs['res']:.3g}", fk)
        if obs["topology_ok"] and not (obs["par"] <= pt):
            names = ["R"] + [f"k{i+1}" for i in range(n)] + (["C"] if add_c else []) + (["L"] if add_l else [])
            i = obs["par_i"]
            bad("parameter", f"generating parameters not recovered: weighted error {obs['par']:.3g} > {pt:g} (worst: {names[i] if 0 <= i < len(names) else '?'}; "
                f"variable fitted {km.params_to_variables(p, adm, add_c, add_l)[i] if i >= 0 else float('nan'):.6g} vs generated {var[i] if i >= 0 else float('nan'):.6g})", fk)
    return {"viol": viol, "inside": inside, "obs": obs, "stats": st, "cell": cname}


# ------------------------------------------------------------------------------------------------
# runner API
# ------------------------------------------------------------------------------------------------
def gen_cases(tier, seed):
    cases = []
    if tier == "quick":
        nb_lin, per_cell, nb_cnls, cn_per = 64, 7, 16, 3
    else:
        nb_lin, per_cell, nb_cnls, cn_per = 1600, 7, 160, 10
    # cnls first so that the slow cases are spread evenly over the shards
    for i in range(nb_cnls):
        cases.append({"kind": "cnls", "seed": [int(seed), 7, i], "cells": [CNLS_CELLS[(i + j) % len(CNLS_CELLS)] for j in range(cn_per)], "tier": tier})
    for i in range(nb_lin):
        cases.append({"kind": "linear", "seed": [int(seed), 1, i], "per_cell": per_cell, "tier": tier})
    return cases


def run_case(case):
    if case["kind"] == "explicit":
        out = check_instance(case["inst"])
        o = out["obs"] or {}
        return {"evals": 1, "keys": [json.dumps(case["inst"], sort_keys=True)], "viol": out["viol"],
                "stats": {"explicit": 1, "inside_gate": int(out["inside"])},
                "maxobs": {k: float(v) for k, v in o.items() if k in ("res", "res_own", "par", "tau") and np.isfinite(v)},
                "sample": {"cell": out["cell"], "obs": o, "gate": out["stats"]}}
    rng = np.random.default_rng(case["seed"])
    tier = case.get("tier", "quick")
    if case["kind"] == "linear":
        todo = [c for c in LIN_CELLS for _ in range(case["per_cell"])]
    else:
        todo = [tuple(c) for c in case["cells"]]
    viol, keys, stats, maxobs = [], [], {}, {}
    evals = 0
    sample = None

    def mx(name, v):
        if v is not None and np.isfinite(v):
            maxobs[name] = max(maxobs.get(name, 0.0), float(v))

    for cell in todo:
        inst = gen_instance(rng, tuple(cell), tier)
        out = check_instance(inst)
        cname = out["cell"]
        tname = f"{inst['test']}/{'Y' if inst['adm'] else 'Z'}"
        stats[f"run:{cname}"] = stats.get(f"run:{cname}", 0) + 1
        viol.extend(out["viol"])
        o = out["obs"]
        if o is None:
            continue
        if out["inside"]:
            evals += 1
            stats[f"inside:{cname}"] = stats.get(f"inside:{cname}", 0) + 1
            stats["inside_gate"] = stats.get("inside_gate", 0) + 1
            keys.append((cname, len(inst["f"]), inst["num_RC"], inst["log_F_ext"], tuple(inst["var"])))
            mx(f"res:{cname}", max(o["res"], o["res_own"]))
            mx(f"par:{cname}", o.get("par"))
            mx(f"tau:{tname}", o["tau"])
            if sample is None:
                sample = {"cell": cname, "N": len(inst["f"]), "f_min": min(inst["f"]), "f_max": max(inst["f"]), "num_RC": inst["num_RC"],
                          "log_F_ext": inst["log_F_ext"], "variables": inst["var"], "meta": inst["meta"],
                          "observed": {k: o[k] for k in ("res", "res_own", "par", "tau", "chi") if k in o},
                          "gate": {k: float(v) for k, v in out["stats"].items()}}
        else:
            stats["outside_gate"] = stats.get("outside_gate", 0) + 1
            stats[f"outside:{tname}"] = stats.get(f"outside:{tname}", 0) + 1
            mx(f"outside:res:{tname}", max(o["res"], o["res_own"]))
            mx(f"tau:{tname}", o["tau"])
    return {"evals": evals, "keys": keys, "viol": viol[:40], "stats": stats, "maxobs": maxobs, "sample": sample}


def finalize(agg):
    inc = []
    st = agg["stats"]
    need = 20 if agg["tier"] == "quick" else 200
    for cell in LIN_CELLS:
        cn = cell_name(*cell)
        if st.get(f"inside:{cn}", 0) < need:
            inc.append(f"cell {cn}: only {st.get(f'inside:{cn}', 0)} instances inside the conditioning gate (need {need})")
    for cell in CNLS_CELLS:
        cn = cell_name(*cell)
        if st.get(f"inside:{cn}", 0) < 3:
            inc.append(f"cell {cn}: only {st.get(f'inside:{cn}', 0)} cnls instances inside the gate (need 3)")
    info = {"inside_gate": st.get("inside_gate", 0), "outside_gate": st.get("outside_gate", 0),
            "tolerances": {"RES_TOL": RES_TOL, "PAR_TOL": PAR_TOL, "TAU_TOL": TAU_TOL, "CNLS_RES_TOL": CNLS_RES_TOL, "CNLS_PAR_TOL": CNLS_PAR_TOL},
            "gate": GATE}
    return {"viol": [], "inconclusive": inc, "info": info}
