"""C01 - circuit impedance obeys the series/parallel composition laws.

Oracle: an extended-complex evaluator in the harness walks the INTENDED tree.  Leaf value = the real element's own
get_impedances([f]) at that single frequency (InfiniteImpedance => oo); series = sum; parallel = 0 if any branch is 0,
else reciprocal sum over the finite branches, oo if every branch is oo.  The library value must equal the reference
(rel 1e-9 of |Z|, abs 1e-300).  Latitude: where a *nested connection* is entirely open the library may either return
the reference value or raise InfiniteImpedance (it currently raises); where the reference is oo / undefined the library
must raise an ImpedanceError.

Relations on top: (i) the three build routes (objects, parser, CircuitBuilder) give the same normal form and the same
Z when fed identical parameter values (values pre-rounded to the 12 decimals the builder's text route carries);
(ii) array evaluation == one-frequency-at-a-time evaluation == evaluation of a permuted/duplicated vector, elementwise;
(iii) simulate_spectrum pairs each Z with its own frequency.
"""
import math

import numpy as np

from .. import gen_circuit as G
from .. import monitors

ID = "C01"
RULE = (
    "intended trees from vlib.gen_circuit: every topology with <=4 leaves (5 thorough) x random leaf assignments over all 23 "
    "registered element classes (incl. Tlm with open/short/tree sub-circuits), random trees to 12 leaves; parameter values "
    "inside the class limit boxes incl. short-producing corners (R=0, L=0) and open leaves (R=inf); frequency vectors of "
    "length 1..40 in any order over 1e-6..1e9 Hz. Evaluation = one (tree, route, frequency-vector) comparison against the "
    "extended-complex reference; non-trivial = tree with >=2 leaves; distinct = distinct (normal-form shape, open/short "
    "pattern, route)."
)
ASSUMPTIONS = [
    "leaf impedances are taken from the real element (C02 checks them against the documented equations)",
    "numpy complex arithmetic for the reference sums/reciprocals",
    "K/Ky values are kept positive so that the comparison is not dominated by catastrophic cancellation",
]
SHARDS = 16
CASE_TIMEOUT = 300
MIN_EVALS = 300
RTOL = 1e-9
OO = complex(float("inf"), 0.0)


def _round12(tree):
    """values/limits rounded to what the CircuitBuilder's 12-decimal text route carries"""
    import copy

    t = copy.deepcopy(tree)
    for e in G.iter_elements(t):
        for k, v in e["p"].items():
            for i in range(3):
                x = G.dec(v[i])
                if math.isfinite(x):
                    v[i] = G.enc(float("%.12E" % x))
    return t


def _specialise(rng, tree):
    """inject shorts (R=0, L=0), open leaves (R=inf) and keep K/Ky positive"""
    kinds = set()
    for e in G.iter_elements(tree):
        if e["sym"] in ("K", "Ky"):
            for k, v in e["p"].items():
                v[0] = G.enc(abs(G.dec(v[0])))
        r = rng.random()
        if e["sym"] == "R" and r < 0.10:
            e["p"]["R"][0] = G.enc(0.0)
            kinds.add("short")
        elif e["sym"] == "Xo" and r < 0.7:
            e["p"]["G"][0] = G.enc(0.0)  # open leaf: Z = 1/G = oo, expressible in every build route
            kinds.add("open")
        elif e["sym"] == "L" and r < 0.15:
            e["p"]["L"][0] = G.enc(0.0)
            kinds.add("short")
    return kinds


TRAP_PAIRS = [(1.0, 1.0), (1e-6, 1e-6), (2.2e-3, 4.7e-6), (0.5, 2.0), (1e-3, 1e-3), (4.7e-3, 1e-5), (1e-2, 1e-4), (3.3e-2, 1e-7)]


def _plain_spec(sym, **values):
    info = G.catalogue()[sym]
    return {"t": "E", "sym": sym, "label": "", "subs": {}, "_states": [],
            "p": {k: [G.enc(values.get(k, d)), G.enc(lo), G.enc(hi), bool(fx)] for k, (d, lo, hi, fx) in info["params"].items()}}


def _inject_trap(rng, tree):
    """Adds a series L-C branch to a parallel connection of the tree and returns the frequency at which that branch is an EXACT
    short (Z_L + Z_C == 0 in floating point, checked on the real elements) - a branch that shorts the connection at one
    frequency of the vector only.  Returns None when no exactly cancelling frequency is found."""
    if rng.random() < 0.6:
        L, C = TRAP_PAIRS[int(rng.integers(0, len(TRAP_PAIRS)))]
    else:
        L, C = float("%.2E" % 10 ** rng.uniform(-6, 1)), float("%.2E" % 10 ** rng.uniform(-9, 1))
    sl, sc = _plain_spec("L", L=L), _plain_spec("C", C=C)
    el, ec = G.build_element(sl), G.build_element(sc)
    f0 = 1.0 / (2.0 * math.pi * math.sqrt(L * C))
    cands = [f0]
    up = dn = f0
    for _ in range(3):
        up, dn = float(np.nextafter(up, np.inf)), float(np.nextafter(dn, 0.0))
        cands += [up, dn]
    hit = None
    for f in cands:
        z = 0j + complex(el.get_impedances(np.array([f]))[0]) + complex(ec.get_impedances(np.array([f]))[0])
        if z == 0:
            hit = f
            break
    if hit is None:
        return None
    branch = {"t": "S", "c": [sl, sc] if rng.random() < 0.5 else [sc, sl]}
    pars = []

    def walk(n):
        if n["t"] == "P":
            pars.append(n)
        if n["t"] in ("S", "P"):
            for ch in n["c"]:
                walk(ch)
    walk(tree)
    if pars:
        host = pars[int(rng.integers(0, len(pars)))]
        host["c"].insert(int(rng.integers(0, len(host["c"]) + 1)), branch)
    else:
        i = int(rng.integers(0, len(tree["c"]))) if tree["c"] else None
        if i is None:
            return None
        tree["c"][i] = {"t": "P", "c": [branch, tree["c"][i]] if rng.random() < 0.5 else [tree["c"][i], branch]}
    return hit


class Ref:
    """extended-complex reference evaluator over the intended tree, using the real elements for leaves"""

    def __init__(self, stats, freqs=None):
        self.stats = stats
        self.entirely_open_nested = False
        self.freqs = freqs
        self.index = 0
        self.cache = {}

    def eval_all(self, node, obj):
        out = []
        for i, f in enumerate(self.freqs):
            self.index = i
            out.append(self.eval(node, obj, float(f)))
        return out

    def leaf(self, elem, f):
        from pyimpspec.exceptions import InfiniteImpedance, ImpedanceError

        try:
            with np.errstate(all="ignore"):
                z = complex(elem.get_impedances(np.array([f]))[0])
            return z
        except InfiniteImpedance:
            from pyimpspec.circuit.base import Container

            if isinstance(elem, Container):
                # a container that refuses by raising (e.g. an entirely open connection inside one of its
                # sub-circuits) propagates the refusal: same latitude as an entirely open nested connection
                self.entirely_open_nested = True
            return OO
        except (ImpedanceError, NotImplementedError):
            return None  # undefined
        except Exception:
            # a leaf that raises anything else is not the reference's business: the circuit-level call is judged ('crash')
            self.stats["ref_leaf_unexpected_exception"] = self.stats.get("ref_leaf_unexpected_exception", 0) + 1
            return None

    def leaf_vector(self, elem, freqs):
        """leaf values for the whole vector: one array call, falling back to single-frequency calls when it refuses"""
        key = id(elem)
        if key in self.cache:
            return self.cache[key]
        vals = None
        try:
            with np.errstate(all="ignore"):
                z = elem.get_impedances(np.asarray(freqs, dtype=float))
            vals = [complex(x) for x in z]
        except Exception:
            vals = [self.leaf(elem, float(f)) for f in freqs]
        self.cache[key] = vals
        return vals

    def eval(self, node, obj, f, top=True):
        """node: intended tree; obj: the real object built from it (same shape). Returns complex | OO | None."""
        if node["t"] == "E":
            if self.freqs is not None:
                return self.leaf_vector(obj, self.freqs)[self.index]
            return self.leaf(obj, f)
        children = list(obj)
        vals = [self.eval(c, o, f, False) for c, o in zip(node["c"], children)]
        if any(v is None for v in vals):
            return None
        if node["t"] == "S":
            if any(v == OO for v in vals):
                return OO
            return complex(sum(vals, 0j))
        if len(vals) == 0:
            return 0j
        if any(v == 0 for v in vals):
            self.stats["ref_short_branch"] = self.stats.get("ref_short_branch", 0) + 1
            return 0j
        fin = [v for v in vals if v != OO]
        if len(fin) < len(vals):
            self.stats["ref_open_branch"] = self.stats.get("ref_open_branch", 0) + 1
        if not fin:
            if not top:
                self.entirely_open_nested = True
            return OO
        y = sum((1 / v for v in fin), 0j)
        if y == 0:
            return OO
        return 1 / y


def _lib(circuit, f):
    """returns ('ok', Z) | ('inf', exc) | ('imp', exc) | ('refuse', exc) | ('crash', exc)"""
    from pyimpspec.exceptions import InfiniteImpedance, ImpedanceError

    try:
        with np.errstate(all="ignore"):
            return "ok", circuit.get_impedances(f)
    except InfiniteImpedance as e:
        return "inf", e
    except ImpedanceError as e:
        return "imp", e
    except NotImplementedError as e:
        return "refuse", e
    except Exception as e:
        return "crash", e


def _close(a, b, rtol=RTOL):
    if a == b:
        return True
    if not (np.isfinite(a) and np.isfinite(b)):
        return False
    return abs(a - b) <= rtol * max(abs(a), abs(b)) + 1e-300


def check_tree(tree, freqs, st, viol, keys, label):
    from pyimpspec import parse_cdc, simulate_spectrum

    def bad(key, msg):
        viol.append({"key": key, "msg": f"{label}: {msg}", "witness": {"tree": G.brief(G.nf(tree)), "freqs": [float(x) for x in freqs[:6]],
                                                                      "replay_case": {"kind": "tree", "tree": tree, "freqs": [float(x) for x in freqs]}}})

    try:
        c_obj = G.build_objects(tree)
    except Exception as e:
        bad(f"C01/object-build-raised:{type(e).__name__}", monitors.tb_tail(e))
        return
    objects_only = bool(tree.get("_objects_only"))  # empty nested connections exist in the object API only
    text = c_obj.to_string(17) if not objects_only else ""
    routes = {"objects": c_obj}
    try:
        routes["objects-topdown"] = G.build_objects(tree, form="topdown")
        st["topdown"] = st.get("topdown", 0) + 1
    except Exception as e:
        bad(f"C01/topdown-build-raised:{type(e).__name__}", monitors.tb_tail(e))
    if not objects_only:
        try:
            routes["parser"] = parse_cdc(text)
        except Exception as e:
            bad(f"C01/parse-raised:{type(e).__name__}", f"{type(e).__name__}: {e} | {text[:300]}")
    if G.builder_ok(tree) and not objects_only:
        try:
            routes["builder"] = G.build_builder(tree)
        except Exception as e:
            bad(f"C01/builder-raised:{type(e).__name__}", monitors.tb_tail(e))
    # CircuitBuilder filled incrementally, converted midway, and converted again after a held element changed
    if G.builder_ok(tree) and not objects_only:
        try:
            first, second, (che, chk, chv) = G.build_builder_incremental(tree)
            routes["builder-incremental"] = first
            st["builder_incremental"] = st.get("builder_incremental", 0) + 1
            if second is not None:
                import copy as _copy

                st["builder_reconverted_after_change"] = st.get("builder_reconverted_after_change", 0) + 1
                t2 = _copy.deepcopy(tree)
                spec = [e_ for e_ in G.iter_elements(t2, include_subs=False)][che]
                spec["p"][chk][0] = G.enc(chv)
                d2 = G.compare_nf(G.nf(t2), G.nf_of_circuit(second), 2e-12)
                if d2:
                    bad("C01/builder-stale-after-change", f"after {spec['sym']}.set_values({chk}={chv!r}) on an element the builder holds, to_circuit() gives: {d2}")
        except Exception as e:
            bad(f"C01/builder-incremental-raised:{type(e).__name__}", monitors.tb_tail(e))
    # the documented Circuit(...) overloads: Circuit([elements]), Circuit(element), Circuit(Parallel)
    for form in ("list", "element", "parallel"):
        applicable = ((form == "list" and len(tree["c"]) > 0 and all(c["t"] == "E" for c in tree["c"]))
                      or (form == "element" and len(tree["c"]) == 1 and tree["c"][0]["t"] == "E")
                      or (form == "parallel" and len(tree["c"]) == 1 and tree["c"][0]["t"] == "P"))
        if applicable:
            try:
                routes["objects-" + form] = G.build_objects(tree, form=form)
                st["overload:" + form] = st.get("overload:" + form, 0) + 1
            except Exception as e:
                bad(f"C01/circuit-overload-raised:{form}:{type(e).__name__}", monitors.tb_tail(e))
    want = G.nf(tree)
    for name, c in routes.items():
        d = G.compare_nf(want, G.nf_of_circuit(c), 2e-15)
        st["nf_compared"] = st.get("nf_compared", 0) + 1
        if d:
            bad(f"C01/route-structure-differs:{name}", f"route {name} built a different circuit: {d}")

    # reference on the object route (same shape as the intended tree)
    ref = Ref(st, freqs)
    top_obj = c_obj.get_connections(recursive=False)[0]
    refvals = ref.eval_all(tree, top_obj)
    results = {}
    for name, c in routes.items():
        kind, out = _lib(c, freqs)
        results[name] = (kind, out)
        st["route:" + name] = st.get("route:" + name, 0) + 1
        if kind == "crash":
            o = monitors.exception_origin(out)
            bad(f"C01/get-impedances-raised:{type(out).__name__}@{o['func']}", f"route {name}: {monitors.tb_tail(out)}")
            continue
        undefined = any(v is None for v in refvals)
        if undefined:
            st["ref_undefined"] = st.get("ref_undefined", 0) + 1
            continue  # a leaf refuses (NaN, TLM configuration): nothing to compose
        anyinf = any(v == OO for v in refvals)
        if kind == "ok":
            if anyinf:
                bad("C01/finite-value-for-open-circuit", f"route {name}: reference is infinite at some frequency but the library returned {out[:3]}")
                continue
            st["compared_points"] = st.get("compared_points", 0) + len(freqs)
            for i, (zr, zl) in enumerate(zip(refvals, out)):
                if not _close(zr, complex(zl)):
                    bad("C01/composition-law", f"route {name}: f={freqs[i]:g} Hz library {complex(zl)} vs reference {zr} (rel {abs(zr-complex(zl))/max(abs(zr),1e-300):.2e})")
                    break
        elif kind in ("inf", "imp"):
            if anyinf:
                st["both_infinite"] = st.get("both_infinite", 0) + 1
            elif ref.entirely_open_nested and kind == "inf":
                st["nested_open_refused"] = st.get("nested_open_refused", 0) + 1
            elif any((not np.isfinite(v)) for v in refvals):
                st["ref_nonfinite"] = st.get("ref_nonfinite", 0) + 1
            else:
                bad(f"C01/impedance-error-for-finite-circuit:{type(out).__name__}", f"route {name}: reference is finite {refvals[:2]} but the library raised {type(out).__name__}: {out}")
        elif kind == "refuse":
            st["refused"] = st.get("refused", 0) + 1
    # (i) routes agree with each other
    oks = {n: r[1] for n, r in results.items() if r[0] == "ok"}
    kinds = {n: r[0] for n, r in results.items()}
    if len(set(kinds.values())) > 1 and "crash" not in kinds.values():
        # latitude: an entirely open NESTED connection may raise InfiniteImpedance; the parser merges directly nested
        # same-kind connections, so the text routes may not even contain that nested connection any more
        if ref.entirely_open_nested and set(kinds.values()) <= {"ok", "inf", "refuse", "imp"}:
            st["routes_differ_only_by_nested_open_latitude"] = st.get("routes_differ_only_by_nested_open_latitude", 0) + 1
        else:
            bad("C01/routes-disagree", f"routes disagree on the outcome: {kinds}")
    names = sorted(oks)
    for a in names[1:]:
        st["route_pairs"] = st.get("route_pairs", 0) + 1
        za, zb = oks[names[0]], oks[a]
        if not all(_close(complex(x), complex(y), 1e-9) for x, y in zip(za, zb)):
            i = next(j for j, (x, y) in enumerate(zip(za, zb)) if not _close(complex(x), complex(y), 1e-9))
            bad("C01/routes-disagree", f"{names[0]} vs {a} at f={freqs[i]:g}: {za[i]} vs {zb[i]}")
    # (ii) array == one-at-a-time == permuted/duplicated
    if "objects" in oks:
        z = oks["objects"]
        st["vector_relations"] = st.get("vector_relations", 0) + 1
        single_ok = True
        for i, f in enumerate(freqs):
            k, o = _lib(c_obj, np.array([f]))
            if k != "ok" or not _close(complex(o[0]), complex(z[i]), 1e-13):
                single_ok = False
                bad("C01/array-vs-single", f"f={f:g}: array evaluation {z[i]} vs single-frequency evaluation {o[0] if k == 'ok' else type(o).__name__}")
                break
        idx = np.concatenate([np.arange(len(freqs))[::-1], np.arange(len(freqs))[: max(1, len(freqs) // 2)]])
        k, o = _lib(c_obj, freqs[idx])
        if k != "ok" or not all(_close(complex(a), complex(b), 1e-13) for a, b in zip(o, z[idx])):
            bad("C01/array-order-dependence", f"evaluating a permuted/duplicated frequency vector changes the values: {k}")
        # (iii) simulate_spectrum pairs each Z with its frequency
        uf = np.unique(freqs)
        for order in (uf, uf[::-1]):
            try:
                ds = simulate_spectrum(c_obj, order.copy())
                ff, zz = ds.get_frequencies(masked=None), ds.get_impedances(masked=None)
                st["simulate_spectrum"] = st.get("simulate_spectrum", 0) + 1
                lookup = {float(f): complex(zv) for f, zv in zip(freqs, z)}
                if len(ff) != len(order) or (len(ff) > 1 and not np.all(np.diff(ff) < 0)):
                    bad("C01/simulate-spectrum", f"simulate_spectrum returned frequencies {ff[:4]} for input {order[:4]}")
                elif not all(_close(complex(zv), lookup[float(f)], 1e-13) for f, zv in zip(ff, zz)):
                    bad("C01/simulate-spectrum", "simulate_spectrum pairs an impedance with the wrong frequency")
            except Exception as e:
                bad(f"C01/simulate-spectrum-raised:{type(e).__name__}", monitors.tb_tail(e))
    # (iv) the form in which the frequency vector is handed over (list, integer array, read-only array, strided or reversed
    # view) is not part of the circuit: same values, and the caller's vector is left as it was
    if "objects" in oks:
        _input_forms(c_obj, freqs, oks["objects"], st, bad)
    # (v) the same element INSTANCE placed twice (object route only): series/parallel laws over the shared leaf
    if "objects" in oks:
        _aliased_leaf(c_obj, freqs, st, bad)
    # Element.get_impedances: array == one-at-a-time for every leaf (the reference relies on the array form)
    for e_obj in c_obj.get_elements(recursive=True)[:6]:
        try:
            with np.errstate(all="ignore"):
                za = e_obj.get_impedances(freqs[:4])
                zs = [e_obj.get_impedances(np.array([f]))[0] for f in freqs[:4]]
            st["leaf_array_vs_single"] = st.get("leaf_array_vs_single", 0) + 1
            if not all(_close(complex(a), complex(b), 1e-13) for a, b in zip(za, zs)):
                bad("C01/array-vs-single", f"element {e_obj.get_symbol()}: array {za[:2]} vs single {zs[:2]}")
        except Exception:
            pass
    # history clause: after a parameter of a (nested) element is changed through the public setter, the SAME circuit
    # object must report the composition of the NEW part impedances (no stale state)
    if "objects" in oks:
        els = c_obj.generate_element_identifiers(running=True)
        for e in list(els)[::-1][:2]:
            k = next(iter(e.get_values()))
            v = e.get_value(k)
            trial = v * 1.37 if v not in (0.0,) else 0.5
            if not (e.get_lower_limit(k) <= trial <= e.get_upper_limit(k)) or not np.isfinite(trial):
                continue
            e.set_values(k, trial)
            ref2 = Ref(st, freqs)
            rv2 = ref2.eval_all(tree, top_obj)
            kind2, out2 = _lib(c_obj, freqs)
            st["recheck_after_set_values"] = st.get("recheck_after_set_values", 0) + 1
            if kind2 == "ok" and not any(v2 is None or v2 == OO or not np.isfinite(v2) for v2 in rv2):
                if not all(_close(complex(a), b) for a, b in zip(out2, rv2)):
                    bad("C01/stale-after-set_values", f"after {e.get_symbol()}.set_values({k}={trial:g}) the circuit reports {out2[:2]} but its parts compose to {rv2[:2]}")
            e.set_values(k, v)
            break
    # every nested connection of the main tree obeys the laws on its own (Connection.get_impedances)
    for sub_node, sub_obj in list(_nested(tree, top_obj))[:6]:
        r3 = Ref(st, freqs[:4])
        rv = r3.eval_all(sub_node, sub_obj)
        if any(v is None or v == OO or not np.isfinite(v) for v in rv) or r3.entirely_open_nested:
            continue
        try:
            with np.errstate(all="ignore"):
                zl = sub_obj.get_impedances(freqs[:4])
        except Exception as ex:
            bad(f"C01/nested-connection-raised:{type(ex).__name__}", f"{G.brief(G.nf(sub_node))}: {ex}")
            continue
        st["nested_connection_compared"] = st.get("nested_connection_compared", 0) + 1
        if not all(_close(complex(a), b) for a, b in zip(zl, rv)):
            bad("C01/composition-law", f"nested connection {G.brief(G.nf(sub_node))}: {zl[:2]} vs reference {rv[:2]}")
    # sub-circuits of containers obey the same laws
    for e_spec, e_obj in _containers(tree, top_obj):
        for k, sub in e_spec["subs"].items():
            con = e_obj.get_subcircuit(k)
            if sub is None or con is None or G.count_elements(sub) == 0:
                continue
            r2 = Ref(st, freqs[:5])
            rv = r2.eval_all(sub, con)
            if any(v is None or v == OO or not np.isfinite(v) for v in rv):
                continue
            try:
                with np.errstate(all="ignore"):
                    zl = con.get_impedances(freqs[:5])
            except Exception as ex:
                if not r2.entirely_open_nested:
                    bad(f"C01/subcircuit-raised:{type(ex).__name__}", f"sub-circuit {k}: {ex}")
                continue
            st["subcircuit_compared"] = st.get("subcircuit_compared", 0) + 1
            if not all(_close(complex(a), b) for a, b in zip(zl, rv)):
                bad("C01/composition-law", f"sub-circuit {k} of {e_spec['sym']}: {zl[:2]} vs reference {rv[:2]}")
    keys.append((G.brief(want), tuple(sorted(kinds.items()))))


def _input_forms(c_obj, freqs, z, st, bad):
    ro = freqs.copy()
    ro.setflags(write=False)
    forms = [("list", freqs.tolist(), z), ("readonly", ro, z), ("strided", np.repeat(freqs, 2)[::2], z), ("reversed-view", freqs[::-1], z[::-1])]
    fi = np.unique(np.round(freqs[(freqs >= 0.5) & (freqs < 2**52)]))
    if fi.size:
        kf, zf = _lib(c_obj, fi.astype(float))
        if kf == "ok":
            forms += [("int-array", fi.astype(np.int64)[::-1].copy(), zf[::-1]), ("int-list", [int(x) for x in fi], zf), ("int32-array", fi[fi < 2**31].astype(np.int32), zf[fi < 2**31])]
    for name, g, want in forms:
        if len(g) == 0:
            continue
        before = np.array(g, dtype=float)
        k, o = _lib(c_obj, g)
        st["input_form:" + name] = st.get("input_form:" + name, 0) + 1
        if k != "ok":
            bad(f"C01/input-form:{name}", f"frequency vector given as {name}: {type(o).__name__}: {o} (the float64 array of the same values evaluates)")
            continue
        o = np.asarray(o)
        if o.shape != (len(before),) or not all(_close(complex(a), complex(b), 1e-13) for a, b in zip(o, want)):
            bad(f"C01/input-form:{name}", f"frequency vector given as {name}: {o[:3]} vs {np.asarray(want)[:3]} for the float64 array of the same values")
        if not np.array_equal(np.array(g, dtype=float), before):
            bad(f"C01/input-mutated:{name}", f"get_impedances changed the caller's frequency vector ({name})")
        if isinstance(g, np.ndarray) and np.shares_memory(o, g):
            bad(f"C01/input-mutated:{name}", "the returned impedances share memory with the caller's frequency vector")


def _aliased_leaf(c_obj, freqs, st, bad):
    from pyimpspec import Circuit, Series, Parallel
    from pyimpspec.circuit.base import Container

    els = [e for e in c_obj.get_elements(recursive=False) if not isinstance(e, Container)]
    if not els:
        return
    a = els[0]
    b = els[-1]
    f = freqs[:5]
    try:
        with np.errstate(all="ignore"):
            za, zb = a.get_impedances(f), b.get_impedances(f)
    except Exception:
        return
    if not (np.all(np.isfinite(za)) and np.all(np.isfinite(zb)) and np.all(za != 0) and np.all(zb != 0)):
        return
    for name, make, want in (
        ("series-twice", lambda: Circuit(Series([a, a])), za + za),
        ("parallel-twice", lambda: Circuit(Series([Parallel([a, a])])), za / 2),
        ("series-of-parallel-shared", lambda: Circuit(Series([a, Parallel([a, b])])), za + 1 / (1 / za + 1 / zb)),
        ("parallel-of-series-shared", lambda: Circuit(Series([Parallel([Series([a, b]), a]), b])), 1 / (1 / (za + zb) + 1 / za) + zb),
    ):
        try:
            with np.errstate(all="ignore"):
                c = make()
                o = c.get_impedances(f)
        except Exception as e:
            bad(f"C01/shared-instance-raised:{type(e).__name__}", f"{name} with one {a.get_symbol()} instance placed twice: {monitors.tb_tail(e)}")
            continue
        st["shared_instance"] = st.get("shared_instance", 0) + 1
        if not all(_close(complex(x), complex(y), 1e-9) for x, y in zip(o, want)):
            bad("C01/shared-instance", f"{name} with one {a.get_symbol()} instance placed twice: {o[:2]} vs composition {want[:2]}")


def _nested(node, obj, top=True):
    if node["t"] == "E":
        return
    if not top:
        yield node, obj
    for c, o in zip(node["c"], list(obj)):
        yield from _nested(c, o, False)


def _containers(node, obj):
    if node["t"] == "E":
        if node.get("subs"):
            yield node, obj
        return
    for c, o in zip(node["c"], list(obj)):
        yield from _containers(c, o)


def _freqs(rng):
    n = int(rng.choice([1, 2, 3, 5, 9, 17, 40], p=[0.1, 0.1, 0.2, 0.2, 0.2, 0.1, 0.1]))
    lf = rng.uniform(-6, 9, size=n)
    f = 10.0**lf
    r = rng.random()
    if r < 0.3:
        f = np.sort(f)
    elif r < 0.6:
        f = np.sort(f)[::-1].copy()
    return np.unique(f)[rng.permutation(len(np.unique(f)))] if r >= 0.6 else f


def gen_cases(tier, seed):
    cases = []
    maxl = 4 if tier == "quick" else 5
    for n in range(1, maxl + 1):
        ntop = len(G.topologies(n)) if n > 1 else 1
        per = 6
        for i in range(0, ntop, per):
            cases.append({"kind": "exh", "n": n, "lo": i, "hi": min(ntop, i + per), "seed": [int(seed), 1, n, i], "assign": 4 if tier == "quick" else 10})
    nr = 500 if tier == "quick" else 6000
    for i in range(nr):
        cases.append({"kind": "rand", "seed": [int(seed), 2, i], "count": 5})
    return cases


def register_open_element():
    """User-defined element registered through the public API: Xo, Z = 1/G; G = 0 makes it an open branch."""
    from pyimpspec import Element, ElementDefinition, ParameterDefinition, register_element, get_elements

    if "Xo" in get_elements(private=True):
        return

    class OpenableConductance(Element):
        def _impedance(self, f, G):
            with np.errstate(all="ignore"):
                return (np.ones(f.shape, dtype=np.complex128) / np.float64(G)).astype(np.complex128)

    register_element(
        ElementDefinition(
            Class=OpenableConductance, symbol="Xo", name="Conductance", description="Harness element: Z = 1/G (open when G = 0).",
            equation="1/G",
            parameters=[ParameterDefinition(symbol="G", unit="S", description="Conductance", value=1.0, lower_limit=0.0, upper_limit=float("inf"), fixed=False)],
        )
    )


def setup_shard():
    register_open_element()
    G.catalogue(refresh=True)
    global ALL
    ALL = G.all_symbols()


def run_case(case):
    st, viol, keys = {}, [], []
    if case["kind"] == "tree":
        check_tree(case["tree"], np.array(case["freqs"]), st, viol, keys, "replay")
        return {"evals": 1, "keys": keys, "viol": viol, "stats": st}
    rng = np.random.default_rng(case["seed"])
    trees = []
    if case["kind"] == "exh":
        for shape in G.topologies(case["n"])[case["lo"]:case["hi"]]:
            for a in range(case["assign"]):
                syms = None if a % 2 == 0 else ["R", "C", "L", "Q", "W", "Xo", "R", "L", "Xo"]
                trees.append(G.random_tree(rng, case["n"], mode="physical", shape=shape, max_sub_depth=1, leaf_syms=syms, label_classes=["none", "word"]))
    else:
        for _ in range(case["count"]):
            n = int(rng.choice([2, 3, 4, 5, 6, 8, 12], p=[0.15, 0.2, 0.2, 0.15, 0.1, 0.1, 0.1]))
            syms = None if rng.random() < 0.6 else ["R", "C", "L", "Q", "W", "R", "L", "Tlm", "Xo", "Xo"]
            trees.append(G.random_tree(rng, n, mode="physical", max_sub_depth=2, leaf_syms=syms, label_classes=["none", "word"]))
    evals = 0
    sample = None
    for t in trees:
        kinds = _specialise(rng, t)
        t = _round12(t)
        f = _freqs(rng)
        if case["kind"] == "rand" and rng.random() < 0.08:
            G.inject_empty_series(rng, t)
            kinds.add("empty_nested_series")
        if case["kind"] == "rand" and rng.random() < 0.15:
            f0 = _inject_trap(rng, t)
            if f0 is not None:
                kinds.add("partial_short")
                f = np.concatenate([f, 10.0 ** rng.uniform(-6, 9, size=2), [f0, f0 * 3, f0 / 100]])
                f = f[rng.permutation(len(f))]
        for x in kinds:
            st["tree_with_" + x] = st.get("tree_with_" + x, 0) + 1
        n0 = len(viol)
        check_tree(t, f, st, viol, keys, case["kind"])
        evals += 1
        st["trees"] = st.get("trees", 0) + 1
        for e in G.iter_elements(t):
            st["elem:" + e["sym"]] = st.get("elem:" + e["sym"], 0) + 1
        if sample is None:
            sample = {"tree": G.brief(G.nf(t)), "frequencies": [float(x) for x in f[:5]], "special": sorted(kinds)}
        if len(viol) > 15:
            break
    return {"evals": evals, "keys": keys, "viol": viol[:15], "stats": st, "sample": sample}


def finalize(agg):
    s = agg["stats"]
    inc = []
    for need in ("compared_points", "ref_open_branch", "ref_short_branch", "route_pairs", "vector_relations", "simulate_spectrum", "subcircuit_compared",
                 "overload:list", "overload:element", "overload:parallel", "builder_incremental", "builder_reconverted_after_change",
                 "input_form:list", "input_form:int-array", "input_form:reversed-view", "shared_instance"):
        if s.get(need, 0) == 0:
            inc.append(f"'{need}' never observed")
    return {"viol": [], "inconclusive": inc}
