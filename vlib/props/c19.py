"""C19 - the command-line interface reports what the API computes.

Shape: differential oracle over observed executions.  Every job is a concrete command line (argv + input files written
by the harness).  The REAL command-line interface is executed - `pyimpspec.cli.main()` in-process with patched
sys.argv / captured stdout, and a few `python -m pyimpspec ...` subprocesses for the entry-point wiring - and the text
it prints (or the files it writes with --output-to) is cut into tables (csv / json / Markdown).  Next to it the
corresponding public API calls are made with the settings the flags *document*:

  parse    parse_data(path) [-nds: the listed data sets] / generate_mock_data(ID, **kwargs) for '<ID:key=value,...>',
           [--average: DataSet.average], low_pass(-lpf), high_pass(-hpf), set_mask({i: True}) for -ei, to_dataframe()
  circuit  simulate_spectrum(parse_cdc(CDC) | generate_mock_circuits(ID)[0], logspace(max_f .. min_f, npd per decade))
  fit      fit_circuit(parse_cdc(CDC), data, method, weight, max_nfev, num_procs=1) (+ refinements on fit.circuit)
           -> to_parameters_dataframe(running=-rc), to_statistics_dataframe()
  drt      calculate_drt(data, method, <method options>, num_procs=1) -> to_statistics_dataframe(),
           to_peaks_dataframe(threshold) if --threshold >= 0, analyze_peaks(...).to_peaks_dataframe() if --analyze-peaks

  test     perform_exploratory_kramers_kronig_tests(data, test, admittance=None|-Y|-Z, num_F_ext_evaluations, log_F_ext,
           add_capacitance, add_inductance, num_RCs for --max-num-RC, num_procs=1) -> suggestion[0], or with --num-RC N the test
           with N RC elements of the SUGGESTED representation -> to_statistics_dataframe(extended_statistics=0)
           (-es 0 only: higher levels raise in both routes with this scipy)

and every printed table is compared cell by cell with the API DataFrame: same columns in the same order, same number
of rows, same text cells, numbers equal to the printed precision (vlib.c19_cli: csv shortest round-trip text, md
N significant digits, json ten decimals).

Latitude (where the statement is silent both behaviours are accepted):
 - heading lines ('<path>: <label>', 'CDC: ...'), blank lines, progress messages and plots are ignored;
 - when CLI and API both raise, that is agreement (counted); CLI refusing a filter combination that masks every point
   is accepted; only "CLI raises where the API completes" / "CLI prints where the API raises" are violations;
 - fit/drt numbers get an extra relative slack of 1e-9 (iterative numerics; worst observed 0.0), and when a fit/drt number
   disagrees the API calls are repeated unchanged and with one impedance moved by 1e-13: if the API's own numbers move by
   more than 1e-7 the analysis is ill-conditioned (observed once in ~6000 fits: a leastsq run that wandered until its
   14000-evaluation cap gave a different end point in the CLI call than in the API call of the same process and could not
   be reproduced afterwards) and the comparison carries no verdict (counted as ill_conditioned_no_verdict);
 - noise without a seed is not reproducible on either side and is not generated; inputs whose output order the CLI
   defines by its own grouping (same mock label in non-adjacent positions) are not generated; non-positive cut-offs,
   spans that are not a whole number of decades for `circuit --simulate`, BHT (global RNG), TR-RBF (no convex solver
   installed), lm/pseudo_chisqr (18-35 s) are not generated; json null for non-finite numbers is accepted.

Candidate finding (own key, listed in known_findings.json): json output is written with pandas' fixed ten decimals, so
numbers below ~1e-5 carry fewer significant digits than --output-significant-digits (default 6) asks for and numbers
below 5e-11 are printed as 0.0 (e.g. a fitted capacitance 8.0667e-07 F is printed 0.0000008067).
"""
import json
import math
import os
import re
import shutil
import tempfile
import warnings

import numpy as np

from .. import c06_files as F
from .. import c19_cli as C
from .. import env
from .. import gen_circuit as G
from .. import monitors

ID = "C19"
RULE = (
    "jobs = concrete command lines generated from rng([seed, block, case]): (parse) files written by the C06 writers "
    "(csv cells + 6 instrument layouts, 1-3 sweeps) x {-lpf, -hpf on/between points, -ei in/out of range, -nds, 2 inputs} x "
    "{csv, json, md, markdown, default} x {-osd 3/10/15} x {-oi} x {stdout | --output-to files} x long/short flag spellings; "
    "(mock) '<ID:key=value,...>' over all 35 identifiers, wildcards and CDC identifiers with random typed kwargs, also "
    "--average; (circuit) CDCs printed from random gen_circuit trees, fit-model CDCs and mock identifiers x -f/-F/-npd; "
    "(fit) 9 mock circuits x perturbed start values x 9 methods x 4 weights x {max-nfev, refinements, running count, "
    "fixed parameters, labels} on mock specifiers and on files; (drt) tr-nnls {real, imaginary, complex} x {lambda fixed "
    "| automatic} x {max-iter given | default}, lm {matrix_rank | fixed order}, mrq-fit, x threshold x analyze-peaks; (test) the "
    "Kramers-Kronig command over the cells {automatic | explicit --num-RC} x {automatic representation | -Y | -Z} x spectra for "
    "which the impedance / the admittance representation is suggested x {real, complex, imaginary} x {-nFee 0 with 4 log Fext "
    "values, --max-num-RC; thorough also +-10 evaluations} x {-C, -L}; (multi) fit/drt "
    "invocations with 2-3 data sets (several specifiers, a wildcard, a 2-3 sweep file) x 0/1/2 refinements, every data set "
    "compared with its own API route from the CDC as given; a few "
    "of each as real subprocesses. A job is non-trivial when at least one table with >= 1 number was compared; distinct = "
    "distinct (clause, format, option cell, input kind, method cell) keys."
)
ASSUMPTIONS = [
    "python float()/repr(), json.loads and csv.reader are the trusted readers of the printed text",
    "pandas.to_csv writes round-trip float text, tabulate applies '.Ng' to float columns, pandas.to_json rounds to 10 decimals (self-checked at start-up on a hand-made frame)",
    "the API called twice with the same arguments in one process returns the same numbers (pilot: 180 (method, weight) fits and 30 DRT runs repeated bit-identically)",
    "the harness' file writers are those of C06 (self-checked there); the expected numbers come from the public API, not from the writers",
]
SHARDS = 16
CASE_TIMEOUT = 600
MIN_EVALS = 200
EXHAUSTIVE = False

SIGKEY = "C19/json-fewer-significant-digits-than-requested"
PROBE_REL = 1e-13    # conditioning probe: relative change of one impedance value
PROBE_AMPLIFIED = 1e-7  # an analysis whose numbers move by more than this under the probe is ill-conditioned (no verdict)

FLAGS = {
    "lpf": ("--low-pass-filter", "-lpf"), "hpf": ("--high-pass-filter", "-hpf"), "ei": ("--exclude-indices", "-ei"),
    "nds": ("--nth-data-set", "-nds"), "average": ("--average", "-a"), "of": ("--output-format", "-of"),
    "osd": ("--output-significant-digits", "-osd"), "oi": ("--output-indices", "-oi"), "ot": ("--output-to", "-ot"),
    "od": ("--output-dir", "-od"), "on": ("--output-name", "-on"), "method": ("--method", "-me"), "weight": ("--weight", "-we"),
    "nr": ("--num-refinements", "-nr"), "rc": ("--running-count", "-rc"), "mode": ("--mode", "-mo"), "lambda_value": ("--lambda-value", "-lv"),
    "threshold": ("--threshold", "-t"), "model_order": ("--model-order", "-k"), "model_order_method": ("--model-order-method", "-km"),
    "circuit": ("--circuit", "-c"), "gaussian_width": ("--gaussian-width", "-gw"), "npd": ("--num-per-decade", "-npd"),
    "min_f": ("--min-frequency", "-f"), "max_f": ("--max-frequency", "-F"), "simulate": ("--simulate", "-s"),
    "analyze_peaks": ("--analyze-peaks", "-ap"), "num_peaks": ("--num-peaks", "-np"), "disallow_skew": ("--disallow-skew", "-ds"),
    "num_RC": ("--num-RC", "-n"), "max_num_RC": ("--max-num-RC", "-N"), "admittance": ("--admittance", "-Y"), "impedance": ("--impedance", "-Z"),
    "test": ("--test", "-t"), "nfee": ("--num-F-ext-evaluations", "-nFee"), "log_F_ext": ("--log-F-ext", "-lFe"),
    "no_capacitance": ("--no-capacitance", "-C"), "no_inductance": ("--no-inductance", "-L"), "es": ("--extended-statistics", "-es"),
    "max_nfev": ("--max-nfev", "--max-nfev"), "max_iter": ("--max-iter", "--max-iter"), "num_procs": ("--num-procs", "--num-procs"),
}

MOCK_VALID = ["CIRCUIT_%d" % i for i in range(1, 20)]
MOCK_INVALID = ["CIRCUIT_%d_INVALID" % i for i in range(1, 17)]
MOCK_WILD = ["CIRCUIT_7*", "*_INVALID", "CIRCUIT_1*", "*13*", "CIRCUIT_1_*", "*9"]
MOCK_CDC = ["R{R=50}(R{R=100}C{C=1e-6})", "R{R=5:a}(C{C=1e-5:b}R{R=7})", "RL", "[R(RC)]", "R{R=25}(R{R=125}Q{Y=1e-6,n=0.97})Ws{Y=0.01,B=2}",
            "(C{C=2e-10}[R{R=1.5e3}(Q{Y=5e-5,n=0.8}R{R=500})])", "R{R=1:x:y}C{C=0.1}"]

# (mock identifier, CDC template, true values, kind per slot: v = positive value, n = exponent in (0, 1])
FIT_MODELS = [
    ("CIRCUIT_1", "R{{R={0}}}(R{{R={1}}}C{{C={2}}})(R{{R={3}}}W{{Y={4}}})", [100, 200, 0.8e-6, 500, 4e-4], "vvvvv"),
    ("CIRCUIT_2", "R{{R={0}}}(R{{R={1}}}Q{{Y={2},n={3}}})", [120, 430, 6.2e-5, 0.93], "vvvn"),
    ("CIRCUIT_2_INVALID", "R{{R={0}}}(R{{R={1}}}Q{{Y={2},n={3}}})", [120, 430, 6.2e-5, 0.93], "vvvn"),
    ("CIRCUIT_3", "R{{R={0}}}(Q{{Y={1},n={2}}}[R{{R={3}}}W{{Y={4}}}])", [20, 25e-6, 0.89, 100, 2.357e-3], "vvnvv"),
    ("CIRCUIT_5", "R{{R={0}}}(R{{R={1}}}Q{{Y={2},n={3}}})(R{{R={4}}}Q{{Y={5},n={6}}})(R{{R={7}}}Q{{Y={8},n={9}}})",
     [144, 240.7, 1.792e-7, 0.91, 830.1, 7.157e-7, 0.87, 490.3, 1.629e-5, 0.94], "vvvnvvnvvn"),
    ("CIRCUIT_10", "R{{R={0}}}", [100], "v"),
    ("CIRCUIT_11", "R{{R={0}}}C{{C={1}}}", [1, 0.1], "vv"),
    ("CIRCUIT_12", "R{{R={0}}}L{{L={1}}}", [1, 1e-2], "vv"),
    ("CIRCUIT_13", "R{{R={0}}}(R{{R={1}}}C{{C={2}}})(R{{R={3}}}C{{C={4}}})(R{{R={5}}}L{{L={6}}})", [70, 200, 2.5e-3, 100, 1e-4, 50, 3e2], "vvvvvvv"),
]
FIT_METHODS = ["leastsq", "least_squares", "nelder", "lbfgsb", "powell", "cg", "bfgs", "tnc", "slsqp"]
FIT_WEIGHTS = ["modulus", "proportional", "unity", "boukamp"]
DRT_MOCKS = ["CIRCUIT_1", "CIRCUIT_2", "CIRCUIT_3", "CIRCUIT_5", "CIRCUIT_6", "CIRCUIT_13", "CIRCUIT_14", "CIRCUIT_2_INVALID"]

_TMP = None
_XDG = None
_JOBNO = [0]


class _Refused(Exception):
    """The documented behaviour for this input is a refusal (e.g. every point masked)."""


# ------------------------------------------------------------------------------------------------
# shard set-up
# ------------------------------------------------------------------------------------------------
def setup_shard():
    global _TMP, _XDG
    _TMP = tempfile.mkdtemp(prefix="c19-", dir=os.environ.get("VERIF_SCRATCH") or None)
    _XDG = os.path.join(_TMP, "xdg")
    os.makedirs(_XDG, exist_ok=True)
    os.environ["XDG_CONFIG_HOME"] = _XDG  # the CLI must not read a user configuration
    import atexit

    atexit.register(shutil.rmtree, _TMP, True)
    G.catalogue()


def shard_report():
    return dict(monitors.COUNTERS)


# ------------------------------------------------------------------------------------------------
# small helpers
# ------------------------------------------------------------------------------------------------
def _fl(job, name):
    return FLAGS[name][1 if job.get("short") else 0]


def _num(x):
    return repr(float(x))


def _canon_fmt(fmt):
    return {"csv": "csv", "json": "json", "md": "md", "markdown": "md", None: "md"}[fmt]


def _typed_kwargs(kw):
    """Typed keyword arguments the specifier text denotes (documented types of generate_mock_data's keywords)."""
    types = {"noise": float, "num_per_decade": int, "log_max_f": float, "log_min_f": float, "seed": int, "drift": float}
    return {k: types[k](v) for k, v in kw.items()}


def _spec(ident, kw, sep=","):
    if not kw:
        return "<%s>" % ident
    return "<%s:%s>" % (ident, sep.join("%s=%s" % (k, v) for k, v in kw.items()))


def _job_with_sweeps(cfg, sweeps):
    """A C06 file job whose spectrum is the given one (the C06 builders call F.gen_sweeps)."""
    orig = F.gen_sweeps
    F.gen_sweeps = lambda rng, n, nsweeps, order: sweeps
    try:
        return F.build_job(cfg)
    finally:
        F.gen_sweeps = orig


def _rand_fmt(rng, job):
    job["fmt"] = [None, "csv", "json", "md", "markdown", "csv", "json", "md"][int(rng.integers(0, 8))]
    job["osd"] = None
    if rng.random() < 0.45:
        job["osd"] = int(rng.choice([3, 10, 15, 2, 8]))
    job["oi"] = bool(rng.random() < 0.2)
    job["short"] = bool(rng.random() < 0.5)
    job["suppress"] = True


# ------------------------------------------------------------------------------------------------
# job generators (all concrete and JSON-able)
# ------------------------------------------------------------------------------------------------
def _file_input(rng, cfg=None, sweeps=None, physical=False, nsweeps=1):
    """Returns (file record, input record, list of descending frequency lists per data set)."""
    for _ in range(50):
        if cfg is None:
            layout = str(rng.choice(["csv", "csv", "csv", "csv"] + sorted(F.INST)))
            if physical and nsweeps > 1:
                layout = str(rng.choice(["csv", "csv", "mpt"]))  # the layouts that can hold several sweeps
            if layout == "csv":
                pinned = {"mode": str(rng.choice(["ext:.csv", "ext:.txt", "ext:.CSV"]))}
                if physical:
                    pinned.update(nsweeps=nsweeps, numfmt=str(rng.choice(["repr", "g17", "E15", "e7"])))
                c = F.random_csv_config(rng, pinned)
            else:
                c = F.random_inst_config(rng, layout)
                c["mode"] = str(rng.choice(["ext", "ext", "extlower", "extupper"]))
                if physical:
                    c["nsweeps"] = nsweeps
        else:
            c = cfg
        if c is None:
            continue
        if sweeps is not None:
            sw = [(list(f), list(z)) if c["order"] == "desc" else (list(f)[::-1], list(z)[::-1]) for f, z in sweeps]
            fj = _job_with_sweeps(c, sw)
        else:
            fj = F.build_job(c)
        fs = [sorted((float(x) for x in e["f"]), reverse=True) for e in fj["expected"]]
        rec = {"filename": fj["filename"], "text": fj["text"], "encoding": fj["encoding"]}
        cell = fj["cell"] + ("/%d-sweeps" % len(fs))
        return rec, {"file": fj["filename"], "cell": cell}, fs
    raise RuntimeError("no valid file configuration found")


def _kept(fs, lpf, hpf, ei):
    return sum(1 for i, f in enumerate(fs) if not (lpf and f > lpf) and not (hpf and f < hpf) and i not in ei)


def _rand_filters(rng, job, fsets):
    """Draw -lpf / -hpf / -ei such that at least one point of every data set survives (precondition of the commands)."""
    job["lpf"] = job["hpf"] = None
    job["ei"] = []
    if not fsets or min(len(f) for f in fsets) < 2:
        return
    allf = sorted({f for fs in fsets for f in fs})
    nmin, nmax = min(len(f) for f in fsets), max(len(f) for f in fsets)
    for _ in range(12):
        lpf = hpf = None
        ei = []
        r = rng.random()
        if r < 0.55:
            x = float(allf[int(rng.integers(0, len(allf)))])
            lpf = x if rng.random() < 0.5 else x * float(rng.uniform(1.01, 1.5))
        if rng.random() < 0.5:
            x = float(allf[int(rng.integers(0, len(allf)))])
            hpf = x if rng.random() < 0.5 else x * float(rng.uniform(0.6, 0.99))
        if rng.random() < 0.5:
            k = int(rng.integers(1, min(4, nmin) + 1))
            ei = sorted(int(i) for i in rng.choice(nmin, size=min(k, nmin), replace=False))
            if rng.random() < 0.25:
                ei.append(nmax + int(rng.integers(0, 4)))
        if all(_kept(fs, lpf, hpf, ei) >= 1 for fs in fsets):
            job["lpf"], job["hpf"], job["ei"] = lpf, hpf, ei
            return


def gen_parse_job(rng):
    job = {"cmd": "parse", "clause": "parse", "mode": "inproc", "files": [], "inputs": [], "average": False, "nds": [], "ot": False}
    rec, inp, fsets = _file_input(rng)
    job["files"].append(rec)
    job["inputs"].append(inp)
    if len(fsets) > 1 and rng.random() < 0.5:
        k = int(rng.integers(1, len(fsets) + 1))
        nds = sorted(int(i) for i in rng.choice(len(fsets), size=k, replace=False))
        fsets = [fsets[i] for i in nds]
        if rng.random() < 0.3:
            nds.append(len(job["files"]) + 5)
        job["nds"] = nds
    if not job["nds"] and rng.random() < 0.2:
        rec2, inp2, fsets2 = _file_input(rng)
        if rec2["filename"] != rec["filename"]:
            job["files"].append(rec2)
            job["inputs"].append(inp2)
            fsets = fsets + fsets2
    _rand_filters(rng, job, fsets)
    _rand_fmt(rng, job)
    if len(job["inputs"]) == 1 and rng.random() < 0.25:
        job["ot"] = True
        # an explicit name only when one file is written (the naming of further files is the CLI's own business)
        job["on"] = str(rng.choice(["", "", "result"])) if len(fsets) == 1 else ""
    return job


def _rand_mock_kwargs(rng, ident, seeded_noise=True):
    kw = {}
    if rng.random() < 0.7:
        kw["noise"] = str(rng.choice(["0.5", "1", "2.5e-1", "5", "0.05", "1e-2", "3.0"]))
        kw["seed"] = str(int(rng.choice([0, 1, 7, 42, 12345, 2**31 + 5, 2**33 + 3])))
    if rng.random() < 0.4:
        kw["num_per_decade"] = str(int(rng.choice([1, 2, 3, 5, 7, 12])))
    if rng.random() < 0.3:
        hi = float(rng.choice([3, 4.5, 5, 6]))
        lo = float(rng.choice([-2, -1, 0, 0.5, 1]))
        kw["log_max_f"] = str(rng.choice([repr(hi), "%g" % hi, "%.1e" % hi]))
        if rng.random() < 0.7:
            kw["log_min_f"] = str(rng.choice([repr(lo), "%g" % lo]))
    elif rng.random() < 0.15:
        kw["log_min_f"] = str(rng.choice(["-2.5", "-1", "-3.0"]))
    if "INVALID" in ident or "*" in ident:
        if rng.random() < 0.5:
            kw["drift"] = str(rng.choice(["0.5", "2", "1e-1", "0", "3.5"]))
    keys = list(kw.keys())
    order = [keys[int(i)] for i in rng.permutation(len(keys))]
    return {k: kw[k] for k in order}


def _mock_fsets(ident, kw):
    from pyimpspec import generate_mock_data

    with warnings.catch_warnings():
        warnings.simplefilter("ignore")
        return [[float(x) for x in d.get_frequencies(masked=None)] for d in generate_mock_data(ident, **_typed_kwargs(kw))]


def gen_mock_job(rng):
    job = {"cmd": "parse", "clause": "mock", "mode": "inproc", "files": [], "inputs": [], "average": False, "nds": [], "ot": False}
    r = rng.random()
    if r < 0.55:
        ident = str(rng.choice(MOCK_VALID + MOCK_INVALID))
    elif r < 0.75:
        ident = str(rng.choice(MOCK_WILD))
    else:
        ident = str(rng.choice(MOCK_CDC))
    kw = _rand_mock_kwargs(rng, ident)
    sep = str(rng.choice([",", ", ", " ,"]))
    job["inputs"].append({"mock": ident, "kw": kw, "spec": _spec(ident, kw, sep), "cell": "mock:" + ("wild" if "*" in ident else "cdc" if ident in MOCK_CDC else "id")})
    fsets = _mock_fsets(ident, kw)
    r = rng.random()
    if r < 0.15 and "*" not in ident and "seed" in kw:
        # --average over the same circuit with different seeds
        kw2 = dict(kw)
        kw2["seed"] = str(int(kw["seed"]) + 1)
        job["inputs"].append({"mock": ident, "kw": kw2, "spec": _spec(ident, kw2, sep), "cell": "mock:id"})
        job["average"] = True
    elif r < 0.3 and "*" not in ident:
        ident2 = str(rng.choice([m for m in MOCK_VALID if m != ident]))
        kw2 = _rand_mock_kwargs(rng, ident2)
        job["inputs"].append({"mock": ident2, "kw": kw2, "spec": _spec(ident2, kw2), "cell": "mock:id"})
        fsets = fsets + _mock_fsets(ident2, kw2)
    if job["average"]:
        _rand_filters(rng, job, fsets[:1])
    else:
        _rand_filters(rng, job, fsets)
    _rand_fmt(rng, job)
    if rng.random() < 0.5:
        job["fmt"] = "csv"  # the bit-identical clause
    return job


def _rand_cdc(rng):
    r = rng.random()
    if r < 0.2:
        mid, tmpl, truth, kinds = FIT_MODELS[int(rng.integers(0, len(FIT_MODELS)))]
        return tmpl.format(*["%.6g" % v for v in truth]), "model"
    n = int(rng.choice([1, 2, 3, 4, 5, 7]))
    tree = G.random_tree(rng, n, mode="physical", label_classes=["none", "none", "word", "lead-digit", "inner-space", "punct"], max_sub_depth=1)
    variant = G.random_variant(rng)
    variant["header"] = str(rng.choice(["", "", "!V=1!"]))
    text = G.print_cdc(tree, int(rng.choice([17, 17, 6, 3])), variant, rng)
    return text, "tree"


def gen_circuit_job(rng):
    job = {"cmd": "circuit", "clause": "circuit", "mode": "inproc", "files": [], "inputs": [], "ot": True}
    k = int(rng.choice([1, 1, 2, 3]))
    for i in range(k):
        if rng.random() < 0.2:
            ident = str(rng.choice(MOCK_VALID + MOCK_INVALID))
            kw = {"drift": str(rng.choice(["0.5", "2"]))} if ("INVALID" in ident and rng.random() < 0.5) else {}
            job["inputs"].append({"mock": ident, "kw": kw, "spec": _spec(ident, kw), "cell": "mock"})
        else:
            text, kind = _rand_cdc(rng)
            if text.lstrip().startswith("-") or text.startswith("<"):
                text = "[" + text + "]"
            job["inputs"].append({"cdc": text, "cell": kind})
    job["names"] = ["sim%d" % i for i in range(k)]
    if rng.random() < 0.15:
        job["min_f"] = job["max_f"] = job["npd"] = None  # documented defaults: 1e-2 .. 1e5, 100 per decade
    else:
        a = float(rng.integers(-4, 4))
        m = float(rng.choice([1.0, 1.0, 2.5, 5.0, 3.0]))
        d = int(rng.integers(1, 7))
        job["min_f"] = m * 10.0 ** a
        job["max_f"] = m * 10.0 ** (a + d)
        job["npd"] = int(rng.choice([1, 2, 3, 5, 10]))
        if rng.random() < 0.2:
            job["npd"] = None
    _rand_fmt(rng, job)
    job["oi"] = bool(rng.random() < 0.15)
    return job


def _model_cdc(rng, model, spread=0.08, decorate=True):
    mid, tmpl, truth, kinds = model
    vals = []
    for v, k in zip(truth, kinds):
        if k == "n":
            vals.append("%.4g" % float(np.clip(v + rng.uniform(-0.04, 0.04), 0.5, 1.0)))
        else:
            vals.append("%.5g" % (v * 10.0 ** rng.uniform(-spread, spread)))
    fixed = None
    if decorate and len(vals) > 1 and rng.random() < 0.25:
        fixed = int(rng.integers(0, len(vals)))
        vals[fixed] = ("%.6g" % truth[fixed]) + "F"
    cdc = tmpl.format(*vals)
    if decorate and rng.random() < 0.3:
        cdc = cdc.replace("}", ":%s}" % str(rng.choice(["ct", "bulk", "x1", "my label", "2nd"])), 1)
    return cdc, fixed is not None


def _analysis_input(rng, job, mid, noise_choices=("0.05", "0.2", "0.5", "1", "2")):
    """Mock specifier (70 %) or a file holding the same kind of spectrum (30 %); optional filters."""
    from pyimpspec import generate_mock_data

    kw = {"noise": str(rng.choice(noise_choices)), "seed": str(int(rng.integers(0, 100000)))}
    if rng.random() < 0.3:
        kw["num_per_decade"] = str(int(rng.choice([5, 8, 12])))
    if rng.random() < 0.7:
        job["inputs"].append({"mock": mid, "kw": kw, "spec": _spec(mid, kw), "cell": "mock"})
        fsets = _mock_fsets(mid, kw)
    else:
        with warnings.catch_warnings():
            warnings.simplefilter("ignore")
            d = generate_mock_data(mid, **_typed_kwargs(kw))[0]
        f = [float(x) for x in d.get_frequencies(masked=None)]
        Z = [complex(z) for z in d.get_impedances(masked=None)]
        rec, inp, fsets = _file_input(rng, sweeps=[(f, Z)], physical=True)
        job["files"].append(rec)
        job["inputs"].append(inp)
    job["lpf"] = job["hpf"] = None
    job["ei"] = []
    if rng.random() < 0.35:
        # mild filters: keep most of the spectrum so that the analysis stays well-posed
        fs = fsets[0]
        n = len(fs)
        if n >= 12:
            if rng.random() < 0.5:
                job["lpf"] = float(fs[int(rng.integers(0, 3))])
            if rng.random() < 0.5:
                job["hpf"] = float(fs[n - 1 - int(rng.integers(0, 3))])
            if rng.random() < 0.5:
                job["ei"] = sorted(int(i) for i in rng.choice(np.arange(3, n - 3), size=int(rng.integers(1, 3)), replace=False))
    return fsets


def gen_fit_job(rng):
    job = {"cmd": "fit", "clause": "fit", "mode": "inproc", "files": [], "inputs": [], "ot": False, "nds": [], "average": False}
    model = FIT_MODELS[int(rng.integers(0, len(FIT_MODELS)))]
    job["cdc"], job["has_fixed"] = _model_cdc(rng, model)
    _analysis_input(rng, job, model[0])
    job["method"] = str(rng.choice(FIT_METHODS))
    job["weight"] = str(rng.choice(FIT_WEIGHTS))
    job["max_nfev"] = int(rng.choice([15, 40, 200])) if rng.random() < 0.25 else None
    job["nr"] = int(rng.choice([1, 2])) if rng.random() < 0.2 else 0
    job["rc"] = bool(rng.random() < 0.3)
    _rand_fmt(rng, job)
    if rng.random() < 0.15:
        job["ot"] = True
        job["on"] = ""
    return job


def gen_drt_job(rng, allow_slow=False):
    job = {"cmd": "drt", "clause": "drt", "mode": "inproc", "files": [], "inputs": [], "ot": False, "nds": [], "average": False}
    r = rng.random()
    opts = {}
    if r < 0.78:
        job["method"] = "tr-nnls"
        mid = str(rng.choice(DRT_MOCKS))
        if rng.random() < 0.8:
            opts["mode"] = str(rng.choice(["real", "imaginary", "complex"]))
        if rng.random() < 0.6:
            opts["lambda_value"] = float(rng.choice([1e-4, 1e-3, 1e-2, 0.1, 3e-3, -2.0, -3.0, -0.5, 0.0]))  # every documented regime: fixed, custom suggestion (-1.5..0], L-curve (< -1.5)
        if rng.random() < 0.8:
            opts["max_iter"] = 100000  # default iteration budget of scipy's nnls fails on ~24 % of spectra (C18 finding)
    elif r < 0.88 or not allow_slow:
        job["method"] = "lm"
        mid = str(rng.choice(["CIRCUIT_1", "CIRCUIT_2", "CIRCUIT_5", "CIRCUIT_13", "CIRCUIT_6"]))
        if rng.random() < 0.5:
            opts["model_order"] = int(rng.choice([3, 5, 8, 12]))
        if rng.random() < 0.3:
            opts["model_order_method"] = "matrix_rank"
    else:
        job["method"] = "mrq-fit"
        mid = "CIRCUIT_2"
        opts["circuit"] = _model_cdc(rng, FIT_MODELS[1], spread=0.03, decorate=False)[0]
        opts["max_nfev"] = int(rng.choice([10, 20]))
        if rng.random() < 0.5:
            opts["gaussian_width"] = float(rng.choice([0.1, 0.2]))
        if rng.random() < 0.5:
            opts["num_per_decade"] = int(rng.choice([10, 20]))
    job["opts"] = opts
    _analysis_input(rng, job, mid, noise_choices=("0.05", "0.2", "0.5", "1"))
    job["threshold"] = float(rng.choice([0.0, 0.05, 0.1, 0.3, 0.5])) if rng.random() < 0.8 else None
    job["analyze_peaks"] = None
    if job["method"] == "tr-nnls" and mid in ("CIRCUIT_2", "CIRCUIT_5", "CIRCUIT_1") and rng.random() < 0.25:
        ap = {}
        if rng.random() < 0.4:
            ap["num_peaks"] = int(rng.choice([1, 2]))
        if rng.random() < 0.4:
            ap["disallow_skew"] = True
        job["analyze_peaks"] = ap
    _rand_fmt(rng, job)
    if rng.random() < 0.15:
        job["ot"] = True
        job["on"] = ""
    return job


MULTI_WILD = {"CIRCUIT_2": "CIRCUIT_2*", "CIRCUIT_3": "CIRCUIT_3*", "CIRCUIT_5": "CIRCUIT_5*"}  # each matches <ID> and <ID>_INVALID only


def _multi_input(rng, job, mid, noises=("0.05", "0.2", "0.5", "1")):
    """2-3 data sets in ONE invocation: several specifiers of the same circuit (adjacent, so the CLI's grouping by label keeps
    the input order), a wildcard specifier, or a 2-3 sweep file written by the C06 writers.  Returns the number of data sets."""
    from pyimpspec import generate_mock_data

    k = int(rng.choice([2, 2, 3]))
    seed0 = int(rng.integers(0, 100000))
    base = {"noise": str(rng.choice(noises))}
    if rng.random() < 0.3:
        base["num_per_decade"] = str(int(rng.choice([5, 8])))
    r = rng.random()
    if r < 0.25 and mid in MULTI_WILD:
        kw = dict(base, seed=str(seed0))
        job["inputs"].append({"mock": MULTI_WILD[mid], "kw": kw, "spec": _spec(MULTI_WILD[mid], kw), "cell": "mock:wild-2"})
        n = 2
    elif r < 0.65:
        for i in range(k):
            kw = dict(base, seed=str(seed0 + i))
            job["inputs"].append({"mock": mid, "kw": kw, "spec": _spec(mid, kw), "cell": "mock:%d-specs" % k})
        n = k
    else:
        sweeps = []
        for i in range(k):
            with warnings.catch_warnings():
                warnings.simplefilter("ignore")
                d = generate_mock_data(mid, **_typed_kwargs(dict(base, seed=str(seed0 + i))))[0]
            sweeps.append(([float(x) for x in d.get_frequencies(masked=None)], [complex(z) for z in d.get_impedances(masked=None)]))
        rec, inp, fsets = _file_input(rng, sweeps=sweeps, physical=True, nsweeps=k)
        job["files"].append(rec)
        job["inputs"].append(inp)
        n = len(fsets)
    job["lpf"] = job["hpf"] = None
    job["ei"] = []
    job["multi"] = n
    return n


def gen_fit_multi_job(rng):
    """Several data sets fitted by one `fit` invocation x 0/1/2 refinements: every data set must be fitted from the CDC as given."""
    job = {"cmd": "fit", "clause": "fit", "mode": "inproc", "files": [], "inputs": [], "ot": False, "nds": [], "average": False}
    model = FIT_MODELS[int(rng.choice([0, 1, 3, 4, 6, 8]))]
    job["cdc"], job["has_fixed"] = _model_cdc(rng, model, spread=0.1)
    _multi_input(rng, job, model[0])
    job["method"] = str(rng.choice(["leastsq", "least_squares", "leastsq", "least_squares", "lbfgsb", "nelder"]))
    job["weight"] = str(rng.choice(FIT_WEIGHTS))
    job["max_nfev"] = None
    job["nr"] = int(rng.integers(0, 3))
    job["rc"] = bool(rng.random() < 0.2)
    _rand_fmt(rng, job)
    return job


def gen_drt_multi_job(rng):
    job = {"cmd": "drt", "clause": "drt", "mode": "inproc", "files": [], "inputs": [], "ot": False, "nds": [], "average": False}
    opts = {}
    if rng.random() < 0.8:
        job["method"] = "tr-nnls"
        mid = str(rng.choice(["CIRCUIT_1", "CIRCUIT_2", "CIRCUIT_3", "CIRCUIT_5", "CIRCUIT_13"]))
        opts["mode"] = str(rng.choice(["real", "imaginary", "complex"]))
        if rng.random() < 0.5:
            opts["lambda_value"] = float(rng.choice([1e-3, 1e-2, -2.0]))
        opts["max_iter"] = 100000
    else:
        job["method"] = "mrq-fit"
        mid = "CIRCUIT_2"
        opts["circuit"] = _model_cdc(rng, FIT_MODELS[1], spread=0.03, decorate=False)[0]
        opts["max_nfev"] = 10
    job["opts"] = opts
    _multi_input(rng, job, mid)
    job["threshold"] = float(rng.choice([0.0, 0.1, 0.3]))
    job["analyze_peaks"] = None
    _rand_fmt(rng, job)
    return job


# Kramers-Kronig `test` jobs: option cells (number of RC elements, representation, kind of spectrum).  Pilot (18 spectra per entry:
# 3 point densities x 3 seeds x 2 noise levels, -nFee 0): the impedance representation is suggested 18/18 for CIRCUIT_11 (real,
# complex), CIRCUIT_12 (imaginary), 15/18 for CIRCUIT_1 (real); the admittance representation 18/18 for CIRCUIT_8, 16-18/18 for CIRCUIT_3.
KK_Z_SPECTRA = [("CIRCUIT_12", "imaginary"), ("CIRCUIT_11", "real"), ("CIRCUIT_11", "complex")]
KK_Y_SPECTRA = [("CIRCUIT_8", "real"), ("CIRCUIT_8", "imaginary"), ("CIRCUIT_8", "complex")]
KK_ANY_SPECTRA = [("CIRCUIT_1", "real"), ("CIRCUIT_3", "imaginary"), ("CIRCUIT_2", "real"), ("CIRCUIT_5", "complex"), ("CIRCUIT_1", "imaginary"),
                  ("CIRCUIT_3", "real"), ("CIRCUIT_2_INVALID", "real"), ("CIRCUIT_13", "imaginary")]
KK_CELLS = [("explicit", "auto", "Z"), ("explicit", "auto", "Y"), ("auto", "auto", "Z"), ("explicit", "Y", "any"), ("explicit", "Z", "any"),
            ("auto", "auto", "Y"), ("auto", "Y", "any"), ("auto", "Z", "any"), ("explicit", "auto", "any"), ("auto", "auto", "any"),
            ("explicit", "auto", "Z"), ("explicit", "auto", "Y")]


def gen_test_job(rng, slot=0, slow=False):
    """`pyimpspec test` (Kramers-Kronig): cell = KK_CELLS[slot % 12] so that every quick run (12 jobs) holds every cell."""
    from pyimpspec import generate_mock_data

    numrc, rep, kind = KK_CELLS[int(slot) % len(KK_CELLS)]
    pool = {"Z": KK_Z_SPECTRA, "Y": KK_Y_SPECTRA, "any": KK_ANY_SPECTRA}[kind]
    mid, test = pool[int(rng.integers(0, len(pool)))]
    job = {"cmd": "test", "clause": "test", "mode": "inproc", "files": [], "inputs": [], "ot": False, "nds": [], "average": False,
           "lpf": None, "hpf": None, "ei": [], "test": test, "rep": rep, "kk_kind": kind}
    kw = {"noise": str(rng.choice(["0.05", "0.2", "0.5"])), "seed": str(int(rng.integers(0, 100000)))}
    if rng.random() < 0.8:
        kw["num_per_decade"] = str(int(rng.choice([4, 5, 6])))
    if rng.random() < 0.75:
        job["inputs"].append({"mock": mid, "kw": kw, "spec": _spec(mid, kw), "cell": "mock"})
    else:
        with warnings.catch_warnings():
            warnings.simplefilter("ignore")
            d = generate_mock_data(mid, **_typed_kwargs(kw))[0]
        rec, inp, _fs = _file_input(rng, sweeps=[([float(x) for x in d.get_frequencies(masked=None)], [complex(z) for z in d.get_impedances(masked=None)])], physical=True)
        job["files"].append(rec)
        job["inputs"].append(inp)
    job["num_RC"] = int(rng.integers(3, 13)) if numrc == "explicit" else None
    job["max_num_RC"] = int(rng.choice([15, 25])) if (numrc == "auto" and rng.random() < 0.5) else None
    job["nfee"] = 0
    job["log_F_ext"] = float(rng.choice([0.3, -0.2, 0.1])) if rng.random() < 0.4 else None
    if slow and rng.random() < 0.15 and job["max_num_RC"] is None:
        job["nfee"] = int(rng.choice([10, -10]))
        job["log_F_ext"] = None
    job["no_capacitance"] = bool(rng.random() < 0.15)
    job["no_inductance"] = bool(rng.random() < 0.15)
    _rand_fmt(rng, job)
    if rng.random() < 0.15:
        job["ot"] = True
        job["on"] = ""
    return job


def gen_subproc_job(rng, which):
    job = {"parse": gen_parse_job, "mock": gen_mock_job, "circuit": gen_circuit_job, "fit": gen_fit_job, "drt": gen_drt_job}[which](rng)
    job["mode"] = "subproc"
    job["suppress"] = bool(rng.random() < 0.5)  # the default progress printer writes '\r' fragments to stdout
    if which in ("fit", "drt"):
        job["fmt"] = str(rng.choice(["csv", "json", "md"]))
    return job


# ------------------------------------------------------------------------------------------------
# argv
# ------------------------------------------------------------------------------------------------
def _input_args(job, work, relative=False):
    out = []
    for inp in job["inputs"]:
        if "file" in inp:
            out.append(inp["file"] if relative else os.path.join(work, inp["file"]))
        elif "mock" in inp:
            out.append(inp["spec"])
        else:
            out.append(inp["cdc"])
    return out


def _filter_args(job):
    a = []
    if job.get("lpf"):
        a += [_fl(job, "lpf"), _num(job["lpf"])]
    if job.get("hpf"):
        a += [_fl(job, "hpf"), _num(job["hpf"])]
    if job.get("ei"):
        a += [_fl(job, "ei")] + [str(i) for i in job["ei"]]
    if job.get("nds"):
        a += [_fl(job, "nds")] + [str(i) for i in job["nds"]]
    return a


def _output_args(job, outdir):
    a = []
    if job.get("fmt") is not None:
        a += [_fl(job, "of"), job["fmt"]]
    if job.get("osd") is not None:
        a += [_fl(job, "osd"), str(job["osd"])]
    if job.get("oi"):
        a.append(_fl(job, "oi"))
    if job.get("ot"):
        a += [_fl(job, "ot"), _fl(job, "od"), outdir]
        if job["cmd"] == "circuit":
            a += [_fl(job, "on")] + list(job["names"])
        elif job.get("on"):
            a += [_fl(job, "on"), job["on"]]
    if job.get("suppress"):
        a.append("--suppress-progress")
    return a


def build_argv(job, work, outdir):
    rel = job["mode"] == "subproc"
    cmd = job["cmd"]
    if cmd == "parse":
        a = ["parse"] + _input_args(job, work, rel) + _filter_args(job)
        if job.get("average"):
            a.append(_fl(job, "average"))
        return a + _output_args(job, outdir)
    if cmd == "circuit":
        a = ["circuit"] + _input_args(job, work, rel) + [_fl(job, "simulate")]
        if job.get("min_f") is not None:
            a += [_fl(job, "min_f"), _num(job["min_f"]), _fl(job, "max_f"), _num(job["max_f"])]
        if job.get("npd") is not None:
            a += [_fl(job, "npd"), str(job["npd"])]
        return a + _output_args(job, outdir)
    if cmd == "fit":
        a = ["fit", job["cdc"]] + _input_args(job, work, rel) + _filter_args(job)
        a += [_fl(job, "method"), job["method"], _fl(job, "weight"), job["weight"], "--num-procs", "1"]
        if job.get("max_nfev") is not None:
            a += ["--max-nfev", str(job["max_nfev"])]
        if job.get("nr"):
            a += [_fl(job, "nr"), str(job["nr"])]
        if job.get("rc"):
            a.append(_fl(job, "rc"))
        return a + _output_args(job, outdir)
    if cmd == "drt":
        a = ["drt"] + _input_args(job, work, rel) + _filter_args(job) + [_fl(job, "method"), job["method"], "--num-procs", "1"]
        for k, v in job["opts"].items():
            a += [_fl(job, k) if k in FLAGS else "--" + k.replace("_", "-"), _num(v) if isinstance(v, float) else str(v)]
        if job.get("threshold") is not None:
            a += [_fl(job, "threshold"), _num(job["threshold"])]
        if job.get("analyze_peaks") is not None:
            a.append(_fl(job, "analyze_peaks"))
            ap = job["analyze_peaks"]
            if "num_peaks" in ap:
                a += [_fl(job, "num_peaks"), str(ap["num_peaks"])]
            if ap.get("disallow_skew"):
                a.append(_fl(job, "disallow_skew"))
        return a + _output_args(job, outdir)
    if cmd == "test":
        a = ["test"] + _input_args(job, work, rel) + _filter_args(job) + [_fl(job, "test"), job["test"], "--num-procs", "1", _fl(job, "es"), "0"]
        if job["rep"] == "Y":
            a.append(_fl(job, "admittance"))
        elif job["rep"] == "Z":
            a.append(_fl(job, "impedance"))
        if job.get("num_RC") is not None:
            a += [_fl(job, "num_RC"), str(job["num_RC"])]
        if job.get("max_num_RC") is not None:
            a += [_fl(job, "max_num_RC"), str(job["max_num_RC"])]
        if job.get("nfee") is not None:
            a += [_fl(job, "nfee"), str(job["nfee"])]
        if job.get("log_F_ext") is not None:
            a += [_fl(job, "log_F_ext"), _num(job["log_F_ext"])]
        if job.get("no_capacitance"):
            a.append(_fl(job, "no_capacitance"))
        if job.get("no_inductance"):
            a.append(_fl(job, "no_inductance"))
        return a + _output_args(job, outdir)
    raise ValueError(cmd)


# ------------------------------------------------------------------------------------------------
# API side
# ------------------------------------------------------------------------------------------------
def _api_datasets(job, work, perturb=False):
    from pyimpspec import DataSet, generate_mock_data, parse_data

    out = []
    for inp in job["inputs"]:
        if "mock" in inp:
            out.extend(generate_mock_data(inp["mock"], **_typed_kwargs(inp["kw"])))
        else:
            ds = parse_data(os.path.join(work, inp["file"]))
            if job.get("nds"):
                ds = [d for i, d in enumerate(ds) if i in job["nds"]]
            out.extend(ds)
    if job.get("average"):
        out = [DataSet.average(out)]
    for d in out:
        if job.get("lpf"):
            d.low_pass(job["lpf"])
        if job.get("hpf"):
            d.high_pass(job["hpf"])
        if job.get("ei"):
            d.set_mask({int(i): True for i in job["ei"]})
        if d.get_num_points() < 1:
            raise _Refused("every point of a data set is masked")
        if perturb:
            # conditioning probe: one impedance moved by 1e-13 relative (public API: subtract_impedances)
            Z = d.get_impedances(masked=None)
            delta = np.zeros(len(Z), dtype=complex)
            k = next(i for i, m in sorted(d.get_mask().items()) if not m)
            delta[k] = -PROBE_REL * Z[k]
            d.subtract_impedances(delta)
    return out


# (method, aborted at max_nfev) of every fit of the most recent API route of a fit job
_FIT_CHAIN = []
ABORTKEY = "C19/fit/aborted-leastsq-undefined-values"


def api_tables(job, work, perturb=False):
    """The DataFrames of the API calls that correspond to the command, in output order."""
    from pyimpspec import calculate_drt, fit_circuit, generate_mock_circuits, parse_cdc, simulate_spectrum

    cmd = job["cmd"]
    if cmd == "parse":
        return [d.to_dataframe() for d in _api_datasets(job, work, perturb)]
    if cmd == "circuit":
        lo = 1e-2 if job.get("min_f") is None else job["min_f"]
        hi = 1e5 if job.get("max_f") is None else job["max_f"]
        npd = 100 if job.get("npd") is None else job["npd"]
        decades = int(round(math.log10(hi) - math.log10(lo)))
        f = np.logspace(np.log10(hi), np.log10(lo), num=decades * npd + 1)
        tabs = []
        for inp in job["inputs"]:
            if "mock" in inp:
                circuit = generate_mock_circuits(inp["mock"], **_typed_kwargs(inp["kw"]))[0]
            else:
                circuit = parse_cdc(inp["cdc"])
            tabs.append(simulate_spectrum(circuit, f).to_dataframe())
        return tabs
    if cmd == "fit":
        tabs = []
        kw = {"method": job["method"], "weight": job["weight"], "num_procs": 1}
        if job.get("max_nfev") is not None:
            kw["max_nfev"] = job["max_nfev"]
        del _FIT_CHAIN[:]
        for d in _api_datasets(job, work, perturb):
            fit = fit_circuit(parse_cdc(job["cdc"]), d, **kw)
            _FIT_CHAIN.append((fit.method, bool(getattr(fit.minimizer_result, "aborted", False))))
            for _ in range(job.get("nr") or 0):
                fit = fit_circuit(fit.circuit, d, **kw)
                _FIT_CHAIN.append((fit.method, bool(getattr(fit.minimizer_result, "aborted", False))))
            tabs.append(fit.to_parameters_dataframe(running=True) if job.get("rc") else fit.to_parameters_dataframe())
            tabs.append(fit.to_statistics_dataframe())
        return tabs
    if cmd == "drt":
        tabs = []
        kw = dict(job["opts"])
        if "circuit" in kw:
            kw["circuit"] = parse_cdc(kw["circuit"])
        for d in _api_datasets(job, work, perturb):
            if "circuit" in job["opts"]:
                kw["circuit"] = parse_cdc(job["opts"]["circuit"])
            drt = calculate_drt(d, method=job["method"], num_procs=1, **kw)
            tabs.append(drt.to_statistics_dataframe())
            if job.get("threshold") is not None:
                tabs.append(drt.to_peaks_dataframe(threshold=job["threshold"]))
            if job.get("analyze_peaks") is not None:
                ap = job["analyze_peaks"]
                pk = drt.analyze_peaks(num_peaks=ap.get("num_peaks", 0), disallow_skew=bool(ap.get("disallow_skew", False)))
                for p in (pk if isinstance(pk, tuple) else (pk,)):
                    tabs.append(p.to_peaks_dataframe())
        return tabs
    if cmd == "test":
        # the documented pipeline: evaluate_log_F_ext + suggest_num_RC per representation + suggest_representation, wrapped by
        # perform_exploratory_kramers_kronig_tests; --num-RC N then names the test with N RC elements OF THE SUGGESTED representation
        from pyimpspec.analysis.kramers_kronig import perform_exploratory_kramers_kronig_tests

        tabs = []
        kw = {"test": job["test"], "admittance": {"auto": None, "Y": True, "Z": False}[job["rep"]], "num_procs": 1}
        if job.get("max_num_RC") is not None:
            kw["num_RCs"] = list(range(2, job["max_num_RC"] + 1))
            kw["num_F_ext_evaluations"] = 0  # documented: a maximum number of RC elements implies a fixed log Fext
        elif job.get("nfee") is not None:
            kw["num_F_ext_evaluations"] = job["nfee"]
        if job.get("log_F_ext") is not None:
            kw["log_F_ext"] = job["log_F_ext"]
        if job.get("no_capacitance"):
            kw["add_capacitance"] = False
        if job.get("no_inductance"):
            kw["add_inductance"] = False
        del _KK_SUGGESTED[:]
        for d in _api_datasets(job, work, perturb):
            tests, suggestion = perform_exploratory_kramers_kronig_tests(d, **kw)
            result = suggestion[0]
            _KK_SUGGESTED.append("Y" if result.admittance else "Z")
            if job.get("num_RC") is not None:
                match = [t for t in tests if t.num_RC == job["num_RC"]]
                if not match:
                    raise _Refused(f"no test with {job['num_RC']} RC elements in the evaluated range")
                result = match[0]
            tabs.append(result.to_statistics_dataframe(extended_statistics=0))
        return tabs
    raise ValueError(cmd)


# representation suggested by the API route of the most recent `test` job, per data set
_KK_SUGGESTED = []


# ------------------------------------------------------------------------------------------------
# one job: CLI + API + oracle
# ------------------------------------------------------------------------------------------------
def _natural(name):
    return [int(t) if t.isdigit() else t for t in re.split(r"(\d+)", name)]


def _collect_files(job, outdir, ext):
    if not os.path.isdir(outdir):
        return []
    names = [n for n in os.listdir(outdir) if n.endswith("." + ext)]
    if job["cmd"] == "circuit":
        order = [n + "." + ext for n in job["names"]]
        return [n for n in order if n in names] + sorted(n for n in names if n not in order)
    return sorted(names, key=_natural)


def _job_key(job):
    inp = tuple(i.get("cell", "?") for i in job["inputs"])
    filt = (bool(job.get("lpf")), bool(job.get("hpf")), len(job.get("ei") or []), len(job.get("nds") or []), bool(job.get("average")))
    extra = ()
    if job["cmd"] == "fit":
        extra = (job["method"], job["weight"], job.get("max_nfev"), job.get("nr"), job.get("rc"), job.get("has_fixed"))
    elif job["cmd"] == "drt":
        o = job["opts"]
        extra = (job["method"], o.get("mode"), "lambda_value" in o, "max_iter" in o, o.get("model_order"), job.get("threshold") is not None, job.get("analyze_peaks") is not None)
    elif job["cmd"] == "circuit":
        extra = (job.get("npd"), job.get("min_f") is None, len(job["inputs"]))
    elif job["cmd"] == "test":
        extra = (job["test"], job["rep"], job.get("num_RC") is not None, job.get("max_num_RC"), job.get("nfee"), job.get("log_F_ext"),
                 job.get("no_capacitance"), job.get("no_inductance"), tuple(_KK_SUGGESTED))
    return (job["clause"], job["mode"], job.get("fmt"), job.get("osd"), bool(job.get("oi")), bool(job.get("ot")), bool(job.get("short")), inp, filt, extra, job.get("multi", 1))


def _ill_conditioned(job, work, expected):
    """Lazy precondition check, only run when a fit/drt number disagrees: repeat the API calls (a) unchanged and (b) with
    one impedance moved by PROBE_REL.  If the API's own numbers are not repeatable or move by more than PROBE_AMPLIFIED the
    analysis is ill-conditioned (e.g. a fit that wanders until the evaluation cap) and the comparison carries no verdict."""
    try:
        with warnings.catch_warnings():
            warnings.simplefilter("ignore")
            with np.errstate(all="ignore"):
                again = api_tables(job, work)
                moved = api_tables(job, work, perturb=True)
    except Exception:
        return True
    for other in (again, moved):
        if len(other) != len(expected):
            return True
        for a, b in zip(expected, other):
            if a.shape != b.shape:
                return True
            for c in a.columns:
                for x, y in zip(a[c].tolist(), b[c].tolist()):
                    if isinstance(x, str) or isinstance(y, str):
                        if x != y:
                            return True
                        continue
                    try:
                        x, y = float(x), float(y)
                    except Exception:
                        continue
                    if math.isnan(x) and math.isnan(y):
                        continue
                    if not (abs(x - y) <= PROBE_AMPLIFIED * max(abs(x), abs(y))):
                        return True
    return False


def run_job(job, res):
    stats, maxobs, viol = res["stats"], res["maxobs"], res["viol"]

    def st(name, n=1):
        stats[name] = stats.get(name, 0) + n

    def mx(name, v):
        maxobs[name] = max(maxobs.get(name, 0.0), float(v))

    clause, mode = job["clause"], job["mode"]
    fmt = _canon_fmt(job.get("fmt"))
    osd = 6 if job.get("osd") is None else int(job["osd"])
    _JOBNO[0] += 1
    work = os.path.join(_TMP, "j%d" % _JOBNO[0])
    shutil.rmtree(work, ignore_errors=True)
    os.makedirs(work)
    outdir = os.path.join(work, "out")
    try:
        for rec in job["files"]:
            with open(os.path.join(work, rec["filename"]), "w", encoding=rec["encoding"], newline="") as fp:
                fp.write(rec["text"])
        argv = build_argv(job, work, outdir)

        def witness(extra=None):
            w = {"argv": argv, "mode": mode, "files": [r["filename"] for r in job["files"]], "replay_case": {"kind": "jobs", "jobs": [job]}}
            if extra:
                w.update(extra)
            return w

        st(f"commands:{clause}:{mode}")
        st(f"commands:{clause}:{fmt}")
        with warnings.catch_warnings():
            warnings.simplefilter("ignore")
            with np.errstate(all="ignore"):
                if mode == "subproc":
                    printed, cli_exc = C.run_subprocess(argv, work, env.SRC, _XDG)
                else:
                    printed, cli_exc = C.run_inproc(argv, cwd=work)
                api_exc = None
                expected = None
                try:
                    expected = api_tables(job, work)
                except Exception as e:  # noqa: BLE001 - the API's refusal is an observation, not a harness failure
                    api_exc = e
        if isinstance(cli_exc, SystemExit):
            raise RuntimeError(f"harness: the CLI rejected its arguments {argv}: {printed[-300:]}")
        cli_type = None if cli_exc is None else (cli_exc.type_name if isinstance(cli_exc, C.SubprocessFailure) else type(cli_exc).__name__)

        if cli_exc is not None and api_exc is not None:
            same = cli_type == type(api_exc).__name__ or isinstance(api_exc, _Refused)
            st(f"both_raised:{clause}:" + ("same-type" if same else "different-type"))
            st(f"both_raised_type:{type(api_exc).__name__}")
            return
        if cli_exc is not None:
            if isinstance(cli_exc, C.SubprocessFailure):
                origin = {"type": cli_type, "func": "subprocess"}
                tail = cli_exc.stderr[-1200:]
            else:
                origin = monitors.exception_origin(cli_exc)
                tail = monitors.tb_tail(cli_exc)
            viol.append({"key": f"C19/{clause}/cli-raised:{origin['type']}@{origin['func']}",
                         "msg": f"pyimpspec {' '.join(argv)} raised although the API calls with the same settings completed\n{tail}",
                         "witness": witness({"origin": origin})})
            return
        if api_exc is not None:
            if isinstance(api_exc, _Refused):
                st(f"cli_completed_api_refused:{clause}")
                return
            viol.append({"key": f"C19/{clause}/cli-completed-api-raised:{type(api_exc).__name__}",
                         "msg": f"pyimpspec {' '.join(argv)} printed a result although the API calls with the same settings raised\n{monitors.tb_tail(api_exc)}",
                         "witness": witness({"printed": printed[:800]})})
            return

        # ---- collect the tables the CLI produced ---------------------------------------------------
        if job.get("ot"):
            tables = []
            names = _collect_files(job, outdir, fmt)
            for n in names:
                with open(os.path.join(outdir, n), encoding="utf-8") as fp:
                    t, _ = C.extract_tables(fp.read(), fmt)
                tables.extend(t)
            shown = {"files_written": sorted(os.listdir(outdir)) if os.path.isdir(outdir) else []}
            st("output_files_read", len(names))
        else:
            tables, _others = C.extract_tables(printed, fmt)
            shown = {"printed": printed[-1500:] if "\r" in printed else printed[:1500]}
        st(f"tables_expected:{clause}", len(expected))
        if clause == "fit":
            st("fit_jobs")
            if any(m_ == "leastsq" and ab for m_, ab in _FIT_CHAIN):
                st("fit_jobs_with_aborted_leastsq_fit")
        if clause == "test":
            for sug in _KK_SUGGESTED:
                st("test_cell:num_RC=%s:representation=%s:suggested=%s" % ("explicit" if job.get("num_RC") is not None else "auto", job["rep"], sug))
        if len(tables) != len(expected):
            viol.append({"key": f"C19/{clause}/{fmt}/table-count",
                         "msg": f"pyimpspec {' '.join(argv)}: {len(tables)} table(s) found in the {fmt} output, the API calls give {len(expected)}",
                         "witness": witness(shown)})
            return
        nontrivial = False
        ill = None
        extra = C.REL_ITERATIVE if clause in ("fit", "drt", "test") else 0.0
        for k, (tab, df) in enumerate(zip(tables, expected)):
            r = C.compare_table(tab, df, osd, bool(job.get("oi")), extra)
            res["evals"] += 1
            st(f"tables_compared:{clause}:{fmt}")
            st("cells_numeric", r["n_num"])
            st("cells_text", r["n_text"])
            if r["n_num"] > 0:
                nontrivial = True
            unit = {"csv": "relerr", "json": "err/ten-decimal-rounding", "md": "err/requested-digits"}[fmt]
            mx(f"{unit}:{clause}:{mode}", r["dev"])
            if clause in ("fit", "drt") and any(kind == "number" or kind == "row-count" for kind, _ in r["problems"]):
                if ill is None:
                    ill = _ill_conditioned(job, work, expected)
                if ill:
                    st(f"ill_conditioned_no_verdict:{clause}")
                    continue
            # open finding, keyed by mechanism: a 'leastsq' fit that was aborted at --max-nfev returns lmfit's last_internal_values, a
            # non-owning view of MINPACK's released work array, so the first varied parameter(s) of the result are undefined and
            # two bit-identical calls (the CLI's and the harness's) may return different numbers
            undefined = clause == "fit" and any(m_ == "leastsq" and ab for m_, ab in _FIT_CHAIN)
            for kind, msg in r["problems"][:3]:
                viol.append({"key": ABORTKEY if (undefined and kind == "number") else f"C19/{clause}/{fmt}/{kind}",
                             "msg": f"pyimpspec {' '.join(argv)}: table {k} ({list(df.columns)[:3]}...): {msg}",
                             "witness": witness(dict(shown, api_table_head=df.head(8).to_csv(index=False)))})
            if r["sigloss"]:
                st("json_values_with_fewer_digits_than_requested", len(r["sigloss"]))
                mx("json_worst_relative_error", max(s[4] for s in r["sigloss"]))
                if not r["problems"]:
                    c, ri, p, x, rel = max(r["sigloss"], key=lambda s: s[4])
                    viol.append({"key": SIGKEY,
                                 "msg": f"pyimpspec {' '.join(argv)}: column {c!r} row {ri}: json shows {p!r} for {x!r} (relative error {rel:.2g}, i.e. fewer than "
                                        f"{min(osd, C.JSON_SIG_DIGITS)} significant digits) - to_json() keeps ten decimals regardless of --output-significant-digits",
                                 "witness": witness({"printed_value": p, "api_value": x})})
        if job.get("multi", 0) >= 2:
            # several data sets in one invocation: every data set's tables were compared with an independent API route
            st(f"multi_dataset_{clause}_jobs")
            st(f"multi_dataset_{clause}_jobs:nr={job.get('nr') or 0}" if clause == "fit" else f"multi_dataset_{clause}_jobs:{job['method']}")
            st(f"multi_dataset_{clause}_data_sets", job["multi"])
        if nontrivial:
            res["keys"].append(_job_key(job))
        if res["sample"] is None and mode == "inproc":
            res["sample"] = {"argv": [a if len(a) < 200 else a[:200] + "..." for a in argv], "tables": len(expected),
                             "first_table_rows": int(len(expected[0])) if expected else 0, "output_head": (printed if not job.get("ot") else "")[:300]}
    finally:
        shutil.rmtree(work, ignore_errors=True)


# ------------------------------------------------------------------------------------------------
# runner API
# ------------------------------------------------------------------------------------------------
QUICK = {"parse": (24, 24), "mock": (16, 24), "circuit": (16, 6), "fit": (32, 3), "drt": (24, 3), "fitmulti": (16, 1), "drtmulti": (8, 1), "test": (6, 2), "subproc": 6}
THOROUGH = {"parse": (160, 40), "mock": (120, 40), "circuit": (160, 8), "fit": (320, 4), "drt": (240, 4), "fitmulti": (120, 2), "drtmulti": (60, 2), "test": (60, 2), "subproc": 32}
_BLOCK = {"parse": 1, "mock": 2, "circuit": 3, "fit": 4, "drt": 5, "subproc": 6, "fitmulti": 7, "drtmulti": 8, "test": 9}
_GEN = {"parse": gen_parse_job, "mock": gen_mock_job, "circuit": gen_circuit_job, "fit": gen_fit_job, "drt": gen_drt_job,
        "fitmulti": gen_fit_multi_job, "drtmulti": gen_drt_multi_job}


def gen_cases(tier, seed):
    P = QUICK if tier == "quick" else THOROUGH
    cases = []
    for kind in ("parse", "mock", "circuit", "fit", "drt", "fitmulti", "drtmulti", "test"):
        ncases, count = P[kind]
        for i in range(ncases):
            cases.append({"kind": kind, "seed": [int(seed), _BLOCK[kind], i], "count": count, "slow": tier == "thorough"})
    order = ["fit", "drt", "parse", "circuit", "mock", "fit", "drt", "circuit"]
    for i in range(P["subproc"]):
        cases.append({"kind": "subproc", "which": order[i % len(order)], "seed": [int(seed), _BLOCK["subproc"], i]})
    # interleave so that every shard gets a similar mix (round-robin assignment)
    rng = np.random.default_rng([int(seed), 99])
    perm = rng.permutation(len(cases))
    return [cases[int(i)] for i in perm]


def run_case(case):
    if _TMP is None:
        setup_shard()
    res = {"evals": 0, "keys": [], "viol": [], "stats": {}, "maxobs": {}, "sample": None}
    kind = case["kind"]
    if kind == "jobs":  # replay of concrete jobs
        jobs = case["jobs"]
    else:
        rng = np.random.default_rng(case["seed"])
        if kind == "subproc":
            tree = C.subprocess_tree(env.SRC, _XDG, _TMP)
            if not tree.startswith(env.SRC + os.sep):
                raise RuntimeError(f"harness: a fresh interpreter imports pyimpspec from {tree!r}, not from {env.SRC}")
            jobs = [gen_subproc_job(rng, case["which"])]
        elif kind == "drt":
            jobs = [gen_drt_job(rng, allow_slow=bool(case.get("slow"))) for _ in range(case["count"])]
        elif kind == "test":
            jobs = [gen_test_job(rng, slot=case["seed"][2] * case["count"] + j, slow=bool(case.get("slow"))) for j in range(case["count"])]
        else:
            jobs = [_GEN[kind](rng) for _ in range(case["count"])]
    for job in jobs:
        run_job(job, res)
    # keep the report small: at most 2 witnesses per mechanism key and case
    seen = {}
    keep = []
    for v in res["viol"]:
        seen[v["key"]] = seen.get(v["key"], 0) + 1
        if seen[v["key"]] <= 2:
            keep.append(v)
    res["stats"]["violating_observations"] = len(res["viol"])
    res["viol"] = keep
    return res


def finalize(agg):
    st = agg["stats"]
    inc = []
    for clause in ("parse", "mock", "circuit", "fit", "drt"):
        for fmt in ("csv", "json", "md"):
            if st.get(f"tables_compared:{clause}:{fmt}", 0) == 0:
                inc.append(f"no {fmt} table of the '{clause}' clause was compared with the API")
    if sum(v for k, v in st.items() if k.startswith("commands:") and k.endswith(":subproc")) == 0:
        inc.append("no real `python -m pyimpspec` subprocess was run")
    if st.get("multi_dataset_fit_jobs", 0) == 0 or sum(v for k, v in st.items() if k.startswith("multi_dataset_fit_jobs:nr=") and not k.endswith("=0")) == 0:
        inc.append("no `fit` invocation with several data sets and >= 1 refinement was compared (state carried from one data set to the next would go unseen)")
    if st.get("multi_dataset_drt_jobs", 0) == 0:
        inc.append("no `drt` invocation with several data sets was compared")
    if sum(v for k, v in st.items() if k.startswith("tables_compared:test:")) == 0:
        inc.append("no table of the Kramers-Kronig 'test' command was compared with the API")
    def cell(numrc, rep, sug=None):
        return sum(v for k, v in st.items() if k.startswith(f"test_cell:num_RC={numrc}:representation={rep}:") and (sug is None or k.endswith("=" + sug)))

    for sug, name in (("Z", "impedance"), ("Y", "admittance")):
        if cell("explicit", "auto", sug) == 0:
            inc.append(f"no `test --num-RC N` job with automatic choice of representation on a spectrum for which the {name} representation is suggested was compared")
    for numrc, rep in (("auto", "auto"), ("explicit", "Y"), ("explicit", "Z"), ("auto", "Y"), ("auto", "Z")):
        if cell(numrc, rep) == 0:
            inc.append(f"no `test` job in the cell num_RC={numrc}, representation={rep} was compared")
    if st.get("output_files_read", 0) == 0:
        inc.append("no file written with --output-to was read back")
    info = {"tolerances": {"csv_relative": C.TOL_CSV, "json_absolute": C.JSON_ABS, "md": "0.5*10**(1-N) relative, N = --output-significant-digits"},
            "both_raised": {k: v for k, v in st.items() if k.startswith("both_raised")}}
    return {"viol": [], "inconclusive": inc, "info": info}
