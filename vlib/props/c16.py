"""C16 - element names and identifiers are unique and used consistently.

Per generated circuit (all elements incl. those nested in container sub-circuits):
 1. generate_element_identifiers(running=True) is a bijection onto 0..N-1; running=False gives per-type counts 1..n_type
    (in the same element order); both cover exactly the same elements, each once.
 2. get_element_name is unique within the circuit unless the generator assigned duplicate labels; an unlabelled element
    is called Symbol_<per-type count>, a labelled one Symbol_<label>.
 3. tagging - every parameter gets a unique value, then
    (a) each symbol of to_sympy() is "<param>_<label|running id>" of exactly one element, and substituting a perturbed
        value for that one symbol changes the expression's value exactly as changing that element's parameter changes
        get_impedances (so the name denotes that element, not another one);
    (b) generate_fit_identifiers maps each element's parameters to "<param>_<running id>";
    (c) after a short fit the value reported under name/param in FitResult.parameters and to_parameters_dataframe()
        is the value of that element's parameter in the returned circuit;
    (d) to_circuitikz labels the elements of the circuit's connections with the same names.
"""
import math

import numpy as np

from .. import gen_circuit as G
from .. import monitors
from . import c20

ID = "C16"
RULE = (
    "circuits from vlib.gen_circuit: every topology with <=4 leaves (5 thorough) with repeated element types, random trees to "
    "12 leaves, >=11 same-type elements (suffix hazard _1 vs _11), labelled/unlabelled mixes (unique identifier-safe labels; "
    "duplicate labels in tagged cases), containers with nested sub-circuits; every parameter value unique. Non-trivial = >=2 "
    "elements of one type or a container; distinct = distinct (normal-form shape, label pattern). A sample goes through a "
    "short fit_circuit run (num_procs=1) to check the fitted-parameter table."
)
ASSUMPTIONS = [
    "symbol naming convention '<param>_<label or running id>' as implemented by Element.to_sympy is the circuit's naming of a parameter",
    "sympy evaluation at 30 digits for the perturbation check",
]
SHARDS = 16
CASE_TIMEOUT = 600
MIN_EVALS = 150
F0 = 37.0


def _tag_values(tree, rng):
    """make every parameter value unique (tiny multiplicative tags), staying inside limits"""
    i = 0
    for e in G.iter_elements(tree):
        for k, v in e["p"].items():
            i += 1
            val = G.dec(v[0])
            lo, hi = G.dec(v[1]), G.dec(v[2])
            tagged = val * (1 + 0.013 * i / (1 + 0.02 * i)) if val != 0 else 0.0
            if lo <= tagged <= hi:
                v[0] = G.enc(tagged)


def check_circuit(c, tree, st, viol, witness, dup_labels=False, do_fit=False, fkey=None):
    from pyimpspec.analysis.fitting import generate_fit_identifiers

    def bad(key, msg):
        viol.append({"key": fkey or key, "msg": f"{witness.get('cdc', '')[:140]}: {msg}", "witness": witness})

    # the intended element list (top-level connections first is NOT assumed; only the set matters)
    n_expected = sum(1 for _ in G.iter_elements(tree))
    run = c.generate_element_identifiers(running=True)
    per = c.generate_element_identifiers(running=False)
    st["id_maps"] = st.get("id_maps", 0) + 1
    if sorted(run.values()) != list(range(len(run))):
        bad("C16/running-ids-not-0..N-1", f"running ids {sorted(run.values())}")
    if len(run) != n_expected:
        bad("C16/identifiers-miss-elements", f"{len(run)} elements identified, circuit has {n_expected} (nested sub-circuit elements included)")
    if set(map(id, run)) != set(map(id, per)) or len(per) != len(run):
        bad("C16/id-kinds-cover-different-elements", "running and per-type identifiers cover different element sets")
    counts = {}
    for e in sorted(per, key=lambda x: run.get(x, 0)):
        counts.setdefault(e.get_symbol(), []).append(per[e])
    for sym, lst in counts.items():
        if sorted(lst) != list(range(1, len(lst) + 1)):
            bad("C16/per-type-counts", f"{sym}: per-type counts {lst}")
        if lst != sorted(lst):
            bad("C16/per-type-order", f"{sym}: per-type counts do not follow the running order: {lst}")
    # names
    names = {}
    for e in run:
        try:
            nm = c.get_element_name(e)
        except Exception as ex:
            bad(f"C16/get_element_name-raised:{type(ex).__name__}", str(ex)[:200])
            continue
        exp = f"{e.get_symbol()}_{e.get_label()}" if e.get_label() else f"{e.get_symbol()}_{per.get(e)}"
        if nm != exp:
            bad("C16/name-format", f"name {nm!r} expected {exp!r}")
        names.setdefault(nm, []).append(e)
    if not dup_labels:
        dups = {k: len(v) for k, v in names.items() if len(v) > 1}
        if dups:
            bad("C16/names-not-unique", f"duplicate names {dups}")
    # (b) fit identifiers
    try:
        fid = generate_fit_identifiers(c)
        st["fit_identifiers"] = st.get("fit_identifiers", 0) + 1
        if set(map(id, fid)) != set(map(id, run)):
            bad("C16/fit-identifiers-cover", "generate_fit_identifiers covers a different element set")
        for e, m in fid.items():
            for k in e.get_values():
                got = getattr(m, k, None) if not isinstance(m, dict) else m.get(k)
                if got != f"{k}_{run[e]}":
                    bad("C16/fit-identifier-name", f"{c.get_element_name(e)}.{k}: fit identifier {got!r} expected '{k}_{run[e]}'")
    except Exception as ex:
        bad(f"C16/generate_fit_identifiers-raised:{type(ex).__name__}", monitors.tb_tail(ex))
    # (a) symbols <-> elements
    try:
        expr = c20._limited(8, c.to_sympy, substitute=False)
        symmap = c20.expected_symbols(c)
        free = {str(s): s for s in expr.free_symbols}
        st["sympy"] = st.get("sympy", 0) + 1
        unexpected = set(free) - set(symmap) - {"f"}
        if unexpected:
            bad("C16/unknown-symbols", f"symbols {sorted(unexpected)[:5]} do not name any element parameter")
        base_vals = {s: symmap[s][0].get_value(symmap[s][1]) for s in free if s in symmap}
        base_vals["f"] = F0
        with np.errstate(all="ignore"):
            z0 = complex(c.get_impedances(np.array([F0]))[0])
        zs0 = complex(c20._limited(8, lambda: expr.subs({free[s]: v for s, v in base_vals.items() if s in free}).evalf(30)))
        if math.isfinite(abs(zs0)) and abs(zs0 - z0) <= 1e-8 * max(abs(z0), 1e-300):
            # perturb up to 4 element parameters, one at a time
            cand = [s for s in free if s in symmap]
            for s in sorted(cand)[:: max(1, len(cand) // 4)][:4]:
                e, k = symmap[s]
                v = e.get_value(k)
                trial = v * 0.83 if v != 0 else 0.3
                if not (e.get_lower_limit(k) <= trial <= e.get_upper_limit(k)):
                    continue
                vals = dict(base_vals)
                vals[s] = trial
                try:
                    e.set_values(k, trial)
                    with np.errstate(all="ignore"):
                        z1 = complex(c.get_impedances(np.array([F0]))[0])
                finally:
                    e.set_values(k, v)
                zs1 = complex(c20._limited(8, lambda: expr.subs({free[q]: w for q, w in vals.items() if q in free}).evalf(30)))
                st["perturbations"] = st.get("perturbations", 0) + 1
                if not (math.isfinite(abs(z1)) and math.isfinite(abs(zs1))):
                    continue
                if abs(zs1 - z1) > 1e-7 * max(abs(z1), abs(z1 - z0), 1e-300):
                    bad("C16/symbol-denotes-other-element", f"changing {c.get_element_name(e)}.{k} gives Z={z1} but substituting symbol {s} gives {zs1} (base {z0})")
        else:
            st["sympy_base_mismatch_skipped"] = st.get("sympy_base_mismatch_skipped", 0) + 1
    except c20._Budget:
        st["sympy_budget"] = st.get("sympy_budget", 0) + 1
    except Exception as ex:
        st["sympy_refused"] = st.get("sympy_refused", 0) + 1
    # (d) CircuiTikZ names
    try:
        src = c.to_circuitikz()
        comps = sorted(l for _, l in c20.COMP.findall(src))
        tops = c.get_elements(recursive=True)
        exp = sorted(f"{e.get_symbol()}_{{\\rm {e.get_label() or per[e]}}}" for e in tops)
        st["circuitikz"] = st.get("circuitikz", 0) + 1
        if comps != exp:
            bad("C16/circuitikz-names", f"diagram labels {comps[:6]} expected {exp[:6]}")
    except Exception as ex:
        st["circuitikz_refused"] = st.get("circuitikz_refused", 0) + 1
    # (d') the same with a caller-supplied custom_labels dict covering SOME elements, re-used for a second diagram with
    # running identifiers: the remaining elements must be named by the identifiers of THAT call
    try:
        tops = c.get_elements(recursive=True)
        if len(tops) >= 2 and not fkey:
            custom = {e: f"X{i}" for i, e in enumerate(tops[: max(1, len(tops) // 2)])}
            snapshot = dict(custom)
            for running in (False, True):
                src = c.to_circuitikz(custom_labels=custom, running=running)
                ids2 = c.generate_element_identifiers(running=running)
                exp = sorted(custom[e] if e in snapshot else f"{e.get_symbol()}_{{\\rm {e.get_label() or ids2[e]}}}" for e in tops)
                got = sorted(l for _, l in c20.COMP.findall(src))
                st["circuitikz_custom"] = st.get("circuitikz_custom", 0) + 1
                if got != exp:
                    bad("C16/circuitikz-names-with-custom-labels", f"running={running}: diagram labels {got[:6]} expected {exp[:6]}")
                    break
            if len(custom) != len(snapshot):
                bad("C16/custom-labels-dict-modified", f"the caller's custom_labels dictionary grew from {len(snapshot)} to {len(custom)} entries")
    except Exception as ex:
        st["circuitikz_refused"] = st.get("circuitikz_refused", 0) + 1
    # (c) fitted-parameter table
    if do_fit:
        _check_fit(c, st, bad)


def _check_fit(c, st, bad):
    import warnings
    from pyimpspec import DataSet, fit_circuit

    f = np.logspace(4, -1, 21)
    try:
        with np.errstate(all="ignore"):
            Z = c.get_impedances(f)
    except Exception:
        return
    data = DataSet(f, Z * (1 + 0.01 * np.cos(np.arange(len(f)))))
    try:
        with warnings.catch_warnings():
            warnings.simplefilter("ignore")
            res = fit_circuit(c, data, method="least_squares", weight="modulus", max_nfev=6, num_procs=1)
    except Exception:
        st["fit_refused"] = st.get("fit_refused", 0) + 1
        return
    st["fits"] = st.get("fits", 0) + 1
    rc = res.circuit
    ids = rc.generate_element_identifiers(running=True)
    expected = {}
    for e in ids:
        expected[rc.get_element_name(e)] = e
    if set(res.parameters.keys()) != set(expected.keys()):
        bad("C16/fit-table-names", f"FitResult.parameters names {sorted(res.parameters)[:6]} expected {sorted(expected)[:6]}")
        return
    for nm, e in expected.items():
        for k, v in e.get_values().items():
            got = res.parameters[nm].get(k)
            if got is None or not (got.value == v or (math.isnan(got.value) and math.isnan(v))):
                bad("C16/fit-table-value", f"{nm}.{k}: table reports {getattr(got, 'value', None)!r}, the returned circuit holds {v!r}")
                return
    try:
        df = res.to_parameters_dataframe()
        rows = {(r["Element"], r["Parameter"]): r["Value"] for _, r in df.iterrows()}
        for nm, e in expected.items():
            for k, v in e.get_values().items():
                if (nm, k) not in rows or not (float(rows[(nm, k)]) == v):
                    bad("C16/fit-dataframe-value", f"{nm}.{k}: dataframe reports {rows.get((nm, k))!r}, circuit holds {v!r}")
                    return
        st["fit_dataframes"] = st.get("fit_dataframes", 0) + 1
    except Exception as ex:
        bad(f"C16/to_parameters_dataframe-raised:{type(ex).__name__}", monitors.tb_tail(ex))


def gen_cases(tier, seed):
    cases = []
    maxl = 4 if tier == "quick" else 5
    for n in range(1, maxl + 1):
        ntop = len(G.topologies(n)) if n > 1 else 1
        for i in range(0, ntop, 6):
            cases.append({"kind": "exh", "n": n, "lo": i, "hi": min(ntop, i + 6), "seed": [int(seed), 1, n, i], "assign": 2 if tier == "quick" else 6})
    for i in range(64 if tier == "quick" else 1200):
        cases.append({"kind": "rand", "seed": [int(seed), 2, i], "count": 2})
    for i in range(8 if tier == "quick" else 60):
        cases.append({"kind": "many", "seed": [int(seed), 3, i]})
    for i in range(4 if tier == "quick" else 20):
        cases.append({"kind": "dup", "seed": [int(seed), 4, i], "count": 4})
    return cases


def setup_shard():
    import matplotlib

    matplotlib.use("Agg")
    G.catalogue()


def _refused_labels(c, attempts, st):
    """Label updates that the library refuses (digits only / non-ASCII) must leave the names as they were; each attempt is
    (running index, label).  Returns True if one was ACCEPTED (then the user did assign that label and uniqueness is not judged)."""
    els = {i: e for e, i in c.generate_element_identifiers(running=True).items()}
    accepted = False
    for i, lab in attempts:
        e = els.get(int(i))
        if e is None:
            continue
        try:
            e.set_label(lab)
            accepted = True
            st["refusable_label_accepted"] = st.get("refusable_label_accepted", 0) + 1
        except Exception:
            st["label_updates_refused"] = st.get("label_updates_refused", 0) + 1
    return accepted


def run_case(case):
    from pyimpspec import parse_cdc

    st, viol, keys = {}, [], []
    evals = 0
    sample = None
    if case["kind"] == "cdc":
        c = parse_cdc(case["cdc"])
        t = {"t": "S", "c": []}
        dup_r = _refused_labels(c, case.get("refused") or [], st)
        case = dict(case, dup=case.get("dup", False) or dup_r)
        # element count from the real circuit itself for replays
        n = len(c.generate_element_identifiers(running=True))
        check_circuit(c, {"t": "S", "c": [{"t": "E", "sym": "R", "label": "", "p": {}, "subs": {}}] * n}, st, viol, {"cdc": case["cdc"]}, dup_labels=case.get("dup", False), do_fit=True)
        return {"evals": 1, "keys": [case["cdc"]], "viol": viol, "stats": st}
    rng = np.random.default_rng(case["seed"])
    trees = []
    few = ["R", "C", "R", "Q", "R", "C", "W", "Tlm", "L"]
    if case["kind"] == "exh":
        for shape in G.topologies(case["n"])[case["lo"]:case["hi"]]:
            for a in range(case["assign"]):
                trees.append((G.random_tree(rng, case["n"], mode="physical", shape=shape, max_sub_depth=1, leaf_syms=few if a % 2 == 0 else None, label_classes=["none"]), False))
    elif case["kind"] == "rand":
        for _ in range(case["count"]):
            n = int(rng.choice([3, 4, 6, 8, 12]))
            trees.append((G.random_tree(rng, n, mode="physical", max_sub_depth=2 if n <= 6 else 1, leaf_syms=few if rng.random() < 0.6 else None, label_classes=["none"]), False))
    elif case["kind"] == "many":
        # >= 11 elements of one type: suffix hazard _1 vs _11
        n = int(rng.integers(12, 16))
        trees.append((G.random_tree(rng, n, mode="physical", max_sub_depth=1, leaf_syms=["R", "R", "R", "C"], label_classes=["none"], max_depth=3), False))
    else:
        for _ in range(case["count"]):
            t = G.random_tree(rng, int(rng.integers(3, 7)), mode="physical", max_sub_depth=1, leaf_syms=["R", "C", "L"], label_classes=["none"])
            trees.append((t, True))
    for t, dup in trees:
        if dup:
            for e in G.iter_elements(t):
                e["label"] = str(rng.choice(["a", "b", ""]))
        else:
            c20.unique_safe_labels(rng, t, p_label=0.35)
        _tag_values(t, rng)
        try:
            c_obj = G.build_objects(t)
            text = c_obj.to_string(17)
            c = parse_cdc(text) if rng.random() < 0.5 else c_obj
        except Exception as e:
            viol.append({"key": f"C16/build-raised:{type(e).__name__}", "msg": monitors.tb_tail(e), "witness": {"tree": G.brief(G.nf(t))}})
            continue
        attempts = []
        if not dup and rng.random() < 0.4:
            # a refused label update (digits that collide with a generated identifier, padded digits, non-ASCII) on 1-2 elements
            n_el = len(c.generate_element_identifiers(running=True))
            for _ in range(int(rng.integers(1, 3))):
                attempts.append([int(rng.integers(0, n_el)), str(rng.choice(["1", "2", "0", "11", " 2 ", "\t1", "é"]))])
            dup = _refused_labels(c, attempts, st)
        w = {"cdc": text, "replay_case": {"kind": "cdc", "cdc": text, "dup": dup, "refused": attempts}}
        if attempts:
            w["refused_label_updates"] = attempts
        has_container = any(e.get("subs") for e in G.iter_elements(t))
        check_circuit(c, t, st, viol, w, dup_labels=dup, do_fit=(evals % 4 == 0 and not has_container))
        evals += 1
        syms = [e["sym"] for e in G.iter_elements(t)]
        if len(syms) != len(set(syms)) or has_container:
            keys.append((G.brief(G.nf(t)), tuple(bool(e["label"]) for e in G.iter_elements(t))))
        st["circuits"] = st.get("circuits", 0) + 1
        if has_container:
            st["with_container"] = st.get("with_container", 0) + 1
        if sample is None:
            ids = c.generate_element_identifiers(running=True)
            sample = {"cdc": c.to_string(), "names": [c.get_element_name(e) for e in ids][:12]}
        if len(viol) > 12:
            break
    return {"evals": evals, "keys": keys, "viol": viol[:12], "stats": st, "sample": sample}


def finalize(agg):
    inc = []
    for need in ("id_maps", "fit_identifiers", "sympy", "perturbations", "circuitikz", "fits", "fit_dataframes", "with_container"):
        if agg["stats"].get(need, 0) == 0:
            inc.append(f"'{need}' never observed")
    return {"viol": [], "inconclusive": inc}
