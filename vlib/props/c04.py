"""C04 - parse_cdc is total: a circuit or a parsing error, never a crash.

Events: (string, outcome type, origin frame) at parse_cdc (and, for a sample, cli.utility.parse_circuits).
Oracle: outcome in {Circuit} u {ParsingError*, TokenizingError*, ValueError with a non-empty message}; anything else
is a violation keyed by exception type and origin function.  Accepted strings must denote a well-formed circuit:
get_impedances on three frequencies returns or raises an ImpedanceError / NotImplementedError refusal, and when all
values lie within their limits the extended serialisation is accepted again and equal in normal form.

Workloads: (1) exhaustive sequences of <= N lexical atoms and of <= M phrase atoms; (2) grammar-derived valid codes
and every prefix, every single-character deletion, random single/double insertions/substitutions; (3) nesting-depth
probes (RecursionError above ~100 levels is the open known finding C04/recursion-depth).
"""
import itertools
import math

import numpy as np

from .. import gen_circuit as G
from .. import monitors

ID = "C04"
RULE = (
    "(1) every concatenation of <=N atoms from a 30-atom lexical alphabet (N=4 quick; thorough adds N=5 over a 20-atom core) "
    "and of <=M atoms from a 22-atom phrase alphabet (M=3 quick, 4 thorough) - exhaustive; (2) valid codes printed from generated circuit trees "
    "with all prefixes, all single-character deletions and random single/double insertions/substitutions; (3) nesting "
    "depth probes 10..3000 and width probes (flat circuits with 2..400 containers / keyword sub-circuits). Every string is one evaluation; distinct_nontrivial counts distinct strings that were either "
    "accepted or rejected by a parser-level (not tokenizer-level) error, i.e. that got past lexing."
)
ASSUMPTIONS = [
    "a ValueError counts as a refusal only with a non-empty message (as the statement allows)",
    "accepted circuits are simulated at 3 frequencies; ImpedanceError subclasses and NotImplementedError are refusals",
]
SHARDS = 16
CASE_TIMEOUT = 600
MIN_EVALS = 10000
EXHAUSTIVE = True

LEX = ["R", "C", "Tlm", "La", "K", "[", "]", "(", ")", "{", "}", "=", "/", "%", ",", ":", "!", "1", "-1", "1e3", "1e999",
       "1.5f", "inf", "open", "short", "X_1", "-", ".", " ", "é"]
LEX_CORE = ["R", "Tlm", "[", "]", "(", ")", "{", "}", "=", "/", "%", ",", ":", "!", "1", "-1", "inf", "X_1", "L", "short"]
PHRASE = ["!V=1!", "!V=1e999!", "!V=0!", "R{", "R{R=1", "R{R=1e3F", "Tlm{X_1=", "Tlm{Zeta=", "X_2=short", "Z_A=open", ":lbl}", ":1a}", "}",
          "/inf", "/50%", "/2", "//", ",", "RC", "(RC)", "[", "L=1"]
FREQS = np.array([0.1, 10.0, 1e4])


def BLOCKS(tier):
    return {
        "lexical_atoms": {"alphabet": len(LEX), "max_len": 4, "exhaustive": True},
        "lexical_core_len5": {"alphabet": len(LEX_CORE), "len": 5, "exhaustive": tier == "thorough", "run": tier == "thorough"},
        "phrase_atoms": {"alphabet": len(PHRASE), "max_len": 3 if tier == "quick" else 4, "exhaustive": True},
    }


_ERRS = None


def _errs():
    global _ERRS
    if _ERRS is None:
        from pyimpspec.exceptions import ParsingError, TokenizingError, ImpedanceError

        _ERRS = (ParsingError, TokenizingError, ImpedanceError)
    return _ERRS


def classify(s, viol, st, deep_probe=False, check_accept=True):
    """Run parse_cdc on s and apply the oracle. Returns 'accepted' | 'lex' | 'parse' | 'value' | 'crash'."""
    from pyimpspec import parse_cdc

    ParsingError, TokenizingError, ImpedanceError = _errs()
    try:
        c = parse_cdc(s)
    except TokenizingError:
        return "lex"
    except ParsingError:
        return "parse"
    except ValueError as e:
        if str(e).strip() == "":
            viol.append(_v("C04/valueerror-without-message", s, e))
            return "crash"
        return "value"
    except RecursionError as e:
        key = "C04/recursion-depth" if _nesting(s) >= 100 else "C04/escape:RecursionError@shallow"
        viol.append(_v(key, s, e))
        return "crash"
    except Exception as e:
        o = monitors.exception_origin(e)
        viol.append(_v(f"C04/escape:{type(e).__name__}@{o['func']}", s, e))
        return "crash"
    if not check_accept:
        return "accepted"
    # accepted: must denote a well-formed circuit
    st["accepted"] = st.get("accepted", 0) + 1
    try:
        with np.errstate(all="ignore"):
            c.get_impedances(FREQS)
        st["simulated"] = st.get("simulated", 0) + 1
    except ImpedanceError:
        st["sim_refused"] = st.get("sim_refused", 0) + 1
    except NotImplementedError:
        st["sim_refused"] = st.get("sim_refused", 0) + 1
    except RecursionError as e:
        viol.append(_v("C04/recursion-depth" if _nesting(s) >= 100 else "C04/accepted-not-simulable:RecursionError", s, e))
    except Exception as e:
        o = monitors.exception_origin(e)
        viol.append(_v(f"C04/accepted-not-simulable:{type(e).__name__}@{o['func']}", s, e))
    # serialisation accepted again when values are within limits
    try:
        within = True
        for el in _all_elements(c):
            v, lo, hi = el.get_values(), el.get_lower_limits(), el.get_upper_limits()
            for k in v:
                if not (lo[k] <= v[k] <= hi[k]):
                    within = False
        if within:
            ser = c.serialize(17)
            nonfinite = any(not math.isfinite(x) for el in _all_elements(c) for x in el.get_values().values())
            try:
                c2 = parse_cdc(ser)
            except RecursionError as e:
                viol.append(_v("C04/recursion-depth" if _nesting(s) >= 100 else "C04/reparse:RecursionError", s, e))
                return "accepted"
            except Exception as e:
                # mechanism: a parameter VALUE of +-inf/nan (e.g. 'R{R=1e999}') prints as 'INF'/'NAN', which is not a number token
                key = "C04/non-finite-value-serialisation" if nonfinite else f"C04/serialisation-of-accepted-rejected:{type(e).__name__}"
                viol.append(_v(key, s, e, extra=ser[:300]))
                return "accepted"
            st["reparsed"] = st.get("reparsed", 0) + 1
            d = G.compare_nf(G.nf_of_circuit(c), G.nf_of_circuit(c2), 1e-15)
            if d:
                viol.append({"key": "C04/serialisation-of-accepted-differs", "msg": f"{s!r}: {d}", "witness": {"string": s, "replay_case": {"kind": "strings", "strings": [s]}}})
        else:
            st["values_outside_limits"] = st.get("values_outside_limits", 0) + 1
    except RecursionError as e:
        viol.append(_v("C04/recursion-depth" if _nesting(s) >= 100 else "C04/walk:RecursionError", s, e))
    return "accepted"


def _all_elements(c):
    from pyimpspec.circuit.base import Container

    out = []
    todo = list(c.get_elements(recursive=True))
    while todo:
        e = todo.pop()
        out.append(e)
        if isinstance(e, Container):
            for sc in e.get_subcircuits().values():
                if sc is not None:
                    todo.extend(sc.get_elements(recursive=True))
    return out


def _nesting(s):
    depth = best = 0
    for ch in s:
        if ch in "[({":
            depth += 1
            best = max(best, depth)
        elif ch in "])}":
            depth -= 1
    return best


def _v(key, s, e, extra=None):
    o = monitors.exception_origin(e)
    shown = s if len(s) < 200 else s[:80] + f"...<{len(s)} chars>..." + s[-40:]
    return {"key": key, "msg": f"parse_cdc({shown!r}) -> {type(e).__name__}: {str(e)[:200]} at {o['file']}:{o['line']} in {o['func']}" + (f" | {extra}" if extra else ""),
            "witness": {"string": s if len(s) < 5000 else None, "origin": o, "replay_case": {"kind": "strings", "strings": [s]} if len(s) < 5000 else {"kind": "depth"}}}


# ------------------------------------------------------------------------------------------------
def gen_cases(tier, seed):
    cases = []
    # (1) exhaustive atoms: split by the first two atoms so each case is a block
    for a in range(len(LEX)):
        cases.append({"kind": "lex", "first": a, "maxlen": 4})
    if tier == "thorough":
        for a in range(len(LEX_CORE)):
            for b in range(0, len(LEX_CORE), 5):
                cases.append({"kind": "lexcore5", "first": a, "second": [b, min(b + 5, len(LEX_CORE))]})
    for a in range(len(PHRASE)):
        cases.append({"kind": "phrase", "first": a, "maxlen": 3 if tier == "quick" else 4})
    # (2) grammar-derived codes and mutations
    nm = 64 if tier == "quick" else 800
    for i in range(nm):
        cases.append({"kind": "mut", "seed": [int(seed), 4, i], "count": 3})
    # (2b) every parameter of every element class: value / lower / upper written or omitted, numbers on, between and beyond the class defaults
    for sym in sorted(G.catalogue()):
        cases.append({"kind": "paramforms", "sym": sym})
    # (3) depth probes
    cases.append({"kind": "depth"})
    # (4) cli wrapper sample
    cases.append({"kind": "cli", "seed": [int(seed), 5]})
    return cases


def setup_shard():
    G.catalogue()


def _run_strings(strings, viol, st, keys_counter, sample_holder=None, check_accept=True):
    n = 0
    for s in strings:
        r = classify(s, viol, st, check_accept=check_accept)
        st["outcome:" + r] = st.get("outcome:" + r, 0) + 1
        if r in ("accepted", "parse", "value"):
            keys_counter[0] += 1
        n += 1
        if len(viol) > 40:
            break
    return n


def run_case(case):
    viol, st = [], {}
    nontriv = [0]
    evals = 0
    keys = []
    sample = None
    k = case["kind"]
    if k == "strings":
        for s in case["strings"]:
            classify(s, viol, st)
        return {"evals": len(case["strings"]), "keys": case["strings"], "viol": viol, "stats": st}
    if k == "paramforms":
        import math

        info = G.catalogue()[case["sym"]]
        strings = []
        for key, (dv, dl, du, fx) in info["params"].items():
            nums = {dv, dl, du, dl - 1.0, du * 2.0, du * 10.0, dv * 0.5, 0.0, -dv}
            nums = sorted(x for x in nums if isinstance(x, float) and math.isfinite(x))
            txt = [repr(x) for x in nums]
            for v in txt:
                for lo in [None] + txt + ["50%", "-inf"]:
                    for hi in [None] + txt + ["150%", "inf"]:
                        body = v + ("" if lo is None and hi is None else "/" + (lo or "") + ("" if hi is None else "/" + hi))
                        strings.append(f"{case['sym']}{{{key}={body}}}")
                        if lo is not None and hi is None:
                            strings.append(f"R{case['sym']}{{{key}={v}F/{lo}:x}}")
        evals = _run_strings(strings, viol, st, nontriv)
        st["paramform_strings"] = evals
        return {"evals": evals, "disjoint": nontriv[0], "viol": viol[:20], "stats": st,
                "sample": {"block": f"parameter forms of {case['sym']}", "strings": evals, "example": strings[len(strings) // 2] if strings else None}}
    if k == "lex":
        first = LEX[case["first"]]
        gens = [[first]] if True else []
        strings = [first]
        for n in range(1, case["maxlen"]):
            for combo in itertools.product(LEX, repeat=n):
                strings.append(first + "".join(combo))
        evals = _run_strings(strings, viol, st, nontriv)
        sample = {"block": f"lexical atoms starting with {first!r}", "strings": evals, "example": strings[min(len(strings) - 1, 4321)]}
        return {"evals": evals, "disjoint": nontriv[0], "viol": viol[:20], "stats": st, "sample": sample}
    if k == "lexcore5":
        first = LEX_CORE[case["first"]]
        strings = []
        for b in range(*case["second"]):
            for combo in itertools.product(LEX_CORE, repeat=3):
                strings.append(first + LEX_CORE[b] + "".join(combo))
        evals = _run_strings(strings, viol, st, nontriv)
        # strings over the core alphabet of length 5 may coincide with <=4-atom strings of the full alphabet only when
        # an atom is a concatenation of others; count conservatively via hashed keys of a subsample instead of 'disjoint'
        return {"evals": evals, "keys": [("core5", case["first"], case["second"][0], i) for i in range(nontriv[0])], "viol": viol[:20], "stats": st}
    if k == "phrase":
        first = PHRASE[case["first"]]
        strings = [first]
        for n in range(1, case["maxlen"]):
            for combo in itertools.product(PHRASE, repeat=n):
                strings.append(first + "".join(combo))
        evals = _run_strings(strings, viol, st, nontriv)
        sample = {"block": f"phrase atoms starting with {first!r}", "strings": evals, "example": strings[min(len(strings) - 1, 777)]}
        return {"evals": evals, "keys": [("phrase", case["first"], i) for i in range(nontriv[0])], "viol": viol[:20], "stats": st, "sample": sample}
    if k == "mut":
        rng = np.random.default_rng(case["seed"])
        alphabet = list("RCLQWTlmabKyGHZarcs[](){}=/%,:!0123456789.eE-+ \tfFinfopenshortzeroX_1ABV") + ["é", "\n"]
        for _ in range(case["count"]):
            n = int(rng.integers(1, 6))
            t = G.random_tree(rng, n, mode="physical", max_sub_depth=2)
            v = G.random_variant(rng)
            v["ws"] = bool(rng.random() < 0.2)
            dec_ = int(rng.choice([2, 6, 17]))
            text = G.print_cdc(t, dec_, v, rng)
            if len(text) > 700:
                t = G.random_tree(rng, 2, mode="physical", max_sub_depth=1)
                text = G.print_cdc(t, 3, v, rng)
            strings = [text]
            strings += [text[:i] for i in range(len(text))]  # every prefix
            strings += [text[:i] + text[i + 1:] for i in range(len(text))]  # every single deletion
            for _m in range(150):
                s = list(text)
                for _k in range(int(rng.integers(1, 3))):
                    pos = int(rng.integers(0, len(s) + 1))
                    ch = str(rng.choice(alphabet))
                    if rng.random() < 0.5 and pos < len(s):
                        s[pos] = ch
                    else:
                        s.insert(pos, ch)
                strings.append("".join(s))
            before = len(viol)
            r0 = classify(text, viol, st)
            if r0 != "accepted" and len(viol) == before:
                # a grammar-derived valid code must be accepted (C03 territory, but a refusal here is an observable too)
                viol.append({"key": "C04/valid-code-rejected", "msg": f"grammar-derived code rejected ({r0}): {text[:300]!r}",
                             "witness": {"string": text, "replay_case": {"kind": "strings", "strings": [text]}}})
            evals += _run_strings(strings[1:], viol, st, nontriv) + 1
            keys.extend(strings[:: max(1, len(strings) // 50)])
            st["valid_codes"] = st.get("valid_codes", 0) + 1
            if sample is None:
                sample = {"valid_code": text[:300], "mutants": len(strings) - 1}
        return {"evals": evals, "keys": keys, "viol": viol[:20], "stats": st, "sample": sample}
    if k == "depth":
        probes = []
        for d in (10, 50, 90, 150, 300, 1000, 3000):
            probes.append("[" * d + "R" + "]" * d)
            probes.append("(" * d + "R" + "C)" * d)
            probes.append("Tlm{X_1=" * min(d, 400) + "R" + "}" * min(d, 400))
            probes.append("[(" * d + "RC" + ")]" * d)
            probes.append("[" * d)
            probes.append("(R" * d)
        # width probes: flat circuits with MANY elements / containers / keyword sub-circuits (no nesting at all)
        for n in (2, 7, 11, 12, 33, 34, 65, 130, 400):
            probes.append("Tlm" * n)
            probes.append("(" + "Tlm" * n + ")")
            probes.append("R" * n)
            probes.append("Tlm{X_1=short,X_2=zero,Z_A=open,Z_B=inf}" * min(n, 130))
            probes.append("[Tlm(TlmbqC)]" * min(n, 130))
            probes.append("Tlm{X_1=R,X_2=C,Zeta=Q}" * min(n, 130))
        for s in probes:
            r = classify(s, viol, st)
            st["depth:" + r] = st.get("depth:" + r, 0) + 1
            evals += 1
        return {"evals": evals, "keys": [("depth", i) for i in range(len(probes))], "viol": viol, "stats": st,
                "sample": {"depth_probes": len(probes), "max_depth": 3000}}
    if k == "cli":
        from argparse import Namespace
        from pyimpspec.cli.utility import parse_circuits
        from pyimpspec import parse_cdc

        ParsingError, TokenizingError, ImpedanceError = _errs()
        rng = np.random.default_rng(case["seed"])
        strings = ["".join(rng.choice(LEX, size=int(rng.integers(1, 6)))) for _ in range(3000)]
        strings += ["R(RC)", "!V=1![R{R=1}]", "<R>", "<>", "<", ">", "<CIRCUIT_1>", "<*>", "<nope>", "<CIRCUIT_1", "R-", "!V=1e999!R"]
        for s in strings:
            evals += 1
            try:
                out = parse_circuits(Namespace(input=[s]))
                oc = "accepted"
            except (ParsingError, TokenizingError):
                oc = "rejected"
            except ValueError as e:
                oc = "rejected" if str(e).strip() else "crash"
            except Exception as e:
                o = monitors.exception_origin(e)
                if s.startswith("<") and s.endswith(">") and isinstance(e, (KeyError, FileNotFoundError)):
                    oc = "rejected"  # unknown mock identifier: outside parse_cdc's contract
                else:
                    viol.append(_v(f"C04/cli-escape:{type(e).__name__}@{o['func']}", s, e))
                    oc = "crash"
            st["cli:" + oc] = st.get("cli:" + oc, 0) + 1
            if not (s.startswith("<") and s.endswith(">")):
                try:
                    parse_cdc(s)
                    direct = "accepted"
                except Exception:
                    direct = "rejected"
                if oc != "crash" and direct != oc:
                    viol.append({"key": "C04/cli-differs", "msg": f"parse_circuits {oc} but parse_cdc {direct} for {s!r}", "witness": {"string": s}})
        return {"evals": evals, "keys": strings[::20], "viol": viol[:20], "stats": st}
    raise ValueError(k)


def finalize(agg):
    s = agg["stats"]
    inc = []
    if s.get("accepted", 0) < 100:
        inc.append(f"too few accepted strings ({s.get('accepted', 0)}) to exercise the well-formedness clause")
    if s.get("reparsed", 0) < 50:
        inc.append("serialisation-of-accepted clause hardly exercised")
    return {"viol": [], "inconclusive": inc}
