"""C05 - a DataSet keeps frequency, impedance and mask of each point together.

Shape: history + executable reference model.  Every history is first generated as a concrete JSON list of
operations, then executed step by step on the real DataSet and on a list-of-triples model; after every step all
observable views are compared.  The DataSet invariant contract and the "caller's mask dict untouched"
post-condition (vlib.monitors) fire on every constructor / mutator call anywhere in the process.

Latitude (things the statement does not fix, so the oracle accepts the code's documented behaviour):
 - set_mask({}) clears the mask, set_mask(partial) updates only the given in-range indices;
 - mask keys outside 0..n-1 are ignored;
 - only strictly ascending or strictly descending inputs are generated (the statement's quantifier).
"""
import copy
import itertools
import json

import numpy as np

from .. import monitors

ID = "C05"
RULE = (
    "histories of <=14 operations over {construct(asc|desc, mask), set_mask, low_pass, high_pass, subtract_impedances, "
    "to_dict->json->from_dict (optional keys removed, same dict imported twice), duplicate, average} generated from "
    "rng([seed, case]); after every step all getters x masked in {None, False, True}, get_mask, to_dict are compared with "
    "a list-of-triples model. Exhaustive block: every size n<=N and every mask subset, ascending vs descending "
    "construction. A case is non-trivial when it contains >=1 masked point or a reorder (ascending input); distinct = "
    "distinct (n, order, mask, op-kinds) keys."
)
ASSUMPTIONS = [
    "numpy arithmetic (complex subtraction, mean) is the trusted reference for impedance values",
    "json module round-trips floats exactly (repr-based)",
    "reference model: list of (f, Z, masked) triples, 40 lines, self-checked at start-up",
]
SHARDS = 16
CASE_TIMEOUT = 300
MIN_EVALS = 200
EXH_N = {"quick": 7, "thorough": 11}


def BLOCKS(tier):
    return {"exhaustive_asc_vs_desc": {"sizes": f"1..{EXH_N[tier]}", "mask_subsets": "all 2^n", "dict_styles": 3, "exhaustive": True}}


# ------------------------------------------------------------------------------------------------
# reference model
# ------------------------------------------------------------------------------------------------
class Model:
    def __init__(self, f, Z, mask, path="", label="", uuid=None):
        n = len(f)
        tr = [[float(f[i]), complex(Z[i]), bool(mask.get(i, False)) if 0 <= i < n else False] for i in range(n)]
        tr.sort(key=lambda t: -t[0])
        self.t = tr
        self.path = path
        self.label = label
        self.uuid = uuid

    def n(self):
        return len(self.t)

    def set_mask(self, m):
        if len(m) == 0:
            for t in self.t:
                t[2] = False
            return
        for k, v in m.items():
            if 0 <= k < len(self.t):
                self.t[k][2] = bool(v)

    def low_pass(self, c):
        for t in self.t:
            if t[0] > c:
                t[2] = True

    def high_pass(self, c):
        for t in self.t:
            if t[0] < c:
                t[2] = True

    def subtract(self, s):
        for i, t in enumerate(self.t):
            t[1] = complex(np.complex128(t[1]) - np.complex128(s[i] if len(s) > 1 else s[0]))

    def view(self, masked):
        return [(t[0], t[1]) for t in self.t if masked is None or t[2] == masked]

    def mask(self):
        return {i: t[2] for i, t in enumerate(self.t)}


def _selfcheck():
    m = Model([1.0, 10.0, 100.0], [1, 2, 3], {0: True})
    assert m.view(True) == [(1.0, 1 + 0j)] and m.mask() == {0: False, 1: False, 2: True}
    m.low_pass(50.0)
    assert m.mask() == {0: True, 1: False, 2: True}
    m.set_mask({})
    assert not any(m.mask().values())


_selfcheck()


# ------------------------------------------------------------------------------------------------
# history generation (concrete, JSON-able)
# ------------------------------------------------------------------------------------------------
def _spectrum(rng, n):
    lo = rng.uniform(-6, 6)
    span = rng.uniform(0.5, 8)
    logs = np.sort(rng.uniform(lo, lo + span, size=n))
    # make strictly increasing
    for i in range(1, n):
        if logs[i] <= logs[i - 1]:
            logs[i] = logs[i - 1] + 1e-3
    f = 10.0**logs
    mag = 10.0 ** rng.uniform(-6, 6, size=n)
    Z = mag * np.exp(1j * rng.uniform(-np.pi, np.pi, size=n))
    return [float(x) for x in f], [[float(z.real), float(z.imag)] for z in Z]


def _rand_mask(rng, n, style=None):
    style = style if style is not None else int(rng.integers(0, 5))
    if style == 0:
        return {}
    p = rng.uniform(0.1, 0.9)
    flags = rng.random(n) < p
    if style == 1:  # only True keys
        return {int(i): True for i in range(n) if flags[i]}
    if style == 2:  # full dict
        return {int(i): bool(flags[i]) for i in range(n)}
    if style == 3:  # random subset of keys with both values, shuffled key order
        keys = [int(k) for k in rng.permutation(n)[: int(rng.integers(0, n + 1))]]
        return {k: bool(flags[k]) for k in keys}
    m = {int(i): True for i in range(n) if flags[i]}  # with out-of-range keys
    m[int(n + rng.integers(0, 5))] = True
    m[-int(rng.integers(1, 4))] = True
    return m


def gen_history(rng):
    n = int(rng.choice([1, 2, 3, 4, 5, 8, 13, 30, 60], p=[0.05, 0.1, 0.15, 0.15, 0.15, 0.15, 0.1, 0.1, 0.05]))
    f, Z = _spectrum(rng, n)
    asc = bool(rng.random() < 0.6)
    if not asc:
        f, Z = f[::-1], Z[::-1]
    form = str(rng.choice(["array", "list", "readonly", "view", "intf", "intlist"], p=[0.5, 0.1, 0.1, 0.15, 0.1, 0.05]))
    if form in ("intf", "intlist"):
        fi = np.cumsum(rng.integers(1, 50, size=n)).astype(float) * float(10 ** int(rng.integers(0, 4)))
        f = [float(x) for x in (fi if asc else fi[::-1])]
    ops = [{"op": "construct", "f": f, "Z": Z, "mask": _mk(_rand_mask(rng, n)), "asc": asc, "np": bool(rng.random() < 0.25), "form": form,
            "path": str(rng.choice(["", "/tmp/some dir/file.csv"])), "label": str(rng.choice(["", "lbl"]))}]
    nops = int(rng.integers(1, 14))
    fs = sorted(f)
    for _ in range(nops):
        k = rng.choice(["set_mask", "low_pass", "high_pass", "subtract", "roundtrip", "roundtrip_twice", "duplicate", "average", "set_mask",
                        "refused"])
        if k == "refused":
            ops.append(_gen_refused(rng, n))
        elif k == "set_mask":
            ops.append({"op": "set_mask", "mask": _mk(_rand_mask(rng, n)), "np": bool(rng.random() < 0.25)})
        elif k in ("low_pass", "high_pass"):
            if rng.random() < 0.5:
                c = float(rng.choice(fs))  # exactly on a point: boundary is exclusive
            else:
                c = float(10 ** rng.uniform(np.log10(fs[0]) - 0.5, np.log10(fs[-1]) + 0.5))
            ops.append({"op": k, "cutoff": c})
        elif k == "subtract":
            if rng.random() < 0.5:
                s = [[float(rng.normal()), float(rng.normal())]]
            else:
                s = [[float(rng.normal()), float(rng.normal())] for _ in range(n)]
            ops.append({"op": "subtract", "s": s})
        elif k in ("roundtrip", "roundtrip_twice"):
            drop = [key for key in ("version", "mask", "path", "label", "uuid") if rng.random() < 0.3]
            ops.append({"op": k, "drop": drop, "json": bool(rng.random() < 0.7), "v1": bool(rng.random() < 0.15)})
        elif k == "duplicate":
            ops.append({"op": "duplicate", "label": None if rng.random() < 0.5 else "copy"})
        elif k == "average":
            s = [[float(rng.normal()), float(rng.normal())] for _ in range(n)]
            ops.append({"op": "average", "s": s})
    return ops


def _gen_refused(rng, n):
    """A call with an argument the documentation excludes.  If the library refuses it (raises), the data set must be exactly what it
    was; if the library accepts it, nothing is demanded and the history ends there."""
    how = str(rng.choice(["mask-bad-value", "mask-bad-key", "mask-not-dict", "subtract-wrong-length", "subtract-not-complex", "cutoff-not-number"],
                         p=[0.3, 0.3, 0.05, 0.15, 0.1, 0.1]))
    op = {"op": "refused", "how": how}
    if how.startswith("mask-bad"):
        # valid entries that flip flags come first (dicts keep insertion order), the offending entry is at a random later position
        valid = [[int(i), bool(rng.random() < 0.5)] for i in rng.permutation(n)[: int(rng.integers(1, n + 1))]]
        pos = int(rng.integers(0, len(valid) + 1)) if rng.random() < 0.3 else len(valid)
        op.update(valid=valid, pos=pos, bad=str(rng.choice(["none", "str", "float", "int"] if how == "mask-bad-value" else ["str", "float", "none"])),
                  at=int(rng.integers(0, n)))
    elif how == "subtract-wrong-length":
        op["len"] = int(n + rng.integers(1, 4)) if (n < 3 or rng.random() < 0.5) else int(rng.integers(2, n))
    return op


def _mk(m):
    return [[int(k), bool(v)] for k, v in m.items()]


def _md(pairs):
    return {int(k): bool(v) for k, v in pairs}


def _np_mask(md):
    """the same mask with numpy scalar types (accepted by the API: masks are often built from array comparisons)"""
    return {np.int64(k): np.bool_(v) for k, v in md.items()}


# ------------------------------------------------------------------------------------------------
# execution + oracle
# ------------------------------------------------------------------------------------------------
def _cmp_views(ds, m, step, viol, hist):
    from pyimpspec import DataSet  # noqa

    def bad(key, msg):
        viol.append({"key": key, "msg": f"after step {step} ({hist[step]['op']}): {msg}",
                     "witness": {"replay_case": {"kind": "explicit", "history": hist[: step + 1]}}})

    allv = m.view(None)
    try:
        f_all = ds.get_frequencies(masked=None)
        if len(f_all) > 1 and not np.all(np.diff(f_all) < 0):
            bad("C05/not-descending", f"frequencies not strictly descending: {f_all[:6]}")
        got_mask = ds.get_mask()
        if got_mask != m.mask():
            bad(f"C05/mask-mismatch:{hist[step]['op']}", f"get_mask()={got_mask} expected {m.mask()}")
        seen = 0
        # the masked= argument is accepted as a Python or a NumPy boolean
        np_args = step % 3 == 2
        for masked in ((None, np.bool_(False), np.bool_(True)) if np_args else (None, False, True)):
            exp = m.view(None if masked is None else bool(masked))
            ff = ds.get_frequencies(masked=masked)
            zz = ds.get_impedances(masked=masked)
            nn = ds.get_num_points(masked=masked)
            got = list(zip([float(x) for x in ff], [complex(z) for z in zz]))
            if nn != len(exp) or len(ff) != len(exp) or len(zz) != len(exp):
                bad(f"C05/view-size:{hist[step]['op']}", f"masked={masked}: sizes {nn},{len(ff)},{len(zz)} expected {len(exp)}")
                continue
            if got != exp:
                i = next(j for j in range(len(exp)) if got[j] != exp[j])
                bad(f"C05/view-mismatch:{hist[step]['op']}", f"masked={masked}: point {i} is {got[i]} expected {exp[i]}")
            if masked is not None:
                seen += len(exp)
            if len(exp) > 0:
                re_, im_ = ds.get_nyquist_data(masked=masked)
                bf, bm, bp = ds.get_bode_data(masked=masked)
                if not (np.array_equal(re_, zz.real) and np.array_equal(im_, -zz.imag) and np.array_equal(bf, ff) and np.array_equal(bm, abs(zz))):
                    bad("C05/derived-view", f"masked={masked}: nyquist/bode data disagree with get_impedances")
        # derived tabular view
        for masked in ((None, False, True) if step % 5 == 1 else ()):
            exp = m.view(masked)
            if len(exp) == 0:
                continue
            df = ds.to_dataframe(masked=masked)
            if len(df) != len(exp) or [float(x) for x in df.iloc[:, 0]] != [t[0] for t in exp] or \
                    [complex(a, b) for a, b in zip(df.iloc[:, 1], df.iloc[:, 2])] != [t[1] for t in exp]:
                bad("C05/derived-view", f"masked={masked}: to_dataframe() rows disagree with the model view")
        if seen != len(allv):
            bad("C05/partition", f"masked+unmasked={seen} != all={len(allv)}")
        d = ds.to_dict()
        if [float(x) for x in d["frequencies"]] != [t[0] for t in allv] or [complex(a, b) for a, b in zip(d["real_impedances"], d["imaginary_impedances"])] != [t[1] for t in allv]:
            bad("C05/to-dict", "to_dict() frequencies/impedances differ from the full view")
        if {int(k): bool(v) for k, v in d["mask"].items()} != m.mask():
            bad("C05/to-dict", "to_dict() mask differs")
        if m.uuid is not None and ds.uuid != m.uuid:
            bad("C05/uuid", f"uuid changed: {ds.uuid} expected {m.uuid}")
        if ds.get_label() != m.label or ds.get_path() != m.path:
            bad("C05/label-path", f"label/path {ds.get_label()!r},{ds.get_path()!r} expected {m.label!r},{m.path!r}")
    except Exception as e:
        bad(f"C05/getter-raised:{type(e).__name__}", monitors.tb_tail(e))


def run_history(hist):
    """Execute a concrete history on the real DataSet and the model. Returns (violations, stats)."""
    import os
    from pyimpspec import DataSet

    viol = []
    stats = {}
    ds = None
    m = None
    alive = []  # (earlier DataSet object, its model at the time it was left behind, how): nothing done later may change it

    def bad(step, key, msg):
        viol.append({"key": key, "msg": f"step {step} ({hist[step]['op']}): {msg}",
                     "witness": {"replay_case": {"kind": "explicit", "history": hist[: step + 1]}}})

    for step, op in enumerate(hist):
        k = op["op"]
        stats[k] = stats.get(k, 0) + 1
        monitors.drain()
        try:
            if k == "construct":
                f = np.array(op["f"], dtype=float)
                Z = np.array([complex(a, b) for a, b in op["Z"]])
                md = _md(op["mask"])
                caller = _np_mask(md) if op.get("np") else dict(md)
                if op.get("np"):
                    stats["numpy_scalar_masks"] = stats.get("numpy_scalar_masks", 0) + 1
                    md = dict(caller)
                form = op.get("form", "array")
                stats["construct_form:" + form] = stats.get("construct_form:" + form, 0) + 1
                if form == "list":
                    f, Z = f.tolist(), Z.tolist()
                elif form == "readonly":
                    f.setflags(write=False)
                    Z.setflags(write=False)
                elif form == "view":  # strided views into larger arrays that hold other numbers in between
                    fb, Zb = np.full(2 * len(f) + 1, 123.0), np.full(2 * len(Z) + 1, 9e9 - 7e9j)
                    fb[1::2], Zb[1::2] = f, Z
                    f, Z = fb[1::2], Zb[1::2]
                elif form == "intf":
                    f = f.astype(np.int64)
                elif form == "intlist":
                    f, Z = [int(x) for x in f], Z.tolist()
                given = (np.array(f, dtype=float), np.array(Z, dtype=complex))
                ds = DataSet(f, Z, mask=caller, path=op["path"], label=op["label"])
                if not (np.array_equal(np.array(f, dtype=float), given[0]) and np.array_equal(np.array(Z, dtype=complex), given[1])):
                    stats["caller_arrays_altered_by_constructor"] = stats.get("caller_arrays_altered_by_constructor", 0) + 1  # information only
                if caller != md or list(caller.keys()) != list(md.keys()):
                    bad(step, "C05/caller-mask-altered", f"mask passed {md} is now {caller}")
                lbl = op["label"] or os.path.splitext(os.path.basename(op["path"]))[0]
                m = Model(op["f"], [complex(a, b) for a, b in op["Z"]], md, path=op["path"], label=lbl, uuid=ds.uuid)
            elif k == "set_mask":
                md = _md(op["mask"])
                caller = _np_mask(md) if op.get("np") else dict(md)
                if op.get("np"):
                    stats["numpy_scalar_masks"] = stats.get("numpy_scalar_masks", 0) + 1
                    md = dict(caller)
                ds.set_mask(caller)
                if caller != md:
                    bad(step, "C05/caller-mask-altered", f"set_mask altered its argument {md} -> {caller}")
                m.set_mask(md)
            elif k == "refused":
                how = op["how"]
                try:
                    if how.startswith("mask-bad"):
                        items = [(int(a), bool(b)) for a, b in op["valid"]]
                        if how == "mask-bad-value":
                            bad_item = (op["at"], {"none": None, "str": "yes", "float": 1.0, "int": 2}[op["bad"]])
                        else:
                            bad_item = ({"str": str(op["at"]), "float": op["at"] + 0.5, "none": None}[op["bad"]], True)
                        items = [it for it in items if it[0] != bad_item[0]]
                        items.insert(min(op["pos"], len(items)), bad_item)
                        ds.set_mask(dict(items))
                    elif how == "mask-not-dict":
                        ds.set_mask([True] * m.n())
                    elif how == "subtract-wrong-length":
                        ds.subtract_impedances(np.array([complex(1.0, -1.0)] * op["len"]))
                    elif how == "subtract-not-complex":
                        ds.subtract_impedances("1+1j")
                    else:
                        (ds.low_pass if step % 2 else ds.high_pass)("10")
                except Exception:
                    stats["refused:" + how] = stats.get("refused:" + how, 0) + 1
                    before = len(viol)
                    _cmp_views(ds, m, step, viol, hist)
                    for v in viol[before:]:
                        v["key"] = f"C05/refused-call-changed-state:{how}"
                    if viol:
                        break
                    continue
                stats["invalid-accepted:" + how] = stats.get("invalid-accepted:" + how, 0) + 1
                break  # accepted: not judged, and the model cannot follow
            elif k == "low_pass":
                ds.low_pass(op["cutoff"])
                m.low_pass(op["cutoff"])
            elif k == "high_pass":
                ds.high_pass(op["cutoff"])
                m.high_pass(op["cutoff"])
            elif k == "subtract":
                s = np.array([complex(a, b) for a, b in op["s"]])
                ds.subtract_impedances(s if len(s) > 1 else np.array(s[0]))
                m.subtract(list(s))
            elif k in ("roundtrip", "roundtrip_twice"):
                m_before = copy.deepcopy(m)
                d = ds.to_dict()
                if op["json"]:
                    d = json.loads(json.dumps(d))
                for key in op["drop"]:
                    d.pop(key, None)
                if op.get("v1"):
                    # the documented older dictionary layout (version 1): frequency / real / imaginary
                    d["version"] = 1
                    d["frequency"] = d.pop("frequencies")
                    d["real"] = d.pop("real_impedances")
                    d["imaginary"] = d.pop("imaginary_impedances")
                snapshot = json.dumps(d, sort_keys=True, default=str)
                try:
                    ds2 = DataSet.from_dict(d)
                except Exception as e:
                    bad(step, "C05/from-dict-optional-key" if op["drop"] else "C05/from-dict-raised",
                        f"from_dict raised {type(e).__name__}: {e} (dropped keys {op['drop']})")
                    continue
                if k == "roundtrip_twice":
                    try:
                        ds3 = DataSet.from_dict(d)
                    except Exception as e:
                        bad(step, "C05/from-dict-reimport", f"second import of the same dict raised {type(e).__name__}: {e}")
                        ds3 = None
                    if json.dumps(d, sort_keys=True, default=str) != snapshot:
                        bad(step, "C05/from-dict-reimport", "from_dict modified the dictionary it was given")
                    if ds3 is not None:
                        if ds3.to_dict() != {**ds2.to_dict(), "uuid": ds3.uuid} or ("uuid" not in op["drop"] and ds3.uuid != ds2.uuid):
                            bad(step, "C05/from-dict-reimport", "two imports of the same dict differ")
                if "mask" in op["drop"]:
                    m.set_mask({})
                if "uuid" in op["drop"]:
                    m.uuid = ds2.uuid
                    if ds2.uuid == ds.uuid:
                        bad(step, "C05/uuid", "import without uuid reused the old uuid")
                if "path" in op["drop"]:
                    m.path = ""
                if "label" in op["drop"]:
                    m.label = os.path.splitext(os.path.basename(m.path))[0]
                alive.append((ds, m_before, k))
                ds = ds2
            elif k == "duplicate":
                before = ds.to_dict()
                m_old = copy.deepcopy(m)
                ds2 = DataSet.duplicate(ds, label=op["label"])
                if ds.to_dict() != before:
                    bad(step, "C05/duplicate-mutates", "duplicate changed the original")
                if ds2.uuid == ds.uuid:
                    bad(step, "C05/uuid", "duplicate kept the uuid")
                if op["label"] is not None:
                    m.label = op["label"]
                m.uuid = ds2.uuid
                # independence: mutate the old one, the copy must not change
                ds.set_mask({i: True for i in range(m.n())})
                ds.subtract_impedances(np.array(1.0 + 1.0j))
                m_old.set_mask({i: True for i in range(m.n())})
                m_old.subtract([1.0 + 1.0j])
                alive.append((ds, m_old, k))
                ds = ds2
            elif k == "average":
                other = DataSet.duplicate(ds)
                s = np.array([complex(a, b) for a, b in op["s"]])
                other.subtract_impedances(s)
                other.set_mask({0: True})
                m_a, m_b = copy.deepcopy(m), copy.deepcopy(m)
                m_b.subtract(list(s))
                m_b.set_mask({0: True})
                m_b.uuid = other.uuid
                alive.append((ds, m_a, k))
                alive.append((other, m_b, k + "-other"))
                avg = DataSet.average([ds, other], label="Avg")
                again = DataSet.average([ds, other], label="Avg")
                if not np.array_equal(again.get_impedances(masked=None), avg.get_impedances(masked=None)):
                    bad(step, "C05/average", "averaging the same two data sets a second time gives other impedances")
                Zm = np.array([t[1] for t in m.t])
                exp = np.mean(np.array([Zm, Zm - s]), axis=0)
                got = avg.get_impedances(masked=None)
                if len(got) != len(exp) or not np.allclose(got, exp, rtol=1e-13, atol=0):
                    bad(step, "C05/average", f"average impedances differ: {got[:3]} vs {exp[:3]}")
                if any(avg.get_mask().values()):
                    bad(step, "C05/average", "average carries a mask")
                for i, t in enumerate(m.t):
                    t[1] = complex(got[i]) if i < len(got) else t[1]
                    t[2] = False
                m.label = "Avg"
                m.path = ""
                m.uuid = avg.uuid
                ds = avg
        except Exception as e:
            bad(step, f"C05/op-raised:{k}:{type(e).__name__}", monitors.tb_tail(e))
            break
        for r in monitors.drain():
            key = "C05/caller-mask-altered" if r["monitor"].endswith("mask_post") else "C05/invariant"
            bad(step, key, r["msg"])
        _cmp_views(ds, m, step, viol, hist)
        if viol:
            break
        for ods, om, how in alive[-4:]:
            stats["earlier_object_rechecked"] = stats.get("earlier_object_rechecked", 0) + 1
            _cmp_views(ods, om, step, viol, hist)
            if viol:
                for v in viol:
                    v["key"] = f"C05/earlier-object-changed:{how}->{k}"
                    v["msg"] = f"the data set left behind by '{how}' changed: " + v["msg"]
                break
        if viol:
            break
    return viol, stats


def _exhaustive(n):
    """All mask subsets of size n, three dict styles: ascending vs descending construction omit the same points."""
    from pyimpspec import DataSet

    viol = []
    evals = 0
    f = np.array([10.0 ** (i - 2) for i in range(n)])  # ascending
    Z = np.array([complex(i + 1, -(i + 1) * 0.5) for i in range(n)])
    for bits in itertools.product([False, True], repeat=n):
        for style in range(3):
            if style == 0:
                md = {i: True for i in range(n) if bits[i]}
            elif style == 1:
                md = {i: bool(bits[i]) for i in range(n)}
            else:
                md = {i: True for i in reversed(range(n)) if bits[i]}
                md[n + 2] = True
            mirror = {n - 1 - k: v for k, v in md.items()}
            a_arg, d_arg = dict(md), dict(mirror)
            hist = [{"op": "construct", "f": [float(x) for x in f], "Z": [[z.real, z.imag] for z in Z], "mask": _mk(md), "asc": True, "path": "", "label": ""}]
            w = {"replay_case": {"kind": "explicit", "history": hist}}
            try:
                a = DataSet(f, Z, mask=a_arg)
                d = DataSet(f[::-1], Z[::-1], mask=d_arg)
            except Exception as e:
                viol.append({"key": f"C05/op-raised:construct:{type(e).__name__}", "msg": monitors.tb_tail(e), "witness": w})
                continue
            evals += 1
            exp_omitted = sorted(float(f[i]) for i in range(n) if bits[i])
            oa = sorted(float(x) for x in a.get_frequencies(masked=True))
            od = sorted(float(x) for x in d.get_frequencies(masked=True))
            if oa != od or oa != exp_omitted:
                viol.append({"key": "C05/construct-asc-mask", "msg": f"n={n} mask={md}: ascending omits {oa}, descending omits {od}, expected {exp_omitted}", "witness": w})
            if a_arg != md or d_arg != mirror or list(a_arg) != list(md):
                viol.append({"key": "C05/caller-mask-altered", "msg": f"n={n}: constructor changed the caller's mask {md} -> {a_arg}", "witness": w})
            if not (np.array_equal(a.get_frequencies(masked=None), d.get_frequencies(masked=None)) and np.array_equal(a.get_impedances(masked=None), d.get_impedances(masked=None))):
                viol.append({"key": "C05/view-mismatch:construct", "msg": f"n={n}: ascending and descending construction present different data", "witness": w})
    for r in monitors.drain():
        viol.append({"key": "C05/caller-mask-altered" if r["monitor"].endswith("mask_post") else "C05/invariant", "msg": r["msg"], "witness": {"n": n}})
    return viol, evals


# ------------------------------------------------------------------------------------------------
# runner API
# ------------------------------------------------------------------------------------------------
def gen_cases(tier, seed):
    cases = [{"kind": "exh", "n": n} for n in range(1, EXH_N[tier] + 1)]
    nb = 160 if tier == "quick" else 3200
    for i in range(nb):
        cases.append({"kind": "hist", "seed": [int(seed), i], "count": 40})
    return cases


def setup_shard():
    monitors.install_dataset_monitor()


def shard_report():
    return dict(monitors.COUNTERS)


def run_case(case):
    if case["kind"] == "exh":
        viol, evals = _exhaustive(case["n"])
        return {"evals": evals, "disjoint": evals - 3, "viol": viol[:20], "stats": {"exhaustive_constructions": evals},
                "sample": {"kind": "exh", "n": case["n"], "constructions": evals}}
    if case["kind"] == "explicit":
        viol, stats = run_history(case["history"])
        return {"evals": len(case["history"]), "keys": [json.dumps(case["history"])], "viol": viol, "stats": stats}
    rng = np.random.default_rng(case["seed"])
    allv = []
    stats = {}
    keys = []
    evals = 0
    sample = None
    for _ in range(case["count"]):
        hist = gen_history(rng)
        v, st = run_history(hist)
        allv.extend(v)
        evals += len(hist)
        for k, n in st.items():
            stats["op:" + k] = stats.get("op:" + k, 0) + n
        c = hist[0]
        nontrivial = c["asc"] or any(val for _, val in c["mask"]) or any(o["op"] in ("set_mask", "low_pass", "high_pass") for o in hist)
        if nontrivial:
            keys.append((len(c["f"]), c["asc"], tuple(map(tuple, c["mask"])), tuple(o["op"] for o in hist)))
        if sample is None:
            sample = {"history": [{k: (v if k not in ("f", "Z", "s") else f"<{len(v)} values>") for k, v in o.items()} for o in hist]}
    stats["histories"] = case["count"]
    return {"evals": evals, "keys": keys, "viol": allv[:20], "stats": stats, "sample": sample}


def finalize(agg):
    inc = []
    mon = agg["monitors"]
    if mon.get("DataSet.invariant", 0) == 0:
        inc.append("DataSet invariant contract never evaluated")
    if mon.get("DataSet.__init__.mask_post", 0) == 0:
        inc.append("constructor mask post-condition never evaluated")
    return {"viol": [], "inconclusive": inc}
