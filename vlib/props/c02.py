"""C02 - numeric impedance of every element equals its documented equation.

Clauses and oracles
 (a) per element class: get_impedances vs two independent evaluations of the documented equation
     (1) sympy.lambdify(sympify(Class._equation)) with mpmath at 30 digits over the RAW parameter symbols,
     (2) element.to_sympy(substitute=True) + evalf(30)   (also checks the substitution of values);
     rel 1e-9 of |Z| wherever the equation value is finite.  A numeric refusal (ImpedanceError) is a violation only in
     the *core* region of the box (within two decades of the defaults, exponents >= 0.3, 1e-3..1e5 Hz) where float
     overflow cannot be the reason; elsewhere it is counted.
 (b) whole circuits: Circuit.to_sympy(substitute=True) evaluated vs Circuit.get_impedances, random small trees and the
     general transmission line model in all 36 finite/short/open configurations (both sides must refuse together).
 (c) limits: wherever get_impedances([0.0]) / [inf] RETURNS a value L it must be the continuous extension of the
     finite-frequency values: e_k = |Z(f_k) - L| non-increasing along probes approaching the limit and either ending
     below 1e-6*max(|L|, |Z(f_1)|) or falling with log-log slope <= -0.05 per decade.  Raising is allowed.
"""
import math

import numpy as np

from .. import gen_circuit as G
from .. import monitors

ID = "C02"
RULE = (
    "(a) every registered element class (22 plain + private K, Ky) x parameter vectors sampled per parameter independently "
    "(log-uniform +-3 decades around the default clipped to the limit box, exponents over (0.05,1], finite box corners) x 8 "
    "frequencies over 1e-4..1e7 Hz, compared with the mpmath-lambdified documented equation (every point) and with "
    "to_sympy(substitute=True).evalf(30) (sampled); (b) random circuits of 1..5 leaves and all 36 sub-circuit configurations "
    "of Tlm, symbolic vs numeric; (c) f->0 / f->inf limit trend for every class and sampled circuits. Non-trivial = equation "
    "value finite and the comparison executed; distinct = distinct (class, parameter vector, frequency) or (circuit, frequency)."
)
ASSUMPTIONS = [
    "sympy.sympify/lambdify and mpmath (30 digits) evaluate the documented equation string correctly",
    "'^' in equation strings means exponentiation (sympify converts it)",
    "float overflow of the numeric implementation far outside the core region is not a contradiction of the equation",
]
SHARDS = 16
CASE_TIMEOUT = 600
MIN_EVALS = 500
RTOL = 1e-9
FREQS8 = [1e-4, 3.7e-3, 0.21, 1.0, 47.0, 2.3e3, 1.1e5, 1e7]

_LAMB = {}
BUDGET = {"limit": 2.0, "sympy": 6.0}  # seconds per library call in the quick tier (thorough: x5); firing = skipped + counted


class _Budget(BaseException):
    pass


class time_limit:
    """Bound one library call (sympy's limit() can run for minutes); firing means 'inconclusive for this probe',
    never a verdict.  Nests inside the runner's per-case SIGALRM watchdog and restores it."""

    def __init__(self, seconds):
        self.seconds = seconds

    def __enter__(self):
        import signal, time

        self.t0 = time.time()
        self.old_handler = signal.getsignal(signal.SIGALRM)
        self.remaining = signal.alarm(0)

        def fire(signum, frame):
            raise _Budget()

        signal.signal(signal.SIGALRM, fire)
        signal.setitimer(signal.ITIMER_REAL, self.seconds)
        return self

    def __exit__(self, *exc):
        import signal, time

        signal.setitimer(signal.ITIMER_REAL, 0)
        signal.signal(signal.SIGALRM, self.old_handler)
        if self.remaining:
            left = max(1, int(self.remaining - (time.time() - self.t0)))
            signal.alarm(left)
        return False


def _lamb(cls):
    import mpmath
    from sympy import lambdify, sympify

    if cls not in _LAMB:
        ex = sympify(cls._equation)
        syms = sorted(ex.free_symbols, key=str)
        _LAMB[cls] = ([str(s) for s in syms], lambdify(syms, ex, modules="mpmath"))
    return _LAMB[cls]


def eq_value(cls, values, f):
    """documented equation at (values, f) with 30-digit mpmath; returns complex or None (non-finite / raising)."""
    import mpmath

    mpmath.mp.dps = 30
    names, fn = _lamb(cls)
    try:
        args = [mpmath.mpf(f) if n == "f" else mpmath.mpf(values[n]) for n in names]
        z = fn(*args)
        z = complex(z)
    except (ZeroDivisionError, OverflowError, ValueError, KeyError, TypeError, mpmath.libmp.NoConvergence):
        return None
    if not (math.isfinite(z.real) and math.isfinite(z.imag)):
        return None
    return z


def _sample_values(rng, cls, core=False):
    vals = {}
    for k in cls.get_default_values():
        d, lo, hi = cls.get_default_value(k), cls.get_default_lower_limit(k), cls.get_default_upper_limit(k)
        if k in G.EXPONENT_KEYS and lo == 0.0 and hi == 1.0:
            r = rng.random()
            if core:
                v = float(rng.uniform(0.3, 1.0))
            elif r < 0.1:
                v = 1.0
            elif r < 0.2:
                v = 0.5
            else:
                v = float(rng.uniform(0.05, 1.0))
        else:
            span = 2.0 if core else 3.0
            base = abs(d) if d != 0 else 1.0
            v = base * 10 ** rng.uniform(-span, span)
            if math.isinf(lo) and rng.random() < 0.3:
                v = -v
            if not math.isinf(hi):
                v = min(v, hi)
            if not math.isinf(lo):
                v = max(v, lo if lo > 0 else 0.0)
            if v == 0.0 and not core:
                pass
            if not core and rng.random() < 0.04 and not math.isinf(hi):
                v = hi  # finite corner
        vals[k] = float(v)
    return vals


def _rel(a, b):
    return abs(a - b) / max(abs(a), abs(b), 1e-300)


def check_element_point(cls, vals, freqs, st, mx, viol, use_sympy, core):
    from pyimpspec.exceptions import ImpedanceError

    sym = cls.get_symbol()

    def bad(key, msg, f=None):
        viol.append({"key": key, "msg": f"{sym} {vals} f={f}: {msg}", "witness": {"class": sym, "values": vals, "f": f,
                     "replay_case": {"kind": "point", "sym": sym, "values": vals, "freqs": list(freqs), "sympy": use_sympy, "core": core}}})

    e = cls()
    try:
        e.set_values(**vals)
    except Exception as ex:
        bad(f"C02/set-values-raised:{type(ex).__name__}", str(ex))
        return 0
    n = 0
    try:
        with np.errstate(all="ignore"):
            zn = e.get_impedances(np.array(freqs))
    except ImpedanceError as ex:
        zn = None
        # evaluate one by one to see which points refuse
    except Exception as ex:
        o = monitors.exception_origin(ex)
        bad(f"C02/numeric-raised:{type(ex).__name__}@{o['func']}", monitors.tb_tail(ex))
        return 0
    expr = None
    for i, f in enumerate(freqs):
        ze = eq_value(cls, vals, f)
        if ze is None:
            st["trivial_equation_nonfinite"] = st.get("trivial_equation_nonfinite", 0) + 1
            continue
        if zn is None:
            try:
                with np.errstate(all="ignore"):
                    z = complex(e.get_impedances(np.array([f]))[0])
            except ImpedanceError as ex:
                st["numeric_refused"] = st.get("numeric_refused", 0) + 1
                if core and 1e-200 < abs(ze) < 1e200:
                    bad(f"C02/numeric-refuses-in-core:{sym}", f"equation gives {ze} but get_impedances raised {type(ex).__name__}", f)
                continue
            except Exception as ex:
                bad(f"C02/numeric-raised:{type(ex).__name__}", monitors.tb_tail(ex), f)
                continue
        else:
            z = complex(zn[i])
        n += 1
        r = _rel(z, ze)
        mx["rel:" + sym] = max(mx.get("rel:" + sym, 0.0), r)
        st["points:" + sym] = st.get("points:" + sym, 0) + 1
        if r > RTOL:
            # ill-conditioned point?  allow the sensitivity of the documented equation itself to a 1e-10 relative
            # perturbation of each input (a wrong formula is off by O(1), not by the conditioning of a right one)
            kappa = 0.0
            for pk in list(vals.keys()) + ["f"]:
                pv = dict(vals)
                pf = f
                if pk == "f":
                    pf = f * (1 + 1e-10)
                else:
                    pv[pk] = vals[pk] * (1 + 1e-10)
                zp = eq_value(cls, pv, pf)
                if zp is not None:
                    kappa = max(kappa, abs(zp - ze))
            st["conditioning_checked"] = st.get("conditioning_checked", 0) + 1
            if abs(z - ze) > max(kappa, RTOL * abs(ze)):
                bad(f"C02/numeric-vs-equation:{sym}", f"numeric {z} vs documented equation {ze} (rel {r:.2e}, conditioning allowance {kappa:.2e})", f)
                break
            st["ill_conditioned_points"] = st.get("ill_conditioned_points", 0) + 1
        if use_sympy and i in (1, 5):
            try:
                if expr is None:
                    expr = e.to_sympy(substitute=True)
                zs = complex(expr.subs("f", f).evalf(30))
            except Exception as ex:
                st["sympy_refused"] = st.get("sympy_refused", 0) + 1
                continue
            if math.isfinite(zs.real) and math.isfinite(zs.imag):
                r2 = _rel(z, zs)
                mx["rel_sympy:" + sym] = max(mx.get("rel_sympy:" + sym, 0.0), r2)
                st["sympy_points"] = st.get("sympy_points", 0) + 1
                if r2 > RTOL:
                    try:
                        zp = complex(expr.subs("f", f * (1 + 1e-9)).evalf(30))
                        if abs(z - zs) <= 10 * abs(zp - zs):
                            st["ill_conditioned_points"] = st.get("ill_conditioned_points", 0) + 1
                            continue
                    except Exception:
                        pass
                if r2 > RTOL:
                    bad(f"C02/numeric-vs-substituted-sympy:{sym}", f"numeric {z} vs to_sympy(substitute=True) {zs} (rel {r2:.2e})", f)
                    break
    return n


# ------------------------------------------------------------------------------------------------
# limits
# ------------------------------------------------------------------------------------------------
def check_limits(obj, label, st, mx, viol, witness, budget=None):
    """obj: element or circuit.  Where get_impedances([0.0]) / [inf] RETURNS a value L it must be the continuous
    extension of the finite-frequency values.  Oracle: the documented expression (to_sympy(substitute=True), which the
    other clauses tie to the numeric values) is evaluated with 60-digit arithmetic at f = 1e-3000 resp. 1e+3000 Hz - far
    enough out for every power law with |exponent| >= 0.01 to have converged to 1e-30 - and must equal L within 1e-6.
    (A finite probe window cannot be sound: a blocking element with exponent 0.05 is still 13x away from its limit at
    1e-15 Hz.)  Raising instead of reporting a limit is allowed; a budget that fires skips the probe."""
    import sympy

    budget = budget or BUDGET["limit"]
    expr = None
    reported = {}
    for which, lim_f, far in (("zero", 0.0, "1e-3000"), ("inf", float("inf"), "1e+3000")):
        try:
            with time_limit(budget):
                with np.errstate(all="ignore"):
                    L = complex(obj.get_impedances(np.array([lim_f]))[0])
        except _Budget:
            st[f"limit_{which}_budget"] = st.get(f"limit_{which}_budget", 0) + 1
            continue
        except Exception:
            st[f"limit_{which}_refused"] = st.get(f"limit_{which}_refused", 0) + 1
            continue
        if not (math.isfinite(L.real) and math.isfinite(L.imag)):
            continue
        reported[which] = L
        try:
            with time_limit(BUDGET["sympy"]):
                if expr is None:
                    expr = obj.to_sympy(substitute=True)
                zf = expr.subs("f", sympy.Float(far, 60)).evalf(60)
                re_, im_ = zf.as_real_imag()
                mag = abs(zf)
                if mag.is_finite is False or mag == sympy.zoo or mag.has(sympy.nan):
                    raise ValueError("non-finite")
                far_abs = float(sympy.log(mag + sympy.Float("1e-4000", 60), 10))  # log10 |Z_far| (safe for huge/small)
                diff = abs(zf - (sympy.Float(L.real, 60) + sympy.I * sympy.Float(L.imag, 60)))
                diff_log = float(sympy.log(diff + sympy.Float("1e-4000", 60), 10))
        except _Budget:
            st[f"limit_{which}_budget"] = st.get(f"limit_{which}_budget", 0) + 1
            continue
        except Exception:
            st[f"limit_{which}_far_eval_refused"] = st.get(f"limit_{which}_far_eval_refused", 0) + 1
            continue
        st[f"limit_{which}_checked"] = st.get(f"limit_{which}_checked", 0) + 1
        # scale: |L| if non-zero, else the magnitude at a moderate frequency
        if abs(L) > 0:
            scale_log = math.log10(abs(L))
        else:
            try:
                with np.errstate(all="ignore"):
                    zmid = complex(obj.get_impedances(np.array([1.0]))[0])
                scale_log = math.log10(max(abs(zmid), 1e-300))
            except Exception:
                scale_log = 0.0
        rel_log = diff_log - scale_log
        mx[f"limit_{which}_log10_relerr"] = max(mx.get(f"limit_{which}_log10_relerr", -4000.0), rel_log)
        if rel_log > -6.0:
            viol.append({"key": f"C02/limit-not-continuous:{which}:{label.split(' ')[0]}",
                         "msg": f"{label}: reported f->{which} limit {L}, but the documented expression at f={far} Hz is 10^{far_abs:.1f} in modulus and differs from the reported limit by 10^{diff_log:.1f} (relative 10^{rel_log:.1f})",
                         "witness": witness})
    check_joint_limit_queries(obj, reported, label, st, viol, witness)


def check_joint_limit_queries(obj, reported, label, st, viol, witness):
    """Both limits asked for in ONE call, in either order, with finite frequencies in between and repeated entries, must
    report each limit at its own position (the property's observe_at names get_impedances([0, inf]))."""
    if "zero" not in reported or "inf" not in reported:
        return
    inf = float("inf")
    try:
        with np.errstate(all="ignore"):
            zmid = complex(obj.get_impedances(np.array([1.0]))[0])
    except Exception:
        return
    exp_of = {0.0: reported["zero"], inf: reported["inf"], 1.0: zmid}
    for vec in ([0.0, inf], [inf, 0.0], [inf, 1.0, 0.0], [0.0, 1.0, inf], [inf, 0.0, inf, 1.0, 0.0]):
        try:
            with time_limit(4 * BUDGET["limit"]):
                with np.errstate(all="ignore"):
                    got = [complex(z) for z in obj.get_impedances(np.array(vec))]
        except _Budget:
            st["joint_limit_budget"] = st.get("joint_limit_budget", 0) + 1
            return
        except Exception as ex:
            viol.append({"key": f"C02/joint-limit-query-raised:{type(ex).__name__}",
                         "msg": f"{label}: get_impedances({vec}) raised {type(ex).__name__}: {str(ex)[:160]} although each limit is reported when asked for separately",
                         "witness": witness})
            return
        st["joint_limit_queries"] = st.get("joint_limit_queries", 0) + 1
        exp = [exp_of[v] for v in vec]
        if len(got) != len(exp) or not all(abs(a - b) <= 1e-9 * max(abs(b), 1e-300) + 1e-300 for a, b in zip(got, exp)):
            viol.append({"key": "C02/joint-limit-query-misplaced",
                         "msg": f"{label}: get_impedances({vec}) = {got} but the limits asked for separately are f->0: {reported['zero']}, f->inf: {reported['inf']} (Z(1 Hz) = {zmid})",
                         "witness": witness})
            return


def check_limits_after_change(obj, elements, label, st, mx, viol, witness):
    """History clause: a reported limit must follow the CURRENT values.  After the limits of `obj` were queried once,
    change one parameter of one (nested) element through the public setter and query again on the SAME object."""
    for e in elements[:3]:
        for k, v in e.get_values().items():
            trial = v * 1.7 if v != 0 else 0.5
            if k in G.EXPONENT_KEYS:
                trial = 0.5 if abs(v - 0.5) > 0.05 else 0.7
            if not (e.get_lower_limit(k) <= trial <= e.get_upper_limit(k)):
                continue
            e.set_values(k, trial)
            st["limit_requery_after_set_values"] = st.get("limit_requery_after_set_values", 0) + 1
            w2 = dict(witness)
            w2["changed"] = f"{e.get_symbol()}.{k}: {v} -> {trial}"
            check_limits(obj, label + f" [after {e.get_symbol()}.set_values({k}={trial:g})]", st, mx, viol, w2)
            return


# ------------------------------------------------------------------------------------------------
# whole circuits
# ------------------------------------------------------------------------------------------------
def check_circuit(circuit, label, freqs, st, mx, viol, witness, expect_refusal=None):
    from pyimpspec.exceptions import ImpedanceError

    def bad(key, msg):
        viol.append({"key": key, "msg": f"{label}: {msg}", "witness": witness})

    num_kind, zn = "ok", None
    try:
        with np.errstate(all="ignore"):
            zn = circuit.get_impedances(np.array(freqs))
    except NotImplementedError as ex:
        num_kind = "notimpl"
    except ImpedanceError as ex:
        num_kind = "imp"
    except Exception as ex:
        o = monitors.exception_origin(ex)
        bad(f"C02/circuit-numeric-raised:{type(ex).__name__}@{o['func']}", monitors.tb_tail(ex))
        return
    sym_kind, expr = "ok", None
    try:
        with time_limit(BUDGET["sympy"]):
            expr = circuit.to_sympy(substitute=True)
    except _Budget:
        st["circuit_sympy_budget"] = st.get("circuit_sympy_budget", 0) + 1
        return
    except NotImplementedError:
        sym_kind = "notimpl"
    except ZeroDivisionError:
        sym_kind = "imp"
    except Exception as ex:
        o = monitors.exception_origin(ex)
        bad(f"C02/circuit-sympy-raised:{type(ex).__name__}@{o['func']}", monitors.tb_tail(ex))
        return
    st[f"circuit:{num_kind}/{sym_kind}"] = st.get(f"circuit:{num_kind}/{sym_kind}", 0) + 1
    if expect_refusal == "notimpl" and not (num_kind == sym_kind == "notimpl"):
        bad("C02/tlm-refusal-mismatch", f"X_1 = X_2 = short must be refused with NotImplementedError on both sides: numeric {num_kind}, symbolic {sym_kind}")
        return
    if num_kind == "notimpl" or sym_kind == "notimpl":
        if expect_refusal == "may-be-masked-by-short" and num_kind == "ok" and sym_kind == "notimpl":
            # latitude: the numeric route stops at a shorted branch of a parallel connection and never evaluates a sibling
            # container whose configuration the library refuses; the symbolic route builds every sub-expression and refuses
            st["refusal_masked_by_short"] = st.get("refusal_masked_by_short", 0) + 1
            return
        if "ok" in (num_kind, sym_kind):
            bad("C02/tlm-refusal-mismatch", f"one side refuses the configuration, the other returns: numeric {num_kind}, symbolic {sym_kind}")
        return
    if num_kind == "imp":
        # both-refuse: the symbolic side must not produce a finite number
        if sym_kind == "ok":
            try:
                with time_limit(BUDGET["sympy"]):
                    zs = complex(expr.subs("f", freqs[0]).evalf(30))
                if math.isfinite(zs.real) and math.isfinite(zs.imag):
                    st["numeric_refused_symbolic_finite"] = st.get("numeric_refused_symbolic_finite", 0) + 1
            except (_Budget, Exception):
                pass
        return
    if sym_kind == "imp":
        bad("C02/symbolic-refuses-numeric-returns", f"to_sympy raised ZeroDivisionError but get_impedances returned {zn[:2]}")
        return
    free = {str(s) for s in expr.free_symbols}
    if not free <= {"f"}:
        bad("C02/substituted-expression-has-free-symbols", f"free symbols {sorted(free)}")
        return
    for f, z in zip(freqs, zn):
        try:
            with time_limit(BUDGET["sympy"]):
                zs = complex(expr.subs("f", f).evalf(30))
        except _Budget:
            st["circuit_sympy_budget"] = st.get("circuit_sympy_budget", 0) + 1
            return
        except Exception as ex:
            st["circuit_evalf_refused"] = st.get("circuit_evalf_refused", 0) + 1
            continue
        if not (math.isfinite(zs.real) and math.isfinite(zs.imag)):
            continue
        r = _rel(complex(z), zs)
        mx["rel_circuit"] = max(mx.get("rel_circuit", 0.0), r)
        st["circuit_points"] = st.get("circuit_points", 0) + 1
        if r > RTOL:
            # conditioning allowance: sensitivity of the symbolic value itself to a 1e-9 relative change of f
            try:
                with time_limit(BUDGET["sympy"]):
                    zp = complex(expr.subs("f", f * (1 + 1e-9)).evalf(30))
                if abs(complex(z) - zs) <= 10 * abs(zp - zs):
                    st["ill_conditioned_points"] = st.get("ill_conditioned_points", 0) + 1
                    continue
            except (_Budget, Exception):
                pass
            bad("C02/circuit-numeric-vs-symbolic", f"f={f:g}: numeric {complex(z)} vs symbolic {zs} (rel {r:.2e})")
            return


def tlm_configs():
    out = []
    for x1 in ("fin", "short"):
        for x2 in ("fin", "short"):
            for za in ("fin", "short", "open"):
                for zb in ("fin", "short", "open"):
                    out.append({"X_1": x1, "X_2": x2, "Z_A": za, "Z_B": zb})
    return out


def build_tlm(cfg, rng):
    fin = {"X_1": "R{R=%g}", "X_2": "(R{R=%g}C{C=1e-3})", "Z_A": "[R{R=%g}Q{Y=1e-3,n=0.9}]", "Z_B": "(R{R=%g}Q{Y=2e-2,n=0.7})"}
    parts = []
    for k in ("X_1", "X_2", "Z_A", "Z_B"):
        v = cfg[k]
        parts.append(f"{k}=" + ("short" if v == "short" else "open" if v == "open" else fin[k] % float(10 ** rng.uniform(-1, 2))))
    parts.append("Zeta=(R{R=%g}Q{Y=%g,n=%g})" % (float(10 ** rng.uniform(-1, 2)), float(10 ** rng.uniform(-4, -1)), float(rng.uniform(0.5, 1.0))))
    parts.append("L=%g" % float(10 ** rng.uniform(-1, 0.7)))
    return "Tlm{" + ", ".join(parts) + "}"


# ------------------------------------------------------------------------------------------------
def gen_cases(tier, seed):
    from pyimpspec import get_elements

    cases = []
    syms = sorted(s for s, c in get_elements(private=True).items() if s != "Tlm")
    nvec = 40 if tier == "quick" else 2000
    per = 20 if tier == "quick" else 50
    for s in syms:
        for i in range(0, nvec, per):
            cases.append({"kind": "elem", "sym": s, "seed": [int(seed), 1, syms.index(s), i], "count": per, "sympy_every": 4 if tier == "quick" else 10})
    for i, cfg in enumerate(tlm_configs()):
        cases.append({"kind": "tlm", "cfg": cfg, "seed": [int(seed), 2, i], "count": 1 if tier == "quick" else 8})
    for i in range(32 if tier == "quick" else 600):
        cases.append({"kind": "circ", "seed": [int(seed), 3, i], "count": 2})
    for s in syms + ["Tlm"]:
        cases.append({"kind": "limits", "sym": s, "seed": [int(seed), 4, (syms + ["Tlm"]).index(s)], "count": 2 if tier == "quick" else 20})
    return cases


def setup_shard():
    import os

    G.catalogue()
    if os.environ.get("VERIF_TIER") == "thorough":
        BUDGET["limit"], BUDGET["sympy"] = 10.0, 30.0


def _shared_instances(c, text, st, mx, viol):
    """object-API-only circuits in which one element or connection INSTANCE occurs more than once: the numeric route and the
    symbolic expression must still describe the same circuit (every occurrence counts)"""
    from pyimpspec import Circuit, Series, Parallel

    els = c.get_elements(recursive=False) if "recursive" in c.get_elements.__code__.co_varnames else c.get_elements()
    if not els:
        return
    a, b = els[0], els[-1]
    forms = [("series-twice", lambda: Circuit(Series([a, a]))),
             ("parallel-twice", lambda: Circuit(Series([Parallel([a, b, a])]))),
             ("connection-twice", lambda: Circuit(Series([Parallel([a, b]), b] if a is b else [Series([Parallel([a, b])] * 2), a])))]
    for name, make in forms:
        try:
            cc = make()
        except Exception as ex:
            viol.append({"key": f"C02/build-raised:{type(ex).__name__}", "msg": f"shared instance ({name}): {monitors.tb_tail(ex)}", "witness": {"cdc": text, "form": name}})
            continue
        st["shared_instance_circuits"] = st.get("shared_instance_circuits", 0) + 1
        n0 = len(viol)
        check_circuit(cc, f"shared instance ({name}) of {a.get_symbol()},{b.get_symbol()} from {text[:120]}", [0.02, 3.3, 510.0, 7.7e4], st, mx, viol,
                      {"cdc": text, "form": name, "shared": cc.to_string(6)[:200]}, expect_refusal="may-be-masked-by-short")
        for v in viol[n0:]:
            v["key"] += ":shared-instance"


def run_case(case):
    from pyimpspec import get_elements, parse_cdc

    st, mx, viol, keys = {}, {}, [], []
    evals = 0
    sample = None
    k = case["kind"]
    if k == "point":
        cls = get_elements(private=True)[case["sym"]]
        evals = check_element_point(cls, case["values"], case["freqs"], st, mx, viol, case.get("sympy", True), case.get("core", False))
        return {"evals": max(evals, 1), "keys": [str(case)], "viol": viol, "stats": st, "maxobs": mx}
    rng = np.random.default_rng(case.get("seed", [0]))
    if k == "elem":
        cls = get_elements(private=True)[case["sym"]]
        for j in range(case["count"]):
            core = (j % 4 == 0)
            vals = _sample_values(rng, cls, core=core)
            freqs = FREQS8 if not core else [1e-3, 0.05, 1.0, 33.0, 1e3, 1e5]
            n = check_element_point(cls, vals, freqs, st, mx, viol, use_sympy=(j % case["sympy_every"] == 0), core=core)
            evals += n
            if n:
                keys.append((case["sym"], tuple(sorted(vals.items()))))
            if sample is None:
                sample = {"class": case["sym"], "values": vals, "frequencies": freqs}
            if len(viol) > 10:
                break
    elif k == "tlm":
        for j in range(case["count"]):
            text = build_tlm(case["cfg"], rng)
            try:
                c = parse_cdc(text)
            except Exception as ex:
                viol.append({"key": f"C02/tlm-parse-raised:{type(ex).__name__}", "msg": f"{text}: {ex}", "witness": {"cdc": text}})
                continue
            w = {"cdc": text, "replay_case": {"kind": "cdc", "cdc": text}}
            both_short = case["cfg"]["X_1"] == "short" and case["cfg"]["X_2"] == "short"
            check_circuit(c, f"Tlm[{case['cfg']}] {text}", [0.013, 1.7, 240.0, 3.1e4], st, mx, viol, w, expect_refusal="notimpl" if both_short else None)
            if j == 0 and (case["cfg"]["Z_A"], case["cfg"]["Z_B"]) in (("open", "open"), ("short", "open"), ("fin", "open")):
                check_limits(c, "Tlm " + text, st, mx, viol, w)
                nested = [e for e in c.generate_element_identifiers(running=True) if e.get_symbol() == "R"]
                check_limits_after_change(c, nested, "Tlm " + text, st, mx, viol, w)
            evals += 1
            keys.append(text)
            sample = sample or {"cdc": text}
    elif k == "cdc":
        c = parse_cdc(case["cdc"])
        w = {"cdc": case["cdc"]}
        check_circuit(c, case["cdc"], [0.013, 1.7, 240.0, 3.1e4], st, mx, viol, w)
        check_limits(c, "circuit " + case["cdc"], st, mx, viol, w)
        evals = 1
    elif k == "tree":
        c = G.build_objects(case["tree"])
        w = {"tree": G.brief(G.nf(case["tree"])), "replay_case": case}
        check_circuit(c, c.to_string(6)[:200], [0.02, 3.3, 510.0, 7.7e4], st, mx, viol, w, expect_refusal="may-be-masked-by-short")
        evals = 1
    elif k == "circ":
        for j in range(case["count"]):
            n = int(rng.integers(1, 6))
            syms = None if rng.random() < 0.5 else ["R", "C", "L", "Q", "W", "Ws", "Wo", "Zarc", "G", "Tlm", "Tlmbo", "K"]
            t = G.random_tree(rng, n, mode="physical", max_sub_depth=1, leaf_syms=syms, label_classes=["none"])
            if rng.random() < 0.12:
                G.inject_empty_series(rng, t)  # a short spelled as an empty nested Series (object API only)
                st["circuits_with_empty_nested_series"] = st.get("circuits_with_empty_nested_series", 0) + 1
            try:
                c = G.build_objects(t)
                text = c.to_string(17)
            except Exception as ex:
                viol.append({"key": f"C02/build-raised:{type(ex).__name__}", "msg": monitors.tb_tail(ex), "witness": {"tree": G.brief(G.nf(t))}})
                continue
            w = {"cdc": text, "replay_case": {"kind": "cdc", "cdc": text} if not t.get("_objects_only") else {"kind": "tree", "tree": t}}
            check_circuit(c, text[:200], [0.02, 3.3, 510.0, 7.7e4], st, mx, viol, w,
                          expect_refusal="may-be-masked-by-short" if t.get("_objects_only") else None)
            if j % 2 == 0:
                _shared_instances(c, text, st, mx, viol)
            slow_decay = any((0.97 < G.dec(e["p"][k][0]) < 1.0 or G.dec(e["p"][k][0]) < 0.03) for e in G.iter_elements(t) for k in e["p"] if k in G.EXPONENT_KEYS)
            if j == 0 and n <= 3 and not slow_decay:
                check_limits(c, "circuit " + G.brief(G.nf(t)), st, mx, viol, w)
                check_limits_after_change(c, [e for e in c.generate_element_identifiers(running=True)][::-1], "circuit " + G.brief(G.nf(t)), st, mx, viol, w)
            evals += 1
            keys.append(text)
            sample = sample or {"cdc": text[:300]}
    elif k == "limits":
        for sym, cls in [(case["sym"], get_elements(private=True)[case["sym"]])]:
            for j in range(case["count"]):
                e = cls()
                if j > 0 and sym != "Tlm":
                    try:
                        sv = _sample_values(rng, cls, core=True)
                        for pk in sv:
                            if pk in G.EXPONENT_KEYS and 0.97 < sv[pk] < 1.0:
                                sv[pk] = 0.97  # power laws with |exponent| < 0.01 have not converged even at 1e+-3000 Hz
                        e.set_values(**sv)
                    except Exception:
                        continue
                w = {"class": sym, "values": e.get_values()}
                check_limits(e, f"{sym} {e.get_values()}", st, mx, viol, w)
                if j == 0:
                    # the same element inside a series connection and inside a circuit: re-query after a nested change
                    from pyimpspec import Circuit, Series, Resistor

                    inner = cls()
                    comp = Circuit(Series([Resistor(R=7.0), inner]))
                    check_limits(comp, f"{sym} in-series", st, mx, viol, w)
                    check_limits_after_change(comp, [inner, comp.get_elements()[0]], f"{sym} in-series", st, mx, viol, w)
                evals += 1
                keys.append(("limit", sym, j))
        sample = {"limits_for_class": case["sym"]}
    return {"evals": evals, "keys": keys, "viol": viol[:12], "stats": st, "maxobs": mx, "sample": sample}


def finalize(agg):
    from pyimpspec import get_elements

    s = agg["stats"]
    inc = []
    for sym in get_elements(private=True):
        if sym != "Tlm" and s.get("points:" + sym, 0) < 20:
            inc.append(f"class {sym}: only {s.get('points:' + sym, 0)} non-trivial points")
    if s.get("sympy_points", 0) < 50:
        inc.append("substituted-sympy comparison hardly exercised")
    if s.get("circuit_points", 0) < 50:
        inc.append("whole-circuit comparison hardly exercised")
    if s.get("limit_zero_checked", 0) + s.get("limit_inf_checked", 0) < 10:
        inc.append("limit clause hardly exercised")
    if s.get("joint_limit_queries", 0) < 5:
        inc.append("joint [0, inf] limit queries hardly exercised")
    if s.get("limit_requery_after_set_values", 0) < 5:
        inc.append("limit re-query after a nested change hardly exercised")
    return {"viol": [], "inconclusive": inc[:5]}
