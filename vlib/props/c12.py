"""C12 - circuit fitting recovers generating parameters and respects constraints.

Shape: differential oracle over observed FitResults (generator-is-the-oracle).  Every case is first turned into a
concrete JSON item {start circuit spec, f, Z, options, (truth)}; the REAL fit_circuit is run on it and the returned
FitResult / the caller's circuit are inspected.

Clauses (one mechanism-key family each):
  recovery     (only items with recover=True: identifiable family, noise-free data, class-default limits, default
               method="auto", weight="auto"): per fit pseudo_chisqr <= CHI_TOL and every
               generating value is reproduced within PAR_TOL (relative), modulo the order of interchangeable parallel
               blocks of identical shape (items whose generating values cannot be represented to RES_TOL inside the class-
               default limit box are judged under the separate key C12/recovery-limit-range-resolution and are left
               out of the run-level statistics); per run the median chi-squared / parameter error are <= MED_CHI_TOL /
               MED_PAR_TOL and >= MIN_CONVERGED of the fits meet the design's 1e-8 / 1e-3 (see the tolerance block).
  bounds       every value of result.circuit lies within [lower, upper] of the same parameter of the circuit that was
               passed in (exact comparison; the table is tied to the circuit by the table clause).  Every item has at least
               one box that excludes the unconstrained optimum, incl. boxes [lo, 0.0], [lo, -0.0], [-inf, 0.0], [0.0, hi],
               [0.0, inf] on the leading resistance with the optimum on the far side of 0.0.
  fixed        parameters marked fixed in the circuit passed in are bit-identical in result.circuit.
  fixed flags  the fixed flags of result.circuit, of result.parameters and the Fixed column of the dataframe equal the flags
               of the circuit passed in (a released default-fixed parameter stays released); parameters that carry a
               constraint expression are exempt in the table (the library reports them as not varied).
  constraints  every user expression  name = expr  holds on the returned values (rel. CONSTR_TOL); auxiliary
               constraint variables are read from result.minimizer_result.params.
  table        result.parameters has exactly one entry per element (named as result.circuit.get_element_name names it)
               and per parameter, value == value on result.circuit (exact); to_parameters_dataframe() rows say the same.
  untouched    circuit.serialize() and the exact (hex) snapshot of values/limits/fixed/labels/element identities of the
               circuit passed in are identical before and after the call - also when the call raises.

Latitude (statement is silent -> both behaviours accepted):
  - a fit may be *refused* with pyimpspec's FittingError (non-convergence, warnings-as-errors inside the optimiser):
    counted per cell, never a violation for invariant items; a whole (method, weight) cell that never returns is
    INCONCLUSIVE.  For recovery items (default auto/auto on identifiable noise-free data) a raise is a violation.
  - stderr / units of the table are not judged; only names, values and fixed flags.
  - the limits carried by result.circuit are not judged (only the values, against the caller's limits).
Preconditions built into the generator: start values inside their limit boxes; a parameter that carries a constraint
expression is not fixed and keeps limits that contain the whole range of its expression (lmfit clips an expression
value to min/max, which would make 'constraint holds' and 'within limits' contradict each other); at least one free
parameter; labels unique.
"""
import copy
import itertools
import json
import math
import warnings

import numpy as np

from .. import fit_model as fm
from .. import monitors

ID = "C12"
RULE = (
    "items = (start circuit spec, spectrum, options) generated from rng([seed, kind, index]). Recovery items: the six "
    "identifiable families R(RC), R(RQ), R(RC)(RC), R(RC)(RQ), R(C[RW]), RL(RQ) with resistances over 4 (thorough: 8) decades, "
    "comparable resistances (within x2 of a common scale), CPE exponents 0.75-0.92, time constants >=1 decade (RC next to RQ: 2) "
    "apart and >=0.8 decade inside a 6-8 decade window of 6-10 points/decade, start = truth perturbed by up to x3 (exponents "
    "+-0.05), fit_circuit(method='auto', weight='auto'), plus R(C[RW]) / R(C[RWo]) with the default-fixed Warburg exponent released and "
    "generated at 0.35-0.45 or 0.55-0.65; items whose values lmfit cannot represent to 1e-3 inside the class-"
    "default limit box are excluded from the standard range and judged under a separate key in the wide range. "
    "Invariant items: 17 circuit shapes (2..14 elements, incl. labels, Tlmbq/Tlmnq/Ls whose parameter symbols contain '_', W/Wo/Ws/"
    "Zarc/La/Tlm), per-parameter limit boxes {class default, tight around start, excluding the optimum, one-sided, above/"
    "below the class defaults, edges that are exactly 0.0 / -0.0 / one-sided infinite on a resistance whose optimum lies beyond the 0.0 "
    "edge}; every item carries at least one box that excludes the optimum (active limit); boundary cases (fixed and free start values exactly on a user or class-default limit, e.g. n=1, R=0, "
    "L=0, n=0.5 in [0.5, 1]), random fixed subsets, 0-1% noise, one (method, weight) cell per fit cycling through all "
    "9x4 cells (plus method/weight lists and pool runs, max_nfev in {unlimited, 40, 400}), optional constraint expressions of 6 "
    "kinds (incl. auxiliary variables named like <name>_<element index>). A fit is non-trivial "
    "when it returned and was checked; distinct = distinct (shape, cell, fixed mask, box kinds, constraint kind, labels) keys."
)
ASSUMPTIONS = [
    "numpy/lmfit/scipy as installed are the trusted numerical base; the harness only reads results",
    "circuits are built through the public object API (no parser); spectra come from Circuit.get_impedances of the generating circuit (trusted here, checked by C01/C02)",
    "constraint expressions are re-evaluated by Python eval on the returned values (arithmetic + sqrt only)",
    "identifiability is a generator precondition (time-constant separation, window margins, comparable resistances)",
]
SHARDS = 16
CASE_TIMEOUT = 900
MIN_EVALS = 100

# Frozen tolerances.  Calibration on the unchanged tree, final generator, 5 quick + 2 thorough seeds = 870 recovery fits in the
# standard class: worst pseudo chi-squared 4.1e-8, worst relative parameter error 5.6e-4, per-run median chi-squared
# 2e-14..7e-14, median parameter error 9e-8..3e-7, fraction meeting the design's 1e-8 / 1e-3: 0.989..1.0.  (The design's
# per-fit 1e-8 / 1e-3 is therefore kept as a quantile criterion; the per-fit tolerances sit >= 100x above the worst case.)
CHI_TOL = 1e-4        # every recovery fit: pseudo chi-squared ('pick the worst candidate' mutant: 3e-2..1e17)
PAR_TOL = 0.1         # every recovery fit: relative error of every generating value
CONV_CHI = 1e-8       # the design's tolerances, used at run level:
DESIGN_PAR = 1e-3
MIN_CONVERGED = 0.7   # run level: fraction of recovery fits with chi^2 <= CONV_CHI and error <= DESIGN_PAR
MED_CHI_TOL = 1e-9    # run level: median chi^2 over all recovery fits
MED_PAR_TOL = 1e-4    # run level: median relative parameter error
FAM_MED_CHI_TOL = 1e-8  # per family median when >= 20 fits of that family were checked
CONSTR_TOL = 1e-9     # constraint expressions (observed deviation: exactly 0.0 in 3800 checks)
RES_TOL = 1e-3        # recovery items in which some free generating value v has (upper-lower)*2**-54/v > RES_TOL inside its (class-
                      # default) limit box - lmfit's bounded-parameter transform cannot represent v to 0.1% - form the 'limit-
                      # resolution' class: their failures carry the key C12/recovery-limit-range-resolution (open known finding;
                      # 3 of 48 such fits ended at chi^2 0.08..0.13) and they are left out of the run-level statistics.  Only the
                      # thorough tier's wide range generates them; the standard range excludes them by construction.

METHODS = ["leastsq", "least_squares", "nelder", "lbfgsb", "powell", "cg", "bfgs", "tnc", "slsqp"]
WEIGHTS = ["unity", "modulus", "proportional", "boukamp"]
CELLS = [(m, w) for m in METHODS for w in WEIGHTS]

BLOCKS = {"method_x_weight": {"cells": 36, "exhaustive": True, "note": "every cell is requested equally often; cells that never returned are listed as inconclusive"}}


# ------------------------------------------------------------------------------------------------
# invariant-item generator
# ------------------------------------------------------------------------------------------------
SHAPES = [
    # (shape, weight)
    ("R(RC)", 2), ("R(RQ)", 2), ("R(RC)(RC)", 3), ("R(RC)(RQ)", 2), ("R(C[RW])", 2), ("RL(RQ)", 2),
    ("R(RC)(RC)(RC)(RC)(RC)", 2), ("RL(RQ)(RC)(RC)(RC)(RC)(RC)", 2),
    ("R(Q[RWo])", 1), ("R(RC)Ws", 1), ("RZarcZarc", 1), ("RLa(RQ)", 1), ("(R[RC])", 1), ("RTlm", 1),
    # seldom-used elements whose parameter symbols contain an underscore (R_i, R_ct, R_r, R_B, Y_B, n_B): the lmfit names
    # <symbol>_<index> then contain two underscores.  Kept cheap: noise-free, ~half of the parameters fixed, max_nfev 400.
    ("RTlmbq", 1), ("RTlmnq", 1), ("RLs", 1),
]
_UNDERSCORE_SHAPES = ("RTlmbq", "RTlmnq", "RLs")
_SYMS = ["Zarc", "Tlmbq", "Tlmnq", "Tlm", "Wo", "Ws", "La", "Ls", "R", "C", "Q", "L", "W"]
_EXPONENTS = ("n", "a", "b", "n_B")


def parse_shape(s):
    """'R(RC)[RQ]' -> spec skeleton (values filled in later). Top level is a series."""
    pos = 0

    def items(closer):
        nonlocal pos
        out = []
        while pos < len(s) and s[pos] != closer:
            ch = s[pos]
            if ch == "(":
                pos += 1
                out.append(["P"] + items(")"))
                pos += 1
            elif ch == "[":
                pos += 1
                out.append(["S"] + items("]"))
                pos += 1
            else:
                sym = next(x for x in _SYMS if s.startswith(x, pos))
                pos += len(sym)
                out.append(["E", sym, {}, ""])
        return out

    top = items("\0")
    return top[0] if len(top) == 1 and top[0][0] in "SP" else ["S"] + top


def _true_values(rng, sym):
    lu = fm._logu
    if sym == "R":
        return {"R": lu(rng, 1, 1e4)}
    if sym == "C":
        return {"C": lu(rng, 1e-7, 1e-3)}
    if sym == "L":
        return {"L": lu(rng, 1e-7, 1e-4)}
    if sym == "Q":
        return {"Y": lu(rng, 1e-6, 1e-3), "n": float(rng.uniform(0.6, 0.98))}
    if sym == "W":
        return {"Y": lu(rng, 1e-3, 1e-1), "n": 0.5}
    if sym in ("Wo", "Ws"):
        return {"Y": lu(rng, 1e-2, 1.0), "B": lu(rng, 0.1, 10.0), "n": 0.5}
    if sym == "Zarc":
        return {"R": lu(rng, 1, 1e4), "tau": lu(rng, 1e-4, 1.0), "n": float(rng.uniform(0.6, 0.98))}
    if sym == "La":
        return {"L": lu(rng, 1e-7, 1e-4), "n": float(rng.uniform(0.8, 0.99))}
    if sym == "Tlm":
        return {"L": lu(rng, 0.3, 3.0)}
    if sym == "Tlmbq":
        return {"R_i": lu(rng, 0.3, 30), "Y": lu(rng, 1e-3, 3e-2), "n": float(rng.uniform(0.6, 0.95)), "Y_B": lu(rng, 1e-3, 0.1),
                "n_B": float(rng.uniform(0.5, 0.9)), "L": 1.0}
    if sym == "Tlmnq":
        return {"R_i": lu(rng, 0.3, 30), "R_ct": lu(rng, 1, 30), "Y": lu(rng, 1e-3, 3e-2), "n": float(rng.uniform(0.6, 0.95)),
                "R_B": lu(rng, 1, 30), "Y_B": lu(rng, 1e-3, 0.1), "n_B": float(rng.uniform(0.5, 0.9)), "L": 1.0}
    if sym == "Ls":
        return {"R_i": lu(rng, 1, 100), "R_r": lu(rng, 0.3, 3), "Y": lu(rng, 1e-3, 0.1), "n": float(rng.uniform(0.6, 0.95)), "d": lu(rng, 0.05, 0.5)}
    raise ValueError(sym)


_DEFAULT_UPPER = {("C", "C"): 1e3, ("L", "L"): 1e3, ("Q", "Y"): 1e6, ("La", "L"): 1e3}
_LABELS = ["ct", "dl", "sol", "a1", "x_y", "film", "1a", "B", "el 2"]


def _box(rng, sym, name, t, default_fixed):
    """Choose (start, lower, upper, kind) for one parameter whose generating value is t."""
    lf = math.log10(3.0)
    if name in _EXPONENTS:
        if default_fixed:  # W/Wo/Ws exponent: stays at its (fixed-by-default) value unless freed below
            return t, "default", "default", "default"
        s = float(min(0.995, max(0.35, t + rng.uniform(-0.1, 0.1))))
        if rng.random() < 0.5:
            return s, "default", "default", "default"
        lo = float(max(0.2, s - rng.uniform(0.01, 0.2)))
        hi = float(min(1.0, s + rng.uniform(0.004, 0.2)))
        return s, lo, hi, "tight"
    s = float(t * 10.0 ** rng.uniform(-lf, lf))
    r = rng.random()
    if r < 0.30:
        return s, "default", "default", "default"
    if r < 0.55:
        a, b = 10.0 ** rng.uniform(0.01, 0.5), 10.0 ** rng.uniform(0.01, 0.5)
        return s, s / a, s * b, "tight"
    if r < 0.75:  # box that excludes the generating value -> the bound is active
        if rng.random() < 0.5:
            lo, hi = t * 10.0 ** rng.uniform(0.1, 0.5), t * 10.0 ** rng.uniform(0.6, 1.5)
        else:
            lo, hi = t * 10.0 ** -rng.uniform(0.6, 1.5), t * 10.0 ** -rng.uniform(0.1, 0.5)
        s = float(lo * (hi / lo) ** rng.uniform(0.0 if rng.random() < 0.1 else 0.1, 0.9))
        return s, lo, hi, "excl"
    if r < 0.83:
        return s, s / 10.0 ** rng.uniform(0.01, 0.5), None, "lower-only"
    if r < 0.90:
        return s, "default", s * 10.0 ** rng.uniform(0.01, 0.5), "upper-only"
    up = _DEFAULT_UPPER.get((sym, name))
    if up is not None:  # both limits above the class default upper limit
        lo, hi = up * 10.0 ** rng.uniform(0.5, 1.5), up * 10.0 ** rng.uniform(2.0, 3.0)
        return float(lo * (hi / lo) ** rng.uniform(0.1, 0.9)), lo, hi, "above-default"
    if sym == "R" and name == "R":  # both limits below the class default lower limit (0)
        lo, hi = -t * 10.0 ** rng.uniform(0.5, 1.0), -t * 10.0 ** -rng.uniform(0.5, 1.0)
        return float(rng.uniform(lo, hi)), lo, hi, "below-default"
    return s, None, None, "unbounded"


def _source_kinds(sym, name):
    """Box kinds allowed for the argument of a constraint expression (positive factor <= 25 / non-negative offset)."""
    from pyimpspec import get_elements

    cls = get_elements(private=True)[sym]
    if cls.get_default_lower_limit(name) == 0.0 and cls.get_default_upper_limit(name) == fm.INF:
        return ("tight", "excl", "default", "lower-only", "upper-only")  # any non-negative box maps into [0, inf)
    return ("tight", "excl")  # finite positive box: 25x the box stays far inside the default limits (asserted in gen_inv_item)


_CONSTR_KINDS = ["ratio-var", "equal", "offset-var", "ratio-const", "sqrt-chain", "ratio-var-suffix"]


def _constraints(rng, start_leaves):
    """Pick a constraint between two same-symbol parameters of different elements (running identifiers symbol_index).
    Returns (kind, expressions, variables, constrained (leaf index, name)) or None."""
    if any(len(leaf) > 4 for leaf in start_leaves):
        return None
    cands = {}
    for i, leaf in enumerate(start_leaves):
        for name in leaf[2]:
            if name in _EXPONENTS or leaf[1] in ("Tlm",):
                continue
            cands.setdefault((leaf[1], name), []).append(i)
    pairs = [(k, v) for k, v in cands.items() if len(v) >= 2]
    if not pairs:
        return None
    (sym, name), idx = pairs[int(rng.integers(len(pairs)))]
    a, b = [int(x) for x in rng.choice(idx, size=2, replace=False)]
    src, dst = f"{name}_{a}", f"{name}_{b}"
    kind = str(rng.choice(_CONSTR_KINDS, p=[0.25, 0.15, 0.2, 0.15, 0.1, 0.15]))
    k = float(10.0 ** rng.uniform(-0.7, 0.7))
    if kind == "ratio-var":
        return kind, {dst: f"{src} * alpha"}, {"alpha": {"value": k, "min": k / 5, "max": k * 5}}, (b, name), (a, name)
    if kind == "ratio-var-suffix":  # same, but the auxiliary variable's name ends in _<running index of an element>
        i = int(rng.integers(len(start_leaves)))
        foreign = [x for x in ("R", "C", "L", "Y", "tau") if x not in start_leaves[i][2]]
        var = f"{str(rng.choice(['k', 'alpha', 'Rx', foreign[0]]))}_{i}"
        return kind, {dst: f"{src} * {var}"}, {var: {"value": k, "min": k / 5, "max": k * 5}}, (b, name), (a, name)
    if kind == "equal":
        return kind, {dst: src}, {}, (b, name), (a, name)
    if kind == "offset-var":
        v0 = float(start_leaves[a][2][name][0])
        return kind, {dst: f"{src} + delta"}, {"delta": {"value": abs(v0) * k, "min": 0.0, "max": abs(v0) * 20}}, (b, name), (a, name)
    if kind == "ratio-const":
        return kind, {dst: f"{k!r} * {src}"}, {}, (b, name), (a, name)
    return kind, {dst: f"sqrt({src} * {src}) * beta", }, {"beta": {"value": k, "vary": False}}, (b, name), (a, name)


def gen_inv_item(rng, cell_index):
    """One concrete invariant item (JSON-able).  Precondition: the generating circuit has a finite spectrum."""
    while True:
        item = _gen_inv_item(rng, cell_index)
        if item is not None:
            return item


def _edges(rng, start, sl, kinds, skip):
    """Boundary cases: with probability 0.45 put one or two parameters EXACTLY on one of their limits - either by moving
    the limit onto the start value (any box kind; gives both-sided boxes with the value on an edge, n=0.5 in [0.5, 1], ...)
    or by moving the value onto the limit (user boxes and class-default edges such as n=1.0, R=0 in series, L=0, C=1e3).
    70% of them are marked fixed (never the last free parameter)."""
    from pyimpspec import get_elements

    if rng.random() >= 0.45:
        return
    classes = get_elements(private=True)
    cands = []
    k = 0
    for i, leaf in enumerate(sl):
        for name in leaf[2]:
            if leaf[1] != "Tlm" and (i, name) not in skip:
                cands.append((i, name, k))
            k += 1
    if not cands:
        return
    picks = [cands[int(j)] for j in rng.choice(len(cands), size=min(len(cands), int(rng.integers(1, 3))), replace=False)]
    for i, name, k in picks:
        leaf = sl[i]
        p = leaf[2][name]
        cls = classes[leaf[1]]
        lo = cls.get_default_lower_limit(name) if p[1] == "default" else (-fm.INF if p[1] is None else float(p[1]))
        hi = cls.get_default_upper_limit(name) if p[2] == "default" else (fm.INF if p[2] is None else float(p[2]))
        v = float(p[0])
        if not (lo < v < hi):
            continue
        zero_ok = (leaf[1] in ("L", "La") and name == "L") or (leaf[1] == "R" and i == 0 and start[0] == "S")
        modes = ["limit-lower", "limit-upper"]
        if math.isfinite(lo) and (lo != 0.0 or zero_ok) and not (name in _EXPONENTS and lo <= 0.0):
            modes.append("value-lower")
        if math.isfinite(hi):
            modes.append("value-upper")
        mode = str(rng.choice(modes))
        if mode == "limit-lower":
            p[1] = v
        elif mode == "limit-upper":
            p[2] = v
        elif mode == "value-lower":
            p[0] = lo
        else:
            p[0] = hi
        kinds[k] += ":on-lower" if mode.endswith("lower") else ":on-upper"
        n_free_others = sum(1 for l2 in sl if l2[1] != "Tlm" for q in l2[2].values() if not q[3] and q is not p)
        if rng.random() < 0.7 and n_free_others >= 1:
            p[3] = True


def _gen_inv_item(rng, cell_index):
    shapes = [s for s, _ in SHAPES]
    w = np.array([x for _, x in SHAPES], dtype=float)
    shp = str(rng.choice(shapes, p=w / w.sum()))
    fams = set(fm.FAMILIES)
    wide = bool(rng.random() < 0.3)
    if shp in fams and rng.random() < 0.6:
        truth, f_lo, f_hi, ppd = fm.gen_true(rng, shp, wide)
    else:
        truth = parse_shape(shp)
        for leaf in fm.leaves(truth):
            vals = _true_values(rng, leaf[1])
            leaf[2].update({k: [v, "default", "default", False] for k, v in vals.items()})
            if leaf[1] == "Tlm":
                leaf.append({"X_1": ["S", fm.E("R", R=fm._logu(rng, 0.1, 10))], "X_2": ["S", fm.E("R", R=fm._logu(rng, 0.1, 10))],
                             "Z_A": None, "Z_B": None, "Zeta": ["S", fm.E("Q", Y=fm._logu(rng, 1e-4, 1e-2), n=float(rng.uniform(0.7, 0.98)))]})
        lo = float(rng.uniform(-2, 0))
        f_lo, f_hi, ppd = 10.0**lo, 10.0 ** (lo + float(rng.uniform(5, 7))), int(rng.choice([5, 8, 10]))
        if shp == "RTlm" or shp in _UNDERSCORE_SHAPES:
            f_hi = min(f_hi, 1e4)
    tl = fm.leaves(truth)
    start = copy.deepcopy(truth)
    sl = fm.leaves(start)
    # constraint (decided first: the constrained parameter keeps class-default limits and is not fixed)
    constr = _constraints(rng, sl) if rng.random() < 0.3 else None
    constrained = constr[3] if constr else None
    source = constr[4] if constr else None
    kinds = []
    n_free = 0
    us = shp in _UNDERSCORE_SHAPES
    zero_leaf = None
    for i, leaf in enumerate(sl):
        for name, p in leaf[2].items():
            t = float(tl[i][2][name][0])
            default_fixed = leaf[1] in ("W", "Wo", "Ws") and name == "n"
            if leaf[1] in ("Tlmbq", "Tlmnq") and name == "L":  # length of the transmission line: fixed by default, released in 20%
                if rng.random() < 0.2:
                    p[:] = [float(t * 10.0 ** rng.uniform(-0.2, 0.2)), t / 2, t * 2, False]
                    kinds.append("tight")
                    n_free += 1
                else:
                    p[:] = [t, "default", "default", True]
                    kinds.append("default")
                continue
            if leaf[1] == "Tlm":
                p[:] = [t, "default", "default", True]
                kinds.append("default")
                continue
            if constrained == (i, name):
                p[:] = [float(t * 10.0 ** rng.uniform(-0.4, 0.4)), "default", "default", False]
                kinds.append("constrained")
                continue
            if leaf[1] == "R" and i == 0 and start[0] == "S" and source != (i, name) and rng.random() < 0.25:
                # limit boxes with a 'special' edge (0.0, -0.0, one side infinite) on a resistance that may be negative once its
                # lower limit is moved; the generating value lies beyond the 0.0 edge, so that edge is the active limit
                zk = str(rng.choice(["zero-upper", "negzero-upper", "inf-zero-upper", "zero-lower", "zero-lower-inf"]))
                a = abs(t)
                if zk.endswith("upper"):  # optimum (+a) above the box [lo, 0]
                    lo = None if zk == "inf-zero-upper" else -a * 10.0 ** rng.uniform(0.5, 1.5)
                    p[:] = [float(-a * 10.0 ** rng.uniform(-1.5, 0.0)), lo, -0.0 if zk == "negzero-upper" else 0.0, False]
                else:  # generating value flipped to -a: optimum below the box [0, hi]
                    tl[i][2][name][0] = -a
                    hi = None if zk == "zero-lower-inf" else a * 10.0 ** rng.uniform(0.0, 1.0)
                    p[:] = [float(a * 10.0 ** rng.uniform(-1.5, -0.1)), 0.0, hi, False]
                kinds.append(zk)
                zero_leaf = (i, name)
                n_free += 1
                continue
            s, lo, hi, kind = _box(rng, leaf[1], name, t, default_fixed)
            while source == (i, name) and kind not in _source_kinds(leaf[1], name):
                # precondition: the range of the expression over the box of its argument must lie inside the (class-
                # default) limits of the constrained parameter, otherwise lmfit clips the expression value
                s, lo, hi, kind = _box(rng, leaf[1], name, t, default_fixed)
            while us and kind == "unbounded":  # keep the seldom-used elements inside their physical (non-negative) range
                s, lo, hi, kind = _box(rng, leaf[1], name, t, default_fixed)
            fixed = bool(default_fixed or rng.random() < (0.5 if us else 0.3))
            if default_fixed and rng.random() < 0.3:  # free the exponent of a Warburg element inside a tight box
                fixed, lo, hi, kind = False, 0.3, 0.7, "tight"
                s = float(t + rng.choice([-1, 1]) * rng.uniform(0.02, 0.15))  # released and started off the generating 0.5
            p[:] = [s, lo, hi, fixed]
            kinds.append(kind)
            n_free += not fixed
    if constr:
        from pyimpspec import get_elements

        (ai, an), (bi, bn) = source, constrained
        cls = get_elements(private=True)[sl[bi][1]]
        dlo, dhi = cls.get_default_lower_limit(bn), cls.get_default_upper_limit(bn)
        _, slo, shi, _ = sl[ai][2][an]
        if not (dlo == 0.0 and dhi == fm.INF):
            # expression <= 25 * argument (ratio kinds) or <= 21 * argument (offset kind); keep a further factor 10 in hand
            if not (isinstance(slo, float) and isinstance(shi, float) and slo > 0 and dlo < slo / 250 and shi * 250 < dhi):
                constr = None  # precondition not met by the boxes drawn: this item carries no constraint
    if n_free == 0:  # free the first non-container parameter
        for leaf in sl:
            if leaf[1] != "Tlm":
                next(iter(leaf[2].values()))[3] = False
                break
    _ACTIVE = ("excl", "zero-upper", "negzero-upper", "inf-zero-upper", "zero-lower", "zero-lower-inf")
    k = 0
    flat = []
    for i, leaf in enumerate(sl):
        for name, p in leaf[2].items():
            flat.append((i, name, k, leaf, p))
            k += 1
    if not any(kinds[k] in _ACTIVE and not p[3] for i, name, k, leaf, p in flat):
        # limit-respect needs an ACTIVE limit: give one free, plain parameter a box that excludes its generating value
        cands = [(i, name, k, leaf, p) for i, name, k, leaf, p in flat if not p[3] and name not in _EXPONENTS and (i, name) not in (constrained, source)
                 and kinds[k] in ("default", "tight", "lower-only", "upper-only", "unbounded") and leaf[1] not in ("Tlm", "Tlmbq", "Tlmnq") and p[0] > 0]
        if cands:
            i, name, k, leaf, p = cands[int(rng.integers(len(cands)))]
            t = float(tl[i][2][name][0])
            if rng.random() < 0.5:
                lo, hi = t * 10.0 ** rng.uniform(0.1, 0.5), t * 10.0 ** rng.uniform(0.6, 1.5)
            else:
                lo, hi = t * 10.0 ** -rng.uniform(0.6, 1.5), t * 10.0 ** -rng.uniform(0.1, 0.5)
            p[:] = [float(lo * (hi / lo) ** rng.uniform(0.1, 0.9)), lo, hi, False]
            kinds[k] = "excl"
    _edges(rng, start, sl, kinds, {constrained, source, zero_leaf})
    labels = []
    if rng.random() < 0.3:
        pool = [str(x) for x in rng.permutation(_LABELS)]
        for leaf in sl:
            if rng.random() < 0.5 and pool:
                leaf[3] = pool.pop()
                labels.append(leaf[3])
    noise = 0.0 if us else float(rng.choice([0.0, 1e-3, 1e-2]))
    try:
        with warnings.catch_warnings():
            warnings.simplefilter("ignore")
            f, Z = fm.spectrum(truth, f_lo, f_hi, ppd, noise, rng)
    except Exception:  # e.g. cosh overflow of the transmission line at the top of the window: not a usable spectrum
        return None
    if not (np.all(np.isfinite(Z.real)) and np.all(np.isfinite(Z.imag)) and np.all(abs(Z) > 0)):
        return None
    n_el = len(sl)
    method, weight = CELLS[cell_index % 36]
    r = rng.random()
    num_procs = 1
    if r < 0.06 and not us:  # lists of methods / weights (several fits, best one returned), sometimes through the process pool
        method = [method] + [str(x) for x in rng.choice(METHODS, size=2)]
        weight = [weight, str(rng.choice(WEIGHTS))]
        num_procs = int(rng.choice([1, 2]))
    max_nfev = int(rng.choice([-1, -1, -1, 40, 400]))
    if n_el >= 9 and max_nfev < 0:
        max_nfev = 600
    if us and max_nfev < 0:
        max_nfev = 400
    item = {
        "kind": "explicit", "recover": False, "shape": shp, "start": start, "f": [float(x) for x in f],
        "Z": [[float(z.real), float(z.imag)] for z in Z], "method": method, "weight": weight, "max_nfev": max_nfev,
        "num_procs": num_procs, "cexpr": constr[1] if constr else None, "cvars": constr[2] if constr else None,
        "ckind": constr[0] if constr else "", "box_kinds": kinds, "labels": labels, "noise": noise,
    }
    return item


def gen_rec_item(rng, family, wide, num_procs):
    truth, f_lo, f_hi, ppd = fm.gen_true(rng, family, wide)
    start = fm.perturb(rng, truth)
    f, Z = fm.spectrum(truth, f_lo, f_hi, ppd)
    return {
        "kind": "explicit", "recover": True, "shape": family, "truth": truth, "start": start, "f": [float(x) for x in f],
        "Z": [[float(z.real), float(z.imag)] for z in Z], "method": "auto", "weight": "auto", "max_nfev": -1,
        "num_procs": num_procs, "cexpr": None, "cvars": None, "ckind": "", "box_kinds": [], "labels": [], "noise": 0.0,
    }


# ------------------------------------------------------------------------------------------------
# execution + oracle
# ------------------------------------------------------------------------------------------------
def _slim(item):
    """Item as stored in a witness (complete: it must replay)."""
    return item


def _cell_name(item):
    m, w = item["method"], item["weight"]
    return (m if isinstance(m, str) else "+".join(m)) + "/" + (w if isinstance(w, str) else "+".join(w))


def _blocks_permutations(truth):
    """Permutations of the top-level children that only reorder blocks of identical shape."""
    kids = truth[1:]
    shapes = [fm.shape(k) for k in kids]
    groups = {}
    for i, s in enumerate(shapes):
        groups.setdefault(s, []).append(i)
    perms = [list(range(len(kids)))]
    for s, idx in groups.items():
        if len(idx) > 1 and s != "R":
            new = []
            for base in perms:
                for p in itertools.permutations(idx):
                    q = list(base)
                    for a, b in zip(idx, p):
                        q[a] = base[b]
                    new.append(q)
            perms = new
    return [[truth[0]] + [kids[i] for i in p] for p in perms]


def _us_suffix(params):
    """Key suffix for elements whose parameter symbols contain an underscore (lmfit names with two underscores)."""
    return ":underscore-symbols" if any("_" in k for k in params) else ""


def check_fit(item):
    """Run the real fit_circuit on a concrete item and apply every clause. Returns a run_case-style dict."""
    from pyimpspec import DataSet, fit_circuit, generate_fit_identifiers
    from pyimpspec.exceptions import FittingError

    viol, stats, maxobs, keys = [], {}, {}, []

    def bump(name, n=1):
        stats[name] = stats.get(name, 0) + n

    def worst(name, v):
        v = float(v)
        if v == v:
            maxobs[name] = max(maxobs.get(name, v), v)

    def bad(key, msg):
        viol.append({"key": key, "msg": f"{item['shape']} {_cell_name(item)}: {msg}", "witness": {"replay_case": _slim(item)}})

    cell = _cell_name(item)
    circuit = fm.build(item["start"])
    f = np.array(item["f"], dtype=float)
    Z = np.array([complex(a, b) for a, b in item["Z"]])
    data = DataSet(f, Z)
    before_txt = circuit.serialize()
    before_snap = fm.snapshot(circuit)
    in_elements = list(circuit.generate_element_identifiers(running=True).keys())  # all elements incl. those inside containers
    idents = generate_fit_identifiers(circuit)
    if not any(len(leaf) > 4 for leaf in fm.leaves(item["start"])):
        assert [leaf[1] for leaf in fm.leaves(item["start"])] == [el.get_symbol() for el in in_elements], "harness: spec order != running order"
    in_state = [(el.get_symbol(), el.get_values(), el.get_lower_limits(), el.get_upper_limits(), el.are_fixed(), dict(idents[el].items())) for el in in_elements]
    kwargs = {}
    if item.get("cexpr"):
        kwargs["constraint_expressions"] = dict(item["cexpr"])
        kwargs["constraint_variables"] = copy.deepcopy(item["cvars"] or {})
    bump("fits_requested")
    bump("requested:" + ("recovery" if item["recover"] else "invariant"))
    result = None
    exc = None
    with warnings.catch_warnings():
        warnings.simplefilter("ignore")
        try:
            result = fit_circuit(circuit, data, method=item["method"], weight=item["weight"], max_nfev=int(item["max_nfev"]),
                                 num_procs=int(item["num_procs"]), **kwargs)
        except FittingError as e:
            exc = e
        except Exception as e:  # anything else escaping fit_circuit on a valid input
            exc = e
    # ---- untouched (also when the call raised)
    bump("untouched_checked")
    after_txt = circuit.serialize()
    after_snap = fm.snapshot(circuit)
    if after_txt != before_txt or after_snap != before_snap:
        diff = next((f"{a[1]}: {a[3]} -> {b[3]}" for a, b in zip(before_snap, after_snap) if a != b), f"{before_txt} -> {after_txt}")
        bad("C12/input-modified" + ("" if exc is None else ":on-raise"), f"the circuit passed in was changed by fit_circuit: {diff[:400]}")
    if exc is not None:
        if isinstance(exc, FittingError):
            last = str(exc).strip().splitlines()[-1][:80] if str(exc).strip() else ""
            bump("refused")
            bump("refused:" + cell)
            bump("refused-reason:" + last.split(":")[0][:40])
            if item["recover"]:
                bad("C12/recovery-raised:FittingError", f"auto/auto on noise-free data of an identifiable circuit was refused: {str(exc)[-300:]}")
        else:
            o = monitors.exception_origin(exc)
            key = f"C12/fit-raised:{o['type']}@{o['func']}"
            if o["type"] == "KeyError" and o["func"] == "_extract_parameters" and item.get("ckind") == "ratio-var-suffix":
                key = "C12/constraint-variable-suffix-collision"
            bad(key, f"fit_circuit raised {o['type']} at {o['file']}:{o['line']} ({o['text']}): {monitors.tb_tail(exc, 4)[-500:]}")
        return {"evals": 0, "keys": [], "viol": viol, "stats": stats, "maxobs": maxobs}

    # ---- a fit returned: invariants
    bump("fits_returned")
    bump("returned:" + (result.method + "/" + result.weight))
    rc = result.circuit
    out_elements = list(rc.generate_element_identifiers(running=True).keys())
    if len(out_elements) != len(in_elements) or [e.get_symbol() for e in out_elements] != [s[0] for s in in_state]:
        bad("C12/structure-changed", f"returned circuit {rc.to_string()} has other elements than the input {circuit.to_string()}")
        return {"evals": 1, "keys": [], "viol": viol, "stats": stats, "maxobs": maxobs}
    lmfit_values = {}  # running identifier -> returned value
    n_fixed = n_active = n_params = n_flags = n_released = 0
    for el, (sym, vals, lo, hi, fx, ids) in zip(out_elements, in_state):
        got = el.get_values()
        for name, v0 in vals.items():
            v = got[name]
            n_params += 1
            lmfit_values[ids[name]] = float(v)
            # bounds (against the limits of the circuit passed in), exact
            if not (lo[name] <= v <= hi[name]):
                kind = item["box_kinds"][n_params - 1] if len(item.get("box_kinds") or []) >= n_params else "default"
                bad(f"C12/out-of-bounds:{kind}", f"{sym}.{name}={float(v)!r} outside [{lo[name]!r}, {hi[name]!r}] (start {v0!r}, fixed={fx[name]})")
            else:
                span = max(abs(v), abs(float(v0))) * 1e-9 + 1e-300
                at_lo, at_hi = abs(v - lo[name]) <= span, abs(v - hi[name]) <= span
                if at_lo or at_hi:
                    n_active += 1
                if not fx[name] and (lo[name] == 0.0 or hi[name] == 0.0) and float(v0) != 0.0 and (sym, name) == ("R", "R"):
                    side = "upper" if hi[name] == 0.0 else "lower"
                    if side == "upper" or float(v0) > 0 and "zero-lower" in "".join(item.get("box_kinds") or []):
                        bump("zero_limit_checked:" + side)
                        if (at_hi if side == "upper" else at_lo):
                            bump("zero_limit_active:" + side)
            if float(v0) == lo[name] or float(v0) == hi[name]:  # boundary case: the start value sits exactly on one of its limits
                edge = "lower" if float(v0) == lo[name] else "upper"
                bump("fixed_on_limit" if fx[name] else "free_on_limit")
                bump(("fixed" if fx[name] else "free") + "_on_limit:" + edge)
                cls_ = type(el)
                if float(v0) in (cls_.get_default_lower_limit(name), cls_.get_default_upper_limit(name)):
                    bump(("fixed" if fx[name] else "free") + "_on_class_default_limit")
            # the fixed flag itself must survive: a released parameter stays released, a fixed one fixed
            n_flags += 1
            out_fixed = bool(el.is_fixed(name))
            if type(el).is_fixed_by_default(name) and not fx[name]:
                n_released += 1
            if out_fixed != bool(fx[name]):
                bad("C12/fixed-flag-changed:returned-circuit", f"{sym}.{name} was passed in with fixed={bool(fx[name])} (class default {type(el).is_fixed_by_default(name)}) but the returned circuit has fixed={out_fixed}")
            if fx[name]:
                n_fixed += 1
                if not (float(v).hex() == float(v0).hex()):
                    bad("C12/fixed-changed", f"fixed {sym}.{name} was {float(v0)!r}, returned circuit has {float(v)!r}")
    bump("params_bounds_checked", n_params)
    bump("params_fixed_checked", n_fixed)
    bump("fixed_flags_checked", n_flags)
    bump("underscore_symbol_params_checked", sum(1 for st_ in in_state for k in st_[1] if "_" in k))
    bump("released_default_fixed", n_released)
    bump("params_at_bound", n_active)
    bump("fits_with_active_limit", 1 if n_active else 0)
    # ---- table == circuit
    names = []
    mism = 0
    try:
        table = result.parameters
        cexpr_names = set((item.get("cexpr") or {}).keys())
        df_fixed_expected = {}
        for el, (sym_, vals_, lo_, hi_, fx_, ids_) in zip(out_elements, in_state):
            nm = rc.get_element_name(el)
            names.append(nm)
            row = table.get(nm)
            got = el.get_values()
            if row is not None:
                for name, flag in fx_.items():
                    if ids_[name] in cexpr_names or name not in row:
                        continue  # latitude: a parameter that carries a constraint expression is reported as not varied
                    df_fixed_expected[(nm, name)] = "Yes" if flag else "No"
                    if bool(row[name].fixed) != bool(flag):
                        bad("C12/fixed-flag-changed:table" + _us_suffix(fx_), f"table says {nm}.{name} fixed={row[name].fixed}, the circuit passed in has fixed={bool(flag)}")
            if row is None or set(row.keys()) != set(got.keys()):
                bad("C12/table-names", f"parameter table entry {nm!r} is {None if row is None else sorted(row)} but the element has {sorted(got)}; table keys {sorted(table)}")
                continue
            for name, v in got.items():
                tv = row[name].value
                if not (float(tv) == float(v)):
                    mism += 1
                    bad("C12/table-mismatch" + _us_suffix(got), f"table says {nm}.{name}={float(tv)!r}, returned circuit has {float(v)!r}")
        if set(table.keys()) != set(names) or len(names) != len(set(names)):
            bad("C12/table-names", f"table keys {sorted(table)} vs element names {sorted(names)}")
        bump("table_values_checked", n_params)
        df = result.to_parameters_dataframe()
        rows = {(str(a), str(b)): float(c) for a, b, c in zip(df["Element"], df["Parameter"], df["Value"])}
        exp = {(nm, name): float(v) for el, nm in zip(out_elements, names) for name, v in el.get_values().items()}
        if len(df) != len(exp) or rows != exp:
            d = [k for k in set(rows) | set(exp) if rows.get(k) != exp.get(k)][:3]
            bad("C12/dataframe-mismatch", f"to_parameters_dataframe() differs from the returned circuit at {d}: {[rows.get(k) for k in d]} vs {[exp.get(k) for k in d]}")
        bump("dataframe_rows_checked", len(exp))
        df_fixed = {(str(a), str(b)): str(c) for a, b, c in zip(df["Element"], df["Parameter"], df["Fixed"])}
        wrong = [k for k, v in df_fixed_expected.items() if df_fixed.get(k) != v][:3]
        if wrong:
            bad("C12/fixed-flag-changed:table", f"Fixed column of to_parameters_dataframe() is {[df_fixed.get(k) for k in wrong]} for {wrong}, the circuit passed in says {[df_fixed_expected[k] for k in wrong]}")
        bump("table_fixed_flags_checked", len(df_fixed_expected))
    except Exception as e:
        o = monitors.exception_origin(e)
        if o["in_tree"]:
            bad(f"C12/table-raised:{o['type']}@{o['func']}", monitors.tb_tail(e, 4)[-500:])
        else:
            raise
    # ---- constraints
    if item.get("cexpr"):
        env_ = dict(lmfit_values)
        env_["sqrt"] = math.sqrt
        for var in (item.get("cvars") or {}):
            env_[var] = float(result.minimizer_result.params[var].value)
        for name, expr in item["cexpr"].items():
            lhs = lmfit_values[name]
            rhs = float(eval(expr, {"__builtins__": {}}, env_))
            dev = abs(lhs - rhs) / max(abs(lhs), abs(rhs), 1e-300)
            worst("constraint_rel_dev", dev)
            bump("constraints_checked")
            bump("constraint:" + item["ckind"])
            if not dev <= CONSTR_TOL:
                bad(f"C12/constraint-broken:{item['ckind']}", f"{name} = {expr}: returned {lhs!r} but expression gives {rhs!r} (rel. {dev:.3g})")
    # ---- recovery
    if item["recover"]:
        # regime: can the generating values be represented inside their limit boxes at all?  lmfit maps a parameter with two
        # finite limits to lower + (sin(x)+1)*(upper-lower)/2, whose values are spaced (upper-lower)*2**-54 apart near the
        # lower limit; with the class defaults (C, L: upper 1e3; Q.Y: upper 1e6) that is 5.6e-14 / 5.6e-11.
        res = 0.0
        for (sym, vals, lo, hi, fx, ids), leaf in zip(in_state, fm.leaves(item["truth"])):
            for name, p in leaf[2].items():
                if math.isfinite(lo[name]) and math.isfinite(hi[name]) and not fx[name]:
                    res = max(res, (hi[name] - lo[name]) * 2.0**-54 / abs(float(p[0])))
        high_z = res > RES_TOL
        tag = "limit-resolution" if high_z else item["shape"]
        worst("recovery_value_resolution" + (":limit-resolution" if high_z else ""), res)
        bump("recovery_checked")
        bump("recovery:" + tag)
        bump("winner:" + result.method + "/" + result.weight)
        chi = float(result.pseudo_chisqr)
        worst("recovery_pseudo_chisqr:" + tag, chi)
        fitted = [float(v) for el in out_elements for v in el.get_values().values()]
        best = math.inf
        for perm in _blocks_permutations(item["truth"]):
            tv = [float(p[0]) for leaf in fm.leaves(perm) for p in leaf[2].values()]
            err = max(abs(a - b) / abs(a) for a, b in zip(tv, fitted))
            best = min(best, err)
        worst("recovery_param_rel_err:" + tag, best)
        if high_z and not chi <= CHI_TOL:
            bump("limit-resolution_items_above_CHI_TOL")
        if not chi <= CHI_TOL:
            bad("C12/recovery-limit-range-resolution" if high_z else f"C12/recovery-chisqr:{item['shape']}", f"pseudo chi-squared {chi:.3g} > {CHI_TOL:g} (winner {result.method}/{result.weight}, worst parameter error {best:.3g})")
        if not best <= PAR_TOL:
            tv = [float(p[0]) for leaf in fm.leaves(item["truth"]) for p in leaf[2].values()]
            bad("C12/recovery-limit-range-resolution" if high_z else f"C12/recovery-params:{item['shape']}", f"generating values {tv} returned as {fitted} (rel. error {best:.3g}, chi-squared {chi:.3g}, winner {result.method}/{result.weight})")
    fixed_mask = tuple(bool(x) for s in in_state for x in s[4].values())
    keys.append((item["shape"], cell, fixed_mask, tuple(item.get("box_kinds") or ()), item.get("ckind", ""), tuple(item.get("labels") or ()), bool(item["recover"])))
    agg = [tag, chi, best] if item["recover"] else None
    return {"evals": 1, "keys": keys, "viol": viol, "stats": stats, "maxobs": maxobs, "agg": agg}


# ------------------------------------------------------------------------------------------------
# runner API
# ------------------------------------------------------------------------------------------------
N_REC = {"quick": 5, "thorough": 64}      # recovery fits per family
N_INV = {"quick": 20, "thorough": 160}    # invariant fits per (method, weight) cell
N_REL = {"quick": 3, "thorough": 32}      # recovery fits per family with a released default-fixed exponent
BATCH = 12


def gen_cases(tier, seed):
    cases = []
    for j, fam in enumerate(fm.FAMILIES):
        for i in range(N_REC[tier]):
            cases.append({"kind": "recover", "family": fam, "seed": [int(seed), 1, j, i], "wide": bool(tier == "thorough" and i % 2 == 1),
                          "num_procs": 3 if i % 8 == 3 else 1})
    for j, fam in enumerate(fm.RELEASED_FAMILIES):
        for i in range(N_REL[tier]):
            cases.append({"kind": "recover", "family": fam, "seed": [int(seed), 3, j, i], "wide": False, "num_procs": 3 if i % 8 == 1 else 1})
    total = 36 * N_INV[tier]
    nb = total // BATCH
    inv = [{"kind": "inv", "seed": [int(seed), 2, b], "first": b * BATCH, "count": BATCH} for b in range(nb)]
    # interleave so that every shard gets both kinds
    out = []
    step = max(1, len(inv) // max(1, len(cases)))
    ri = 0
    for k, c in enumerate(inv):
        if k % step == 0 and ri < len(cases):
            out.append(cases[ri])
            ri += 1
        out.append(c)
    out.extend(cases[ri:])
    return out


def _merge(acc, res):
    acc["evals"] += res["evals"]
    acc["keys"].extend(res["keys"])
    acc["viol"].extend(res["viol"])
    for k, v in res["stats"].items():
        acc["stats"][k] = acc["stats"].get(k, 0) + v
    for k, v in res["maxobs"].items():
        acc["maxobs"][k] = max(acc["maxobs"].get(k, v), v)
    if res.get("agg"):
        acc["agg"].append(res["agg"])


def run_case(case):
    acc = {"evals": 0, "keys": [], "viol": [], "stats": {}, "maxobs": {}, "sample": None, "agg": []}
    if case["kind"] == "explicit":
        _merge(acc, check_fit(case))
        return acc
    rng = np.random.default_rng(case["seed"])
    if case["kind"] == "recover":
        item = gen_rec_item(rng, case["family"], case["wide"], case["num_procs"])
        _merge(acc, check_fit(item))
        acc["sample"] = _sample(item)
    else:
        for k in range(case["count"]):
            item = gen_inv_item(rng, case["first"] + k)
            _merge(acc, check_fit(item))
            if k == 0:
                acc["sample"] = _sample(item)
    acc["viol"] = acc["viol"][:12]
    return acc


def _sample(item):
    s = {k: v for k, v in item.items() if k not in ("f", "Z", "truth", "start")}
    s["start_cdc"] = fm.build(item["start"]).to_string(6)
    if item.get("truth"):
        s["truth_cdc"] = fm.build(item["truth"]).to_string(6)
    s["points"] = len(item["f"])
    return s


def finalize(agg):
    st = agg["stats"]
    inc = []
    info = {}
    if st.get("recovery_checked", 0) == 0:
        inc.append("no recovery fit was checked")
    if st.get("fits_returned", 0) == 0:
        inc.append("no fit returned")
    returned = {c: st.get(f"returned:{m}/{w}", 0) for c, (m, w) in zip([f"{m}/{w}" for m, w in CELLS], CELLS)}
    dead = [c for c, n in returned.items() if n == 0]
    if dead:
        inc.append(f"(method, weight) cells that never returned a result: {dead}")
    for name in ("params_fixed_checked", "params_at_bound", "constraints_checked", "table_values_checked", "untouched_checked",
                 "fixed_flags_checked", "table_fixed_flags_checked", "released_default_fixed", "underscore_symbol_params_checked", "zero_limit_checked:upper", "zero_limit_active:upper", "zero_limit_checked:lower", "zero_limit_active:lower", "fixed_on_limit", "fixed_on_limit:lower", "fixed_on_limit:upper", "fixed_on_class_default_limit", "free_on_limit"):
        if st.get(name, 0) == 0:
            inc.append(f"{name} == 0: the clause was never exercised")
    rec_all = [r for a in agg["aggs"] for r in (a or [])]
    rec = [r for r in rec_all if r[0] != "limit-resolution"]
    hz = [r for r in rec_all if r[0] == "limit-resolution"]
    if hz:
        info["recovery_limit_resolution"] = {"n": len(hz), "max_chisqr": max(r[1] for r in hz), "above_CHI_TOL": sum(1 for r in hz if not r[1] <= CHI_TOL),
                                           "fraction_converged_to_design_tolerance": round(sum(1 for r in hz if r[1] <= CONV_CHI and r[2] <= DESIGN_PAR) / len(hz), 3)}
    viol = []
    if rec:
        chis = sorted(r[1] for r in rec)
        errs = sorted(r[2] for r in rec)
        med_chi, med_err = chis[len(chis) // 2], errs[len(errs) // 2]
        info["recovery"] = {"n": len(rec), "median_chisqr": med_chi, "median_param_rel_err": med_err, "max_chisqr": chis[-1], "max_param_rel_err": errs[-1],
                            "fraction_chisqr_below_1e-8": round(sum(c <= 1e-8 for c in chis) / len(chis), 3)}
        conv = sum(1 for _, c, e in rec if c <= CONV_CHI and e <= DESIGN_PAR) / len(rec)
        info["recovery"]["fraction_converged_to_design_tolerance"] = round(conv, 3)
        if len(rec) >= 12:
            if not conv >= MIN_CONVERGED:
                viol.append({"key": "C12/recovery-converged-fraction", "msg": f"only {conv:.2f} of {len(rec)} recovery fits reached chi-squared <= {CONV_CHI:g} with parameters within {DESIGN_PAR:g} (required {MIN_CONVERGED})", "witness": {"sorted_chisqr": chis[-50:]}})
            if not med_chi <= MED_CHI_TOL:
                viol.append({"key": "C12/recovery-median-chisqr", "msg": f"median pseudo chi-squared over {len(rec)} recovery fits is {med_chi:.3g} > {MED_CHI_TOL:g}", "witness": {"sorted_chisqr": chis[:50]}})
            if not med_err <= MED_PAR_TOL:
                viol.append({"key": "C12/recovery-median-params", "msg": f"median relative parameter error over {len(rec)} recovery fits is {med_err:.3g} > {MED_PAR_TOL:g}", "witness": {"sorted_err": errs[:50]}})
        fam = {}
        for s_, c, e in rec:
            fam.setdefault(s_, []).append(c)
        info["recovery"]["per_family_median_chisqr"] = {k: sorted(v)[len(v) // 2] for k, v in fam.items()}
        for k, v in fam.items():
            m = sorted(v)[len(v) // 2]
            if len(v) >= 20 and not m <= FAM_MED_CHI_TOL:
                viol.append({"key": f"C12/recovery-median-chisqr:{k}", "msg": f"median pseudo chi-squared over {len(v)} recovery fits of {k} is {m:.3g} > {FAM_MED_CHI_TOL:g}", "witness": {"family": k}})
    info["returned_per_cell_min"] = min(returned.values()) if returned else 0
    info["refused_fraction"] = round(st.get("refused", 0) / max(1, st.get("fits_requested", 1)), 4)
    info["tolerances"] = {"CHI_TOL": CHI_TOL, "CONV_CHI": CONV_CHI, "PAR_TOL": PAR_TOL, "MIN_CONVERGED": MIN_CONVERGED, "MED_CHI_TOL": MED_CHI_TOL, "MED_PAR_TOL": MED_PAR_TOL, "FAM_MED_CHI_TOL": FAM_MED_CHI_TOL, "CONSTR_TOL": CONSTR_TOL}
    return {"viol": viol, "inconclusive": inc, "info": info}
