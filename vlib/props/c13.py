"""C13 - DRT results carry the physics: area = resistance, peaks at RC, scaling laws.

Shape: differential / metamorphic oracle over observed results, generator-is-the-oracle.  The generator draws a
ladder  R0 + sum_k R_k / (1 + (j w tau_k)^n_k)  (n_k = 1: parallel RC, n_k < 1: parallel RQ) whose time constants
satisfy the property's preconditions BY CONSTRUCTION (>= 1.5 decades inside the measured tau window
[1/(2 pi f_max), 1/(2 pi f_min)], >= 1.5 decades apart, element resistances within one decade of each other,
overall resistance scale over 4 decades, 5..20 points per decade, window <= 12 decades).  The spectrum is computed by
the harness's own 6-line model (never by the library's circuit code) and handed to the REAL
`pyimpspec.calculate_drt`; the oracle looks only at what the API returns (`get_drt_data()`, `get_peaks()`,
`time_constants`, `gammas`, `lambda_value`, `circuit`).

Clauses and how they are decided
  TR-NNLS (mode real|imaginary x lambda fixed | suggested (-1) | L-curve (-2); explicit max_iter, see C18/F21):
    nonneg      min(gamma) >= 0 exactly (the method promises non-negativity)
    area        trapezoid of gamma over ln(tau) on the returned grid vs the polarisation resistance.  Two references
                are evaluated: sum R_k (RC-only ladders) and the in-window polarisation resistance
                Re Z(f_min) - Re Z(f_max) of the harness model (all ladders; for RQ elements the heavy tails of the
                true DRT put a few % of R_k outside ANY finite window, which is mathematics, not the library).
    peaks       for every generating element a returned peak (get_peaks(0.0)) lies next to tau_k:
                RC elements within max(PEAK_STEPS_RC grid steps, PEAK_DEC_RC decades);
                RQ elements (broad true distribution, which NNLS renders as a comb of spikes whose tallest tooth
                need not be the central one): a peak within PEAK_DEC_RQ decades (half the minimum separation, i.e.
                attributable to the element) AND the centre of mass of gamma over ln(tau) inside +-0.75 decade of
                tau_k within CENTROID_DEC decades of tau_k.  The nearest-peak part for RQ elements is decided when
                the lambda the result reports is <= RQ_PEAK_LAMBDA_MAX (the range the fixed-lambda cells cover); an
                automatic lambda above that smooths a low, broad RQ hump into its neighbour's flank (resolution of
                the method, observed with lambda = 0.12) - there only the centre of mass decides and the element is
                counted as peak-not-decided.  RQ humps for which the EXACT distribution of the ladder has no local
                maximum (low broad hump on the tail of a larger RQ neighbour; decided from the analytic formula with
                the neighbours' tails amplified 1.5x) are tagged and only the centre of mass is decided; the same
                tag is used for m(RQ)fit.  Additional small peaks elsewhere are accepted (ringing is not excluded
                by the statement).  Every peak returned by get_peaks() must be a local maximum of get_drt_data().
    peak area   integral of gamma over ln(tau) inside +-0.75 decade of tau_k vs the exact distribution's mass there (R_k
                for an RC; closed-form windowed integral for an RQ plus the tails of the other RQ elements), decided
                per run (PEAK_MASS_TOL) when the reported lambda is <= PEAK_MASS_LAMBDA_MAX, and per cell in finalize
                (fraction of peaks more than 15 % off; observed < 0.5 % on the unchanged tree).
    non-uniform grids (own cells tr-nnls/<mode>/<lambda>@mixed|jitter|masked, own frozen tolerances, no twins):
                the same clauses on log-frequency grids that are NOT evenly spaced - 2-3 whole-decade sub-ranges of
                alternating 5..7 / 14..20 points per decade; uniform grids with every interior point jittered by
                +-0.25 step; uniform 10..20 ppd grids in which, inside 1-2 sub-ranges, only every 2nd/3rd point is
                kept and isolated points are dropped elsewhere, the dropped points staying in the DataSet with
                impedance 1e30(1-j) and being excluded through DataSet.set_mask (they must not take part).  Local
                density stays within 5..20 ppd; grid-step tolerances use the LOCAL spacing around tau_k.  Quadrature
                weights that assume an even spacing mis-scale every peak by (assumed step / local step).
    scaling     Z*a => gamma*a, tau unchanged; f*b => tau/b, gamma unchanged.  Every twin must satisfy the SAME
                absolute clauses against the scaled ladder (area = a*R_pol, peaks at tau_k/b); the tau grids must
                agree (rel SCALE_FIXED_REL).  Fixed lambda: in addition the whole gamma arrays are compared.
                Automatic lambda: the search may legitimately branch differently on rounding (the L-curve search
                does: lambda differs by orders of magnitude between twins), so the array difference and the lambda
                ratio are only reported in worst_observed.
  Loewner ('lm', RC-only ladders WITHOUT series resistance, window <= LM_MAX_DECADES decades; model order automatic
  (matrix rank) and explicit):
    every (tau_k, R_k) is among the returned (time_constants, gammas) within LM_REL; additional poles are accepted
    only if they carry no weight (|gamma| <= LM_EXTRA_REL * max R_k; the rank estimate may exceed the true order);
    a non-finite pole (tau = inf, gamma = -inf) has its own key C13/lm/<order>/nonfinite-pole.
    "Exactly" is decided up to floating-point conditioning of the Loewner pencil: measured worst error 1e-12 at
    4 decades, 1e-6 at 9, 7e-5 at 10, 2e-2 at 12 - hence the window bound in the generator.
    scaling as above on the matched poles.  A quarter of the ladders use a jittered log grid with ~8 % of the points
    poisoned and masked out via DataSet.set_mask (same cells, same tolerances).  Ladders WITH series resistance are run too, but only counted (the
    statement is silent about them).
  m(RQ)fit (synthetic `fit=` object, so no optimiser noise enters; a few real fits in addition):
    per element: calculate_drt on the one-element circuit R0-(R_k X_k) over the same frequencies integrates to R_k;
    whole circuit: total area = sum R_k; peaks at tau_k = (R_k Y_k)^(1/n_k): within MRQ_PEAK_STEPS_SHARP RESULT-grid steps
    for RC, nearly ideal RQ (n in (0.97, 0.9995], incl. the Gaussian branch |n-1| <= 1e-2) and RQ with n >= 0.9; within
    MRQ_PEAK_STEPS steps or MRQ_PEAK_DEC_RQ decades for broad humps (n < 0.9).
    Reference for the area is the closed-form integral of the documented (RQ) distribution over the RETURNED tau
    window (equals R_k up to the tail outside the window; the raw deviation from R_k is reported as well).
    scaling: (R*a, Y/a) => gamma*a; (f*b, Y/b^n) => tau/b, gamma unchanged (rel MRQ_SCALE_REL).
    masked end points: the same circuit on a spectrum whose first and last point are poisoned and masked - the returned
    window must be that of the unmasked points and the area clause must hold on it.
    real fit (no `fit=`): the distribution must integrate to the resistances of the circuit the RESULT carries.

Latitude: extra small peaks; extra zero-weight Loewner poles; which automatic lambda is chosen; TR-NNLS runs that
raise scipy's "Maximum number of iterations reached" even with max_iter=100000 are counted and left to C18.
Any other exception from calculate_drt on these inputs is a violation.
"""
import math
import types
import warnings

import numpy as np

from .. import monitors

ID = "C13"
RULE = (
    "ladders R0 + sum_k R_k/(1+(jw tau_k)^n_k), k=1..4, RC (n=1) or RQ (n in [0.7,0.97]; m(RQ)fit cells also n in (0.97,0.9995] incl. 0.99, 0.992, 0.995, 0.999, 0.9995), drawn from rng([seed, i]); every "
    "tau_k >= 1.5 decades inside the tau window of the frequency grid and >= 1.5 decades from its neighbours, window 4..12 "
    "whole decades, 5..20 points per decade, resistance scale 10^U(-2,2) with elements within one decade, series resistance "
    "present or absent; spectrum from the harness's own model.  Cells: tr-nnls {real, imaginary} x {fixed lambda in "
    "[1e-4,1e-2], suggested, L-curve} each with a Z-scaled and an f-scaled twin, and the same 6 cells without twins on non-uniform log-frequency grids "
    "(mixed density, jittered spacing, points masked through DataSet.set_mask with poisoned values); lm {automatic, explicit order} on RC ladders "
    "without R0 in windows <= 9 decades (<= 130 points) plus scaled twins; mrq-fit with a synthetic fit object (whole circuit, each one-element circuit, scaled "
    "twins) and a few real fits.  A case is non-trivial when calculate_drt returned and at least one clause was compared; "
    "distinct = distinct (method cell, element kinds, ppd, decades, rounded log10 tau_k, rounded log10 R_k)."
)
ASSUMPTIONS = [
    "numpy complex arithmetic for the harness ladder model Z(w) = R0 + sum R_k/(1+(jw tau_k)^n_k) (self-checked at start-up)",
    "numpy.trapezoid as the quadrature named by the property (integral over ln tau on the returned grid)",
    "closed-form windowed integral of the (RQ) distribution, self-checked against scipy.integrate.quad at start-up",
    "scipy.optimize.nnls / numpy.linalg as installed are part of the system under observation, not of the oracle",
]
SHARDS = 16
CASE_TIMEOUT = 300
MIN_EVALS = 200

# ---- frozen tolerances (calibration: see worst_observed in evidence; values in the final report) -------------------
AREA_TOL = 0.30            # tr-nnls: |area/R_pol - 1|, per run (method-accuracy bound)
AREA_FRAC_2PCT = 0.35      # per cell: allowed fraction of runs with |area/R_pol - 1| > 2 %  (observed <= 0.09)
AREA_FRAC_5PCT = 0.15      # per cell: allowed fraction of runs with |area/R_pol - 1| > 5 %  (observed <= 0.023)
AREA_TOL_NU = 0.30         # tr-nnls on non-uniform / masked grids (cells tr-nnls/<mode>/<lambda>@<grid kind>)
PEAK_MASS_TOL = {"rc": 0.35, "rq": 0.60}     # tr-nnls: per-peak area (mass within +-0.75 decade of tau_k) vs exact distribution, per run
PEAK_MASS_TOL_NU = {"rc": 0.35, "rq": 0.60}  # same on non-uniform / masked grids (observed there: rc 0.114, rq 0.20; uniform: 0.154 / 0.31)
PEAK_MASS_FRAC_15PCT = 0.05     # per uniform cell (>= 100 peaks): allowed fraction of per-peak areas more than 15 % off (observed <= 0.003)
PEAK_MASS_FRAC_15PCT_NU = 0.15  # per non-uniform cell (>= 20 peaks): same (observed <= 0.004 on 1440 ladders)
PEAK_MASS_LAMBDA_MAX = 1e-2  # per-peak area is decided when the reported lambda is <= this (larger lambda smears mass across the window edge)
PEAK_STEPS_RC = 4.0        # tr-nnls: RC element, nearest returned peak, in grid steps ...
PEAK_DEC_RC = 0.30         # ... or within this many decades, whichever is larger
PEAK_DEC_RQ = 0.75         # tr-nnls: RQ element, nearest returned peak, in decades
CENTROID_DEC = 0.60        # tr-nnls: RQ element, local centre of mass, in decades
RQ_PEAK_LAMBDA_MAX = 1e-2  # tr-nnls: the RQ nearest-peak clause is decided when the reported lambda is <= this (resolution)
SCALE_FIXED_REL = 1e-6     # tr-nnls fixed lambda: max|gamma'/a - gamma| / max gamma, and tau rel (also tau rel for automatic lambda)
LM_REL = 1e-3              # lm: rel. error of recovered tau_k and R_k
LM_EXTRA_REL = 1e-6        # lm: weight of poles that do not belong to an element, relative to max R_k
LM_SCALE_REL = 1e-3        # lm: scaled twin vs base on matched poles
MRQ_AREA_TOL = 1e-3        # mrq-fit: |area/ref - 1|
MRQ_PEAK_STEPS_SHARP = 1.5  # mrq-fit: RC, near-ideal RQ (Gaussian branch) and RQ with n >= 0.9: peak position in RESULT-grid steps
MRQ_PEAK_STEPS = 2.0       # mrq-fit: broad RQ (n < 0.9): peak position in result-grid steps ...
MRQ_PEAK_DEC_RQ = 0.25     # ... or within this many decades (neighbour tails tilt the hump)
MRQ_SCALE_REL = 1e-9       # mrq-fit: scaled twin vs base (arrays)
MAX_ITER = 100000
LM_MAX_DECADES = 9         # lm: window bound of the generator (recovery error grows ~20x per decade: 1e-6 at 9, 2e-2 at 12)


# ------------------------------------------------------------------------------------------------
# harness model + references
# ------------------------------------------------------------------------------------------------
def ladder_Z(f, R0, els):
    w = 2.0 * np.pi * np.asarray(f, dtype=float)
    Z = np.full(w.shape, complex(R0), dtype=complex)
    for R, tau, n in els:
        Z = Z + R / (1.0 + (1j * w * tau) ** n)
    return Z


def rq_window_integral(R, tau0, n, t_lo, t_hi):
    """Integral over ln(tau) in [ln t_lo, ln t_hi] of R/(2 pi) sin((1-n)pi) / (cosh(n ln(tau/tau0)) - cos((1-n)pi))."""
    a = (1.0 - n) * math.pi

    def F(x):  # antiderivative of sin(a)/(cosh(n x) - cos a)
        return (2.0 / n) * math.atan(math.tanh(n * x / 2.0) / math.tan(a / 2.0))

    return R / (2.0 * math.pi) * (F(math.log(t_hi / tau0)) - F(math.log(t_lo / tau0)))


def gauss_window_integral(R, tau0, W, t_lo, t_hi):
    return R * 0.5 * (math.erf(math.log(t_hi / tau0) / W) - math.erf(math.log(t_lo / tau0) / W))


NEAR_IDEAL_N = [0.99, 0.992, 0.995, 0.999, 0.9995]


def is_gauss_branch(n):
    """The library documents: n within 1e-2 of 1 (numpy.isclose, i.e. incl. its default rtol 1e-5) -> Gaussian of width W."""
    return abs(abs(n) - 1.0) <= 1e-2 + 1e-5


def element_window_integral(R, tau0, n, W, t_lo, t_hi):
    if is_gauss_branch(n):
        return gauss_window_integral(R, tau0, W, t_lo, t_hi)
    return rq_window_integral(R, tau0, n, t_lo, t_hi)


def rq_gamma(ltau, R, tau0, n):
    """Analytic distribution of a parallel (RQ) over log10(tau) grid points (Boukamp 2015), harness implementation."""
    a = (1.0 - n) * math.pi
    x = (np.asarray(ltau, dtype=float) - math.log10(tau0)) * math.log(10.0)
    return R / (2.0 * math.pi) * math.sin(a) / (np.cosh(n * x) - math.cos(a))


def rq_resolved(els, amp=1.5, tol_dec=0.15):
    """Per element: does the TRUE distribution of the ladder have a local maximum at tau_k at all?

    A low, broad (RQ) hump next to a much larger (RQ) neighbour sits on that neighbour's tail without forming a local
    maximum - then "has a peak at tau_k" is false for the exact distribution and nothing can be demanded of the library.
    Decided robustly: the neighbours' tails are amplified by `amp` and a local maximum must remain within tol_dec
    decades of tau_k.  RC elements (delta peaks) are always resolved."""
    out = []
    for k, (R, t0, n) in enumerate(els):
        if n == 1.0:
            out.append(True)
            continue
        l0 = math.log10(t0)
        x = l0 + np.arange(-300, 301) * 0.002
        y = rq_gamma(x, R, t0, n)
        for j, (Rj, tj, nj) in enumerate(els):
            if j != k and nj != 1.0:
                y = y + amp * rq_gamma(x, Rj, tj, nj)
        i = np.nonzero((y[1:-1] > y[:-2]) & (y[1:-1] >= y[2:]))[0] + 1
        out.append(bool(len(i) and np.min(np.abs(x[i] - l0)) <= tol_dec))
    return out


def _selfcheck():
    f = np.array([1e3, 1.0, 1e-3])
    Z = ladder_Z(f, 1.0, [(2.0, 1.0 / (2 * np.pi), 1.0)])
    assert abs(Z[1] - (1.0 + 2.0 / (1 + 1j))) < 1e-12 and abs(Z[0].real - 1.0) < 1e-5 and abs(Z[2].real - 3.0) < 1e-5
    from scipy.integrate import quad

    for n in (0.7, 0.9, 0.97):
        a = (1 - n) * math.pi
        g = lambda x: 3.0 / (2 * math.pi) * math.sin(a) / (math.cosh(n * x) - math.cos(a))  # noqa: E731
        q = quad(g, -3.0, 5.0, points=[0.0], epsabs=1e-12, epsrel=1e-12)[0]
        r = rq_window_integral(3.0, 1.0, n, math.exp(-3.0), math.exp(5.0))
        assert abs(q - r) < 1e-9, (n, q, r)
        assert abs(rq_window_integral(3.0, 1.0, n, 1e-40, 1e40) - 3.0) < 1e-9
    assert abs(gauss_window_integral(2.0, 1.0, 0.15, 1e-9, 1e9) - 2.0) < 1e-12
    lt = np.linspace(-12, 12, 48001)
    assert abs(np.trapezoid(rq_gamma(lt, 3.0, 1.0, 0.8), lt * math.log(10.0)) - rq_window_integral(3.0, 1.0, 0.8, 1e-12, 1e12)) < 1e-6
    assert rq_resolved([[1.0, 1e-3, 0.8], [2.0, 1.0, 1.0], [1.0, 1e2, 0.9]]) == [True, True, True]
    assert rq_resolved([[27.77, 0.0018264, 0.7241], [3.1533, 0.075015, 0.70905], [13.705, 40.489, 0.91327]]) == [True, False, True]


_selfcheck()


# ------------------------------------------------------------------------------------------------
# generator (concrete, JSON-able cases)
# ------------------------------------------------------------------------------------------------
def gen_ladder(rng, tier, kinds=None, nel=None, max_decades=12, r0=None):
    """kinds: None (mixed), 'rc', 'rq'."""
    wide = tier == "thorough"
    while True:
        n_el = int(nel if nel is not None else rng.integers(1, 5))
        seps = rng.uniform(1.5, 3.0 if wide else 2.5, size=n_el - 1)
        m_lo = float(rng.uniform(1.5, 3.0 if wide else 2.5))
        m_hi = float(rng.uniform(1.5, 3.0 if wide else 2.5))
        total = float(seps.sum()) + m_lo + m_hi
        decades = int(math.ceil(total))
        if decades <= max_decades:
            break
    slack = decades - total
    m_lo += slack * float(rng.uniform(0.0, 1.0))
    centre = float(rng.uniform(-3.0, 1.0))
    lt_min = centre - decades / 2.0
    lts = [lt_min + m_lo]
    for s in seps:
        lts.append(lts[-1] + float(s))
    ppd = int(rng.integers(5, 21))
    scale = 10.0 ** float(rng.uniform(-2.0, 2.0))
    els = []
    for k in range(n_el):
        R = scale * 10.0 ** float(rng.uniform(0.0, 1.0))
        if kinds == "rc":
            isq = False
        elif kinds == "rq":
            isq = True
        else:
            isq = bool(rng.random() < 0.5)
        n = float(rng.uniform(0.7, 0.97)) if isq else 1.0
        els.append([float(R), float(10.0 ** lts[k]), n])
    if r0 is None:
        R0 = 0.0 if rng.random() < 0.2 else scale * 10.0 ** float(rng.uniform(-1.0, 1.0))
    else:
        R0 = float(r0)
    a = float(10.0 ** rng.uniform(-3.0, 3.0))
    b = float(10.0 ** rng.uniform(-3.0, 3.0))
    return {"lt_min": lt_min, "decades": decades, "ppd": ppd, "R0": float(R0), "els": els, "a": a, "b": b}


def grid(lad):
    """Frequencies (descending).  Default: tau = 1/(2 pi f) log-uniform with ppd points per decade; ladders that carry an
    explicit "lt" list (log10 tau of every point, ascending) use that (non-uniform grids)."""
    if "lt" in lad:
        lt = np.array(lad["lt"], dtype=float)
    else:
        n = lad["decades"] * lad["ppd"] + 1
        lt = lad["lt_min"] + np.arange(n) / float(lad["ppd"])
    return 1.0 / (2.0 * np.pi * 10.0**lt)


NU_KINDS = ("mixed", "jitter", "masked")


def add_nonuniform_grid(rng, lad, gk):
    """Give the ladder a NON-uniform log-frequency grid (same window [lt_min, lt_min+decades], local density kept within
    the property's 5..20 points per decade, window end points kept):
      mixed   2-3 sub-ranges of whole decades with alternating low (5..7 ppd) / high (14..20 ppd) density
      jitter  uniform 7..20 ppd, every interior point moved by U(-0.25, 0.25) steps
      masked  uniform 10..20 ppd; in 1-2 whole-decade sub-ranges only every 2nd/3rd point is kept (>= 5 ppd remain), plus
              isolated single points elsewhere; the dropped points stay in the DataSet with absurd impedances and are
              excluded through DataSet.set_mask - they must not take part."""
    D = lad["decades"]
    lo = lad["lt_min"]
    nseg = int(rng.integers(2, 4)) if D >= 3 else 2
    cuts = sorted(int(c) for c in rng.choice(np.arange(1, D), size=min(nseg - 1, D - 1), replace=False))
    bounds = [0] + cuts + [D]
    lad["grid_kind"] = gk
    if gk == "mixed":
        hi_first = bool(rng.random() < 0.5)
        lt = [lo]
        dens = []
        for k in range(len(bounds) - 1):
            hi = (k % 2 == 0) == hi_first
            ppd = int(rng.integers(14, 21)) if hi else int(rng.integers(5, 8))
            dens.append(ppd)
            n = (bounds[k + 1] - bounds[k]) * ppd
            lt.extend(lo + bounds[k] + (np.arange(1, n + 1) / float(ppd)))
        lad["lt"] = [float(x) for x in lt]
        lad["densities"] = dens
        lad["ppd"] = min(dens)
    elif gk == "jitter":
        ppd = int(rng.integers(7, 21))
        n = D * ppd + 1
        lt = lo + np.arange(n) / float(ppd)
        lt[1:-1] += rng.uniform(-0.25, 0.25, size=n - 2) / ppd
        lad["lt"] = [float(x) for x in lt]
        lad["ppd"] = ppd
    elif gk == "masked":
        ppd = int(rng.integers(10, 21))
        n = D * ppd + 1
        lt = lo + np.arange(n) / float(ppd)
        keep = np.ones(n, dtype=bool)
        segs = [k for k in range(len(bounds) - 1)]
        thin = [int(x) for x in rng.choice(segs, size=int(rng.integers(1, min(2, len(segs) - 1) + 1)), replace=False)]
        m = 3 if ppd >= 15 and rng.random() < 0.6 else 2
        for k in thin:
            i0, i1 = bounds[k] * ppd, bounds[k + 1] * ppd
            for i in range(i0 + 1, i1):
                if (i - i0) % m != 0:
                    keep[i] = False
        for i in range(2, n - 2):  # isolated single points elsewhere
            if keep[i - 1] and keep[i] and keep[i + 1] and keep[i - 2] and keep[i + 2] and rng.random() < 0.08:
                keep[i] = False
        keep[0] = keep[-1] = True
        lad["lt"] = [float(x) for x in lt]
        lad["mask"] = [int(i) for i in np.nonzero(~keep)[0]]
        lad["ppd"] = ppd
        lad["thinning"] = m
    else:
        raise ValueError(gk)
    return lad


def used_points(lad):
    """Indices of the points that take part (not masked)."""
    n = len(lad["lt"]) if "lt" in lad else lad["decades"] * lad["ppd"] + 1
    drop = set(lad.get("mask", []))
    return np.array([i for i in range(n) if i not in drop], dtype=int)


NNLS_CELLS = [(m, lk) for m in ("real", "imaginary") for lk in ("fixed", "suggested", "lcurve")]


def gen_cases(tier, seed):
    q = tier == "quick"
    n_nnls, n_lm, n_mrq, n_fit = (256, 64, 96, 2) if q else (1800, 480, 1200, 32)
    n_nu = 60 if q else 480
    cases = []
    i = 0
    for _ in range(n_nnls):
        rng = np.random.default_rng([int(seed), i, 1])
        lad = gen_ladder(rng, tier)
        lad["lam"] = float(10.0 ** rng.uniform(-4.0, -2.0))
        cases.append({"kind": "nnls", "lad": lad, "cells": [list(c) for c in NNLS_CELLS]})
        i += 1
    for j in range(n_lm):
        rng = np.random.default_rng([int(seed), i, 2])
        lad = gen_ladder(rng, tier, kinds="rc", max_decades=LM_MAX_DECADES, r0=0.0)
        # keep the O(n^2) pure-python Loewner construction affordable: <= ~130 points
        while lad["decades"] * lad["ppd"] > 130:
            lad["ppd"] -= 1
        lad["R0_info"] = float(lad["els"][0][0] * 10.0 ** rng.uniform(-1.0, 1.0))
        if j % 4 == 2:
            # same ladder on a jittered log grid with a few points masked out through DataSet.set_mask (poisoned values)
            n = lad["decades"] * lad["ppd"] + 1
            lt = lad["lt_min"] + np.arange(n) / float(lad["ppd"])
            lt[1:-1] += rng.uniform(-0.25, 0.25, size=n - 2) / lad["ppd"]
            lad["lt"] = [float(x) for x in lt]
            lad["mask"] = sorted(int(x) for x in rng.choice(np.arange(1, n - 1), size=max(1, n // 12), replace=False))
            lad["grid_kind"] = "jitter+masked"
        cases.append({"kind": "lm", "lad": lad, "cells": ["auto", "explicit"], "with_r0": bool(j % 4 == 0)})
        i += 1
    for j in range(n_mrq):
        rng = np.random.default_rng([int(seed), i, 3])
        batch = []
        for _b in range(4):
            lad = gen_ladder(rng, tier)
            lad["W"] = float(rng.uniform(0.1, 0.3))
            # nearly ideal (RQ): exponents in (0.97, 0.9995], incl. the library's Gaussian branch |n - 1| <= 1e-2
            for el in lad["els"]:
                if el[2] != 1.0 and rng.random() < 0.45:
                    if rng.random() < 0.5:
                        el[2] = float(rng.choice(NEAR_IDEAL_N))
                    else:
                        el[2] = float(rng.uniform(0.97, 0.9995))
                        if 0.9899 < el[2] < 0.99:
                            el[2] = 0.99  # keep clear of the 1e-5 wide rtol fringe of numpy.isclose(n, 1, atol=1e-2)
            # the trapezoid on the RESULT grid must resolve the sharpest analytic (RQ) hump (half width (1-n)pi/n in ln tau)
            widths = [(1.0 - el[2]) * math.pi / el[2] for el in lad["els"] if not is_gauss_branch(el[2])]
            ok = [c for c in (50, 100, 200) if not widths or math.log(10.0) / c <= min(widths) / 2.0]
            lad["npd"] = int(rng.choice(ok))
            batch.append(lad)
        cases.append({"kind": "mrq", "lads": batch})
        i += 1
    for j in range(n_nu):
        # TR-NNLS on non-uniform / masked grids (own cells, own frozen tolerances; no scaling twins)
        rng = np.random.default_rng([int(seed), 100000 + j, 5])
        lad = gen_ladder(rng, tier)
        lad["lam"] = float(10.0 ** rng.uniform(-4.0, -2.0))
        add_nonuniform_grid(rng, lad, NU_KINDS[j % 3])
        cases.append({"kind": "nnls", "lad": lad, "cells": [list(c) for c in NNLS_CELLS]})
    for j in range(n_fit):
        rng = np.random.default_rng([int(seed), i, 4])
        lad = gen_ladder(rng, tier, nel=int(rng.integers(1, 3)), max_decades=8)
        lad["ppd"] = min(lad["ppd"], 10)
        cases.append({"kind": "mrqfit", "lad": lad})
        i += 1
    # interleave so that every shard gets a similar mix (round-robin split)
    order = sorted(range(len(cases)), key=lambda k: (k * 7919) % len(cases))
    return [cases[k] for k in order]


# ------------------------------------------------------------------------------------------------
# helpers
# ------------------------------------------------------------------------------------------------
class Acc:
    def __init__(self):
        self.evals = 0
        self.keys = []
        self.viol = []
        self.stats = {}
        self.maxobs = {}
        self.agg = None

    def stat(self, k, n=1):
        self.stats[k] = self.stats.get(k, 0) + n

    def obs(self, k, v):
        v = float(v)
        if v != v:
            v = float("inf")
        if k not in self.maxobs or v > self.maxobs[k]:
            self.maxobs[k] = v

    def bad(self, key, msg, replay):
        if len(self.viol) < 12:
            self.viol.append({"key": key, "msg": msg, "witness": {"replay_case": replay}})

    def out(self, sample=None):
        return {"evals": self.evals, "keys": self.keys, "viol": self.viol, "stats": self.stats, "maxobs": self.maxobs,
                "sample": sample, "agg": self.agg}


def _lad_key(cell, lad):
    return (cell, tuple("C" if e[2] == 1.0 else "Q" for e in lad["els"]), lad["ppd"], lad["decades"],
            tuple(round(math.log10(e[1]), 2) for e in lad["els"]), tuple(round(math.log10(e[0]), 2) for e in lad["els"]),
            round(lad["R0"], 6) > 0, lad.get("grid_kind", "uniform"), len(lad.get("mask", [])))


def _call(method, ds, **kw):
    """Run the real calculate_drt; returns (result, None) or (None, exception)."""
    from pyimpspec import calculate_drt

    try:
        with warnings.catch_warnings():
            warnings.simplefilter("ignore")
            return calculate_drt(ds, method=method, **kw), None
    except Exception as e:  # library exception: classified by the caller
        return None, e


def _exc_key(prefix, e):
    o = monitors.exception_origin(e)
    return f"{prefix}/raised:{o['type']}:{o['func']}"


def _is_nnls_maxiter(e):
    return isinstance(e, RuntimeError) and "Maximum number of iterations" in str(e)


def _peaks_are_maxima(tau, g, pt, pg):
    """Every (tau_p, gamma_p) returned by get_peaks is a grid point of the distribution and a local maximum there."""
    for t, v in zip(pt, pg):
        idx = np.nonzero(tau == t)[0]
        if len(idx) != 1:
            return f"peak tau {float(t)!r} is not a point of the returned grid"
        i = int(idx[0])
        if g[i] != v:
            return f"peak at tau {float(t)!r} reports gamma {float(v)!r}, distribution has {float(g[i])!r}"
        left = g[i - 1] if i > 0 else 0.0
        right = g[i + 1] if i + 1 < len(g) else 0.0
        if not (g[i] >= left and g[i] >= right and g[i] > 0.0):
            return f"peak at index {i} (tau {float(t)!r}) is not a local maximum: {float(left)!r}, {float(g[i])!r}, {float(right)!r}"
    return None


def _dataset(f, Z):
    from pyimpspec import DataSet

    return DataSet(np.array(f, dtype=float), np.array(Z, dtype=complex))


def _masked_dataset(f_all, Z_all, drop):
    """DataSet over ALL points in which the points `drop` carry absurd impedances and are excluded via DataSet.set_mask."""
    Zp = np.array(Z_all, dtype=complex)
    if len(drop):
        Zp[list(drop)] = 1e30 * (1.0 - 1.0j)
    ds = _dataset(f_all, Zp)
    if len(drop):
        ds.set_mask({int(i): True for i in drop})
        keep = np.array([i for i in range(len(f_all)) if i not in set(drop)], dtype=int)
        if ds.get_num_points() != len(keep) or not np.array_equal(ds.get_frequencies(), np.asarray(f_all)[keep]):
            raise RuntimeError("harness: mask did not select the intended points")
    return ds


# ------------------------------------------------------------------------------------------------
# TR-NNLS
# ------------------------------------------------------------------------------------------------
def _lam_arg(lad, lk):
    return {"fixed": lad["lam"], "suggested": -1.0, "lcurve": -2.0}[lk]


def _nnls_matched(lad, tau, g, pt, pg):
    """Per element: (nearest-peak distance in decades, tau of that peak, centroid deviation in decades)."""
    out = []
    ltau = np.log10(tau)
    dl = np.gradient(np.log(tau))
    for R, t0, n in lad["els"]:
        l0 = math.log10(t0)
        if len(pt) == 0:
            out.append((float("inf"), float("nan"), float("inf")))
            continue
        j = int(np.argmin(np.abs(np.log10(pt) - l0)))
        d = abs(math.log10(pt[j]) - l0)
        m = np.abs(ltau - l0) <= 0.75
        wgt = g[m] * dl[m]
        cen = abs(float(np.sum(wgt * ltau[m]) / np.sum(wgt)) - l0) if np.sum(wgt) > 0 else float("inf")
        out.append((d, float(pt[j]), cen))
    return out


def _local_step(ltau, l0, default):
    """Largest spacing (decades) of the returned grid within +-0.3 decade of l0 (= 1/ppd on a uniform grid)."""
    d = np.diff(ltau)
    m = (ltau[1:] >= l0 - 0.3) & (ltau[:-1] <= l0 + 0.3)
    return float(d[m].max()) if np.any(m) else default


def peak_mass_reference(els, k):
    """Mass of the EXACT distribution inside +-0.75 decade of tau_k: R_k for an RC (delta peak), windowed closed form for
    an RQ, plus the tails of the other RQ elements inside that window (other RC deltas are >= 1.5 decades away)."""
    l0 = math.log10(els[k][1])
    t_lo, t_hi = 10.0 ** (l0 - 0.75), 10.0 ** (l0 + 0.75)
    ref = 0.0
    for j, (R, t0, n) in enumerate(els):
        if n == 1.0:
            ref += R if j == k else 0.0
        else:
            ref += rq_window_integral(R, t0, n, t_lo, t_hi)
    return ref


def _check_nnls_result(acc, cell, tag, rep, lad, f, r):
    """Absolute clauses (non-negativity, area, peaks) for one TR-NNLS result against the ladder that generated its data.

    tag = "" for the base run, "scale-Z"/"scale-f" for the twins (lad is then the scaled ladder).  Returns
    (tau, gamma) or None."""
    sfx = f"[{tag}]" if tag else ""
    vkey = f"C13/{cell}/" + (tag + "/" if tag else "")
    Z = ladder_Z(f, lad["R0"], lad["els"])
    Rsum = sum(e[0] for e in lad["els"])
    Rwin = float(Z[-1].real - Z[0].real)
    all_rc = all(e[2] == 1.0 for e in lad["els"])
    nu = "lt" in lad  # non-uniform / masked grid: own cell (name carries @<grid kind>), own tolerances
    area_tol = AREA_TOL_NU if nu else AREA_TOL
    lam = float(r.lambda_value)
    if acc.evals % 2 == 0:
        # accessor history: the clauses below are evaluated on what the result presents AFTER its other documented accessors
        # (peaks with a threshold, tabular views) have been used - reading a result is an operation of the history too
        g_first = np.array(r.get_drt_data()[1], dtype=float)
        for name, call in (("get_peaks(0.3)", lambda: r.get_peaks(threshold=0.3)), ("to_peaks_dataframe(0.2)", lambda: r.to_peaks_dataframe(threshold=0.2)),
                           ("get_peaks(0.9)", lambda: r.get_peaks(threshold=0.9)), ("to_statistics_dataframe", lambda: r.to_statistics_dataframe())):
            try:
                call()
                acc.stat(cell + "/accessor-before-clauses")
            except Exception:
                acc.stat(cell + "/accessor-raised")
        g_again = np.asarray(r.get_drt_data()[1], dtype=float)
        if g_again.shape != g_first.shape or not np.array_equal(g_again, g_first):
            acc.bad(vkey + "result-changed-by-accessor", f"gamma read before and after get_peaks(threshold)/to_peaks_dataframe differs: max gamma {float(np.max(g_first))!r} -> "
                    f"{float(np.max(g_again))!r}", rep)
    tau, g = r.get_drt_data()
    tau = np.asarray(tau, dtype=float)
    g = np.asarray(g, dtype=float)
    pt, pg = r.get_peaks(threshold=0.0)
    pt = np.asarray(pt, dtype=float)
    pg = np.asarray(pg, dtype=float)
    acc.evals += 1
    # grid sanity for the trapezoid / step-based tolerances (time_constants is what the API returns)
    if len(tau) != len(f) or not np.all(np.diff(tau) > 0):
        acc.bad(vkey + "tau-grid", f"time constants are not an ascending grid of the data size: n={len(tau)} vs {len(f)}", rep)
        return None
    # non-negativity
    acc.stat(cell + "/nonneg-checked")
    acc.obs(cell + "/neg_gamma", max(0.0, -float(g.min())) / Rwin)
    if not np.all(g >= 0.0) or not np.all(np.isfinite(g)):
        acc.bad(vkey + "negative-gamma", f"min gamma = {float(np.nanmin(g))!r} (R_pol {Rwin:.6g}) lambda={lam!r}", rep)
    # area
    area = float(np.trapezoid(g, np.log(tau)))
    dev = abs(area / Rwin - 1.0)
    acc.obs(cell + "/area_vs_window_Rpol" + sfx, dev)
    if all_rc:
        acc.obs(cell + "/area_vs_sumR[rc-ladders]" + sfx, abs(area / Rsum - 1.0))
    else:
        acc.obs(cell + "/area_vs_sumR[with-rq,info]" + sfx, abs(area / Rsum - 1.0))
    acc.stat(cell + "/area-checked")
    for thr in (0.01, 0.02, 0.05, 0.10):
        if dev > thr:
            acc.stat(cell + f"/area-dev>{thr}")
    if not dev <= area_tol or (all_rc and not abs(area / Rsum - 1.0) <= area_tol):
        acc.bad(vkey + "area", f"integral of gamma over ln(tau) = {area:.6g}, polarisation resistance {Rwin:.6g} (sum R_k {Rsum:.6g}); "
                f"lambda={lam!r} ppd={lad['ppd']}", rep)
    if not tag:
        # info: does the returned distribution reproduce the spectrum (not a verdict)
        wq = np.gradient(np.log(tau))
        wq[0] *= 0.5
        wq[-1] *= 0.5
        Zrec = Z[0].real + np.array([np.sum(wq * g / (1 + 1j * 2 * np.pi * fi * tau)) for fi in f])
        acc.obs(cell + "/reconstruction_rel[info]", float(np.max(np.abs(Zrec - Z)) / Rwin))
    # peaks
    msg = _peaks_are_maxima(tau, g, pt, pg)
    acc.stat(cell + "/peaks-maxima-checked")
    if msg:
        acc.bad(vkey + "peak-not-a-maximum", msg, rep)
    matched = _nnls_matched(lad, tau, g, pt, pg)
    resolved = rq_resolved(lad["els"])
    ltau = np.log10(tau)
    wts = np.gradient(np.log(tau))  # central differences = trapezoid weights of interior points, also on non-uniform grids
    for k, ((R, t0, n), (d, tp, cen), res_k) in enumerate(zip(lad["els"], matched, resolved)):
        step = _local_step(ltau, math.log10(t0), 1.0 / lad["ppd"]) if nu else 1.0 / lad["ppd"]
        # per-peak area: mass of the returned distribution inside +-0.75 decade of tau_k vs the exact distribution's
        inw = np.abs(ltau - math.log10(t0)) <= 0.75
        mass = float(np.sum(g[inw] * wts[inw]))
        mdev = abs(mass / peak_mass_reference(lad["els"], k) - 1.0)
        kd = "rc" if n == 1.0 else "rq"
        if lam <= PEAK_MASS_LAMBDA_MAX:
            acc.stat(cell + "/peak-area-checked")
            acc.obs(cell + f"/peak_area_dev[{kd}]" + sfx, mdev)
            for thr in (0.05, 0.10, 0.15):
                if mdev > thr:
                    acc.stat(cell + f"/peak-area-dev>{thr}")
            if not mdev <= (PEAK_MASS_TOL_NU if nu else PEAK_MASS_TOL)[kd]:
                acc.bad(vkey + "peak-area", f"element R={R:.6g} tau={t0:.6g} n={n:.3f}: integral of gamma over +-0.75 decade around tau_k = {mass:.6g}, "
                        f"exact distribution has {peak_mass_reference(lad['els'], k):.6g} there (lambda {lam!r}, local step {step:.3f} decade)", rep)
        else:
            acc.stat(cell + "/peak-area-not-decided[lambda>%g]" % PEAK_MASS_LAMBDA_MAX)
            acc.obs(cell + f"/peak_area_dev[{kd},lambda>%g,info]" % PEAK_MASS_LAMBDA_MAX, mdev)
        if n == 1.0:
            acc.stat(cell + "/peak-checked[rc]")
            acc.obs(cell + "/peak_dev_steps[rc]" + sfx, d / step)
            acc.obs(cell + "/peak_dev_over_tolerance[rc]", min(d / step / PEAK_STEPS_RC, d / PEAK_DEC_RC))
            acc.obs(cell + "/centroid_dev_decades[rc,info]", cen)
            if not (d / step <= PEAK_STEPS_RC or d <= PEAK_DEC_RC):
                acc.bad(vkey + "peak-position", f"RC element tau={t0:.6g}: nearest returned peak at {tp:.6g} = {d / step:.2f} grid steps away "
                        f"(local step {step:.3f} decade, lambda {lam!r})", rep)
        else:
            acc.stat(cell + "/centroid-checked[rq]")
            acc.obs(cell + "/centroid_dev_decades[rq]" + sfx, cen)
            bad = not cen <= CENTROID_DEC
            if not res_k:
                acc.stat(cell + "/peak-not-decided[rq,no-maximum-in-true-drt]")
                acc.obs(cell + "/peak_dev_decades[rq,no-maximum-in-true-drt,info]", d)
            elif lam <= RQ_PEAK_LAMBDA_MAX:
                acc.stat(cell + "/peak-checked[rq]")
                acc.obs(cell + "/peak_dev_decades[rq]" + sfx, d)
                bad = bad or not d <= PEAK_DEC_RQ
            else:
                acc.stat(cell + "/peak-not-decided[rq,lambda>%g]" % RQ_PEAK_LAMBDA_MAX)
                acc.obs(cell + "/peak_dev_decades[rq,lambda>%g,info]" % RQ_PEAK_LAMBDA_MAX, d)
            if bad:
                acc.bad(vkey + "peak-position", f"RQ element tau={t0:.6g} n={n:.3f}: nearest returned peak at {tp:.6g} ({d:.3f} decades), "
                        f"local centre of mass off by {cen:.3f} decades (ppd {lad['ppd']}, lambda {lam!r})", rep)
    return tau, g


def _scaled_ladder(lad, a, b):
    out = dict(lad)
    out["R0"] = lad["R0"] * a
    out["els"] = [[R * a, t0 / b, n] for R, t0, n in lad["els"]]
    return out


def run_nnls(case, acc):
    lad = case["lad"]
    f_all = grid(lad)
    Z_all = ladder_Z(f_all, lad["R0"], lad["els"])
    a, b = lad["a"], lad["b"]
    gk = lad.get("grid_kind")
    use = used_points(lad)
    f, Z = f_all[use], Z_all[use]
    if lad.get("mask"):
        # masked points carry absurd impedances and are excluded through the public mask API
        ds0 = _masked_dataset(f_all, Z_all, lad["mask"])
        acc.stat("masked-datasets")
    else:
        ds0 = _dataset(f, Z)
    dsa = None if gk else _dataset(f, Z * a)
    dsb = None if gk else _dataset(f * b, Z)
    for mode, lk in case["cells"]:
        cell = f"tr-nnls/{mode}/{lk}" + (f"@{gk}" if gk else "")
        rep = {"kind": "nnls", "lad": lad, "cells": [[mode, lk]]}
        kw = dict(mode=mode, lambda_value=_lam_arg(lad, lk), max_iter=MAX_ITER)
        r, e = _call("tr-nnls", ds0, **kw)
        acc.stat(cell + "/runs")
        if e is not None:
            if _is_nnls_maxiter(e):
                acc.stat(cell + "/nnls-maxiter-skipped")
                continue
            acc.bad(_exc_key(f"C13/{cell}", e), f"calculate_drt raised on an in-window ladder: {monitors.tb_tail(e)}", rep)
            continue
        acc.keys.append(_lad_key(cell, lad))
        res = _check_nnls_result(acc, cell, "", rep, lad, f, r)
        if res is None:
            continue
        tau, g = res
        # scaling twins (uniform grids only; the non-uniform cells decide the absolute clauses)
        for which, ds, fa, fb in (("scale-Z", dsa, a, 1.0), ("scale-f", dsb, 1.0, b)):
            if ds is None:
                continue
            r2, e2 = _call("tr-nnls", ds, **kw)
            acc.stat(cell + f"/{which}-runs")
            if e2 is not None:
                if _is_nnls_maxiter(e2):
                    acc.stat(cell + "/nnls-maxiter-skipped")
                    continue
                acc.bad(_exc_key(f"C13/{cell}/{which}", e2), f"scaled twin (a={fa!r}, b={fb!r}) raised: {monitors.tb_tail(e2)}", rep)
                continue
            # the twin must satisfy the same absolute clauses for the scaled ladder (this is the whole scaling verdict
            # for automatic lambda: peaks of the twin within tolerance of tau_k/b, area = a*R_pol)
            res2 = _check_nnls_result(acc, cell, which, rep, _scaled_ladder(lad, fa, fb), f * fb, r2)
            if res2 is None:
                continue
            tau2, g2 = res2
            dt = float(np.max(np.abs(tau2 * fb / tau - 1.0)))
            dg = float(np.max(np.abs(g2 / fa - g)) / np.max(g))
            acc.obs(cell + f"/{which}/tau_rel", dt)
            acc.stat(cell + f"/{which}-compared")
            if lk == "fixed":
                acc.obs(cell + f"/{which}/gamma_rel", dg)
                if not dt <= SCALE_FIXED_REL or not dg <= SCALE_FIXED_REL:
                    acc.bad(f"C13/{cell}/{which}/arrays", f"a={fa!r} b={fb!r}: tau'*b/tau-1 = {dt:.3g}, max|gamma'/a-gamma|/max gamma = {dg:.3g}", rep)
            else:
                acc.obs(cell + f"/{which}/gamma_rel[info]", dg)
                acc.obs(cell + f"/{which}/lambda_ratio_log10[info]", abs(math.log10(float(r2.lambda_value) / float(r.lambda_value))))
                if dg > 0.01 and (acc.agg is None or dg > acc.agg["gamma_rel"]):
                    acc.agg = {"gamma_rel": dg, "cell": cell, "which": which, "a": fa, "b": fb, "lambda_base": float(r.lambda_value),
                               "lambda_twin": float(r2.lambda_value), "lad": lad}
                if not dt <= SCALE_FIXED_REL:
                    acc.bad(f"C13/{cell}/{which}/arrays", f"a={fa!r} b={fb!r}: tau'*b/tau-1 = {dt:.3g}", rep)


# ------------------------------------------------------------------------------------------------
# Loewner
# ------------------------------------------------------------------------------------------------
def _lm_match(els, tau, g):
    """For each element the nearest pole (in ln tau): (tau_rel, R_rel, index)."""
    out = []
    for R, t0, _n in els:
        j = int(np.argmin(np.abs(np.log(tau) - math.log(t0))))
        out.append((abs(tau[j] / t0 - 1.0), abs(g[j] / R - 1.0), j))
    return out


def _quiet_peaks(r):
    with warnings.catch_warnings():
        warnings.simplefilter("ignore")
        return r.get_peaks(threshold=0.0)


def run_lm(case, acc):
    lad = case["lad"]
    f = grid(lad)
    els = lad["els"]
    Z = ladder_Z(f, 0.0, els)
    a, b = lad["a"], lad["b"]
    Rmax = max(e[0] for e in els)
    drop = lad.get("mask", [])  # jittered grid with masked (poisoned) points: same clauses, same cells
    if "lt" in lad:
        acc.stat("lm/nonuniform-masked-ladders")
    for oc in case["cells"]:
        cell = f"lm/{oc}"
        rep = {"kind": "lm", "lad": lad, "cells": [oc], "with_r0": False}
        kw = dict(num_procs=1)
        if oc == "explicit":
            kw["model_order"] = len(els)
        base = None
        for which, fa, fb in (("base", 1.0, 1.0), ("scale-Z", a, 1.0), ("scale-f", 1.0, b)):
            r, e = _call("lm", _masked_dataset(f * fb, Z * fa, drop), **kw)
            acc.stat(cell + f"/{which}-runs")
            if e is not None:
                acc.bad(_exc_key(f"C13/{cell}", e), f"calculate_drt(method='lm') raised ({which}, a={fa!r}, b={fb!r}): {monitors.tb_tail(e)}", rep)
                continue
            tau = np.asarray(r.time_constants, dtype=float) * fb
            g = np.asarray(r.gammas, dtype=float) / fa
            acc.evals += 1
            if which == "base":
                acc.keys.append(_lad_key(cell, lad))
            nonfinite = False
            if not np.all(np.isfinite(tau)) or not np.all(np.isfinite(g)):
                # a returned distribution with an infinite time constant / infinite weight cannot sum to the resistance
                acc.stat(cell + "/nonfinite-pole")
                nonfinite = True
                acc.bad(f"C13/{cell}/nonfinite-pole", f"{which} (a={fa!r}, b={fb!r}): {len(tau)} poles returned for {len(els)} elements, "
                        f"time_constants*b={tau.tolist()} gammas/a={g.tolist()}; get_peaks() -> {[np.asarray(x).tolist() for x in _quiet_peaks(r)]}", rep)
                fin = np.isfinite(tau) & np.isfinite(g)
                tau, g = tau[fin], g[fin]
            if len(tau) < len(els) or np.any(tau <= 0):
                acc.bad(f"C13/{cell}/recover", f"{which}: {len(tau)} usable poles returned for {len(els)} elements: tau={tau.tolist()} gamma={g.tolist()}", rep)
                continue
            m = _lm_match(els, tau, g)
            used = {j for _, _, j in m}
            acc.stat(cell + "/extra-poles", len(tau) - len(used))
            ok = len(used) == len(els)
            for (dt, dR, j) in m:
                acc.obs(cell + "/tau_rel", dt)
                acc.obs(cell + "/R_rel", dR)
                acc.stat(cell + "/pairs-checked")
                ok = ok and dt <= LM_REL and dR <= LM_REL
            extra = max([abs(g[j]) for j in range(len(tau)) if j not in used] + [0.0]) / Rmax
            acc.obs(cell + "/extra_pole_weight_rel", extra)
            if not ok or not extra <= LM_EXTRA_REL:
                acc.bad(f"C13/{cell}/recover" if which == "base" else f"C13/{cell}/{which}",
                        f"{which} (a={fa!r}, b={fb!r}): elements (R, tau) {[(e_[0], e_[1]) for e_ in els]} vs returned tau*b={tau.tolist()} gamma/a={g.tolist()}", rep)
                continue
            if oc == "explicit" and len(tau) != len(els):
                acc.bad(f"C13/{cell}/recover", f"model_order={len(els)} returned {len(tau)} poles", rep)
            # public accessors agree with the attributes
            if which == "base" and nonfinite:
                base = (tau, g, m)  # get_peaks() is distorted by the non-finite pole (same mechanism, already reported)
            elif which == "base":
                t_rc, g_rc, t_rl, g_rl = _quiet_peaks(r)
                acc.stat(cell + "/get_peaks-checked")
                got = sorted((float(x), float(y)) for x, y in zip(t_rc, g_rc))
                exp = sorted((float(tau[j]), float(g[j])) for j in used)
                sub = [p for p in got if any(abs(p[0] / q[0] - 1) < 1e-12 and abs(p[1] / q[1] - 1) < 1e-12 for q in exp)]
                if len(sub) != len(exp):
                    acc.bad(f"C13/{cell}/get-peaks", f"get_peaks() RC part {got} does not contain the element poles {exp}", rep)
                base = (tau, g, m)
            elif base is not None:
                tb, gb, mb = base
                for (_, _, j0), (_, _, j1) in zip(mb, m):
                    dt = abs(tau[j1] / tb[j0] - 1.0)
                    dg = abs(g[j1] / gb[j0] - 1.0)
                    acc.obs(cell + f"/{which}/tau_rel", dt)
                    acc.obs(cell + f"/{which}/gamma_rel", dg)
                    if not dt <= LM_SCALE_REL or not dg <= LM_SCALE_REL:
                        acc.bad(f"C13/{cell}/{which}", f"a={fa!r} b={fb!r}: pole {tb[j0]!r}/{gb[j0]!r} became tau*b={tau[j1]!r}, gamma/a={g[j1]!r}", rep)
    if case.get("with_r0"):
        # statement is silent about series resistance for the Loewner method: observe only
        r, e = _call("lm", _dataset(f, Z + lad["R0_info"]), num_procs=1)
        acc.stat("lm/with-series-R[info]/runs")
        if e is None:
            tau = np.asarray(r.time_constants, dtype=float)
            g = np.asarray(r.gammas, dtype=float)
            if len(tau) >= 1 and np.all(np.isfinite(tau)) and np.all(tau > 0):
                m = _lm_match(els, tau, g)
                acc.obs("lm/with-series-R[info]/R_rel", max(x[1] for x in m))
                acc.stat("lm/with-series-R[info]/extra-poles", len(tau) - len({j for _, _, j in m}))
        else:
            acc.stat("lm/with-series-R[info]/raised")


# ------------------------------------------------------------------------------------------------
# m(RQ)fit
# ------------------------------------------------------------------------------------------------
def build_circuit(R0, els):
    from pyimpspec import Capacitor, Circuit, ConstantPhaseElement, Parallel, Resistor, Series

    parts = []
    if R0 > 0:
        parts.append(Resistor(R=float(R0)))
    for R, t0, n in els:
        if n == 1.0:
            parts.append(Parallel([Resistor(R=float(R)), Capacitor(C=float(t0 / R))]))
        else:
            parts.append(Parallel([Resistor(R=float(R)), ConstantPhaseElement(Y=float(t0**n / R), n=float(n))]))
    return Circuit(Series(parts))


def _mrq(f, Z, R0, els, W, npd):
    c = build_circuit(R0, els)
    fit = types.SimpleNamespace(circuit=c, residuals=np.zeros(len(f), dtype=complex))
    return _call("mrq-fit", _dataset(f, Z), circuit=c, fit=fit, gaussian_width=float(W), num_per_decade=int(npd), num_procs=1)


def _mrq_ref(els, W, tau):
    return sum(element_window_integral(R, t0, n, W, float(tau[0]), float(tau[-1])) for R, t0, n in els)


def run_mrq_one(lad, acc):
    f = grid(lad)
    els = lad["els"]
    R0 = lad["R0"]
    W, npd = lad["W"], lad["npd"]
    Z = ladder_Z(f, R0, els)
    a, b = lad["a"], lad["b"]
    rep = {"kind": "mrq", "lads": [lad]}
    cell = "mrq-fit/synthetic"

    def kind(n):
        return "rc" if n == 1.0 else "rq"

    def pclass(n):  # peak-position classes: Gaussian branch (RC and near-ideal RQ), sharp analytic hump, broad hump
        return "gauss" if is_gauss_branch(n) else ("sharp-rq" if n >= 0.9 else "broad-rq")

    # whole circuit
    r, e = _mrq(f, Z, R0, els, W, npd)
    acc.stat(cell + "/circuit-runs")
    if e is not None:
        acc.bad(_exc_key(f"C13/{cell}", e), f"calculate_drt(method='mrq-fit', fit=...) raised: {monitors.tb_tail(e)}", rep)
        return
    tau, g = r.get_drt_data()
    tau = np.asarray(tau, dtype=float)
    g = np.asarray(g, dtype=float)
    acc.evals += 1
    acc.keys.append(_lad_key(cell, lad) + (round(W, 3), npd))
    if len(tau) < 2 or not np.all(np.diff(tau) > 0) or not np.all(np.isfinite(g)):
        acc.bad(f"C13/{cell}/tau-grid", f"returned grid not ascending/finite (n={len(tau)})", rep)
        return
    # the returned window covers the measured window (so ">= 1.5 decades inside" carries over to the result grid)
    t_lo, t_hi = 1.0 / (2 * np.pi * f[0]), 1.0 / (2 * np.pi * f[-1])
    acc.obs(cell + "/window_rel", max(abs(tau[0] / t_lo - 1.0), abs(tau[-1] / t_hi - 1.0)))
    if not (abs(tau[0] / t_lo - 1.0) <= 1e-6 and abs(tau[-1] / t_hi - 1.0) <= 1e-6):
        acc.bad(f"C13/{cell}/tau-grid", f"returned tau window [{tau[0]!r}, {tau[-1]!r}] is not the measured window [{t_lo!r}, {t_hi!r}]", rep)
        return
    # masked end points (poisoned, excluded via DataSet.set_mask) must not take part: the window is that of the unmasked points
    fit_m = types.SimpleNamespace(circuit=build_circuit(R0, els), residuals=np.zeros(len(f) - 2, dtype=complex))
    rm, em = _call("mrq-fit", _masked_dataset(f, Z, [0, len(f) - 1]), circuit=fit_m.circuit, fit=fit_m, gaussian_width=float(W),
                   num_per_decade=int(npd), num_procs=1)
    acc.stat(cell + "/masked-ends-runs")
    if em is not None:
        acc.bad(_exc_key(f"C13/{cell}/masked-ends", em), f"calculate_drt(method='mrq-fit') on a spectrum with masked end points raised: {monitors.tb_tail(em)}", rep)
    else:
        tm, gm = (np.asarray(x, dtype=float) for x in rm.get_drt_data())
        lo_m, hi_m = 1.0 / (2 * np.pi * f[1]), 1.0 / (2 * np.pi * f[-2])
        acc.evals += 1
        dev_w = max(abs(tm[0] / lo_m - 1.0), abs(tm[-1] / hi_m - 1.0)) if len(tm) > 1 else float("inf")
        acc.obs(cell + "/masked-ends/window_rel", dev_w)
        dev_a = abs(float(np.trapezoid(gm, np.log(tm))) / _mrq_ref(els, W, tm) - 1.0) if dev_w <= 1e-6 else float("inf")
        acc.obs(cell + "/masked-ends/total_area_vs_windowed_ref", dev_a)
        acc.stat(cell + "/masked-ends-checked")
        if not dev_w <= 1e-6 or not dev_a <= MRQ_AREA_TOL:
            acc.bad(f"C13/{cell}/masked-ends", f"end points masked: returned window [{tm[0]!r}, {tm[-1]!r}] vs unmasked window [{lo_m!r}, {hi_m!r}], "
                    f"area deviation {dev_a:.3g}", rep)
    area = float(np.trapezoid(g, np.log(tau)))
    ref = _mrq_ref(els, W, tau)
    Rsum = sum(x[0] for x in els)
    acc.obs(cell + "/total_area_vs_windowed_ref", abs(area / ref - 1.0))
    acc.obs(cell + "/total_area_vs_sumR[info]", abs(area / Rsum - 1.0))
    acc.stat(cell + "/total-area-checked")
    if not abs(area / ref - 1.0) <= MRQ_AREA_TOL:
        acc.bad(f"C13/{cell}/area-total", f"integral {area:.8g} vs sum of element resistances {Rsum:.8g} (windowed reference {ref:.8g}); W={W} npd={npd}", rep)
    # peaks
    pt, pg = r.get_peaks(threshold=0.0)
    msg = _peaks_are_maxima(tau, g, pt, pg)
    acc.stat(cell + "/peaks-maxima-checked")
    if msg:
        acc.bad(f"C13/{cell}/peak-not-a-maximum", msg, rep)
    rstep = float(np.median(np.diff(np.log10(tau))))
    for (R, t0, n), res_k in zip(els, rq_resolved(els)):
        d = float(np.min(np.abs(np.log10(pt) - math.log10(t0)))) if len(pt) else float("inf")
        if not res_k:
            acc.stat(cell + "/peak-not-decided[rq,no-maximum-in-true-drt]")
            acc.obs(cell + "/peak_dev_decades[rq,no-maximum-in-true-drt,info]", d)
            continue
        acc.stat(cell + "/peak-checked")
        acc.stat(cell + f"/peak-checked[{pclass(n)}]")
        if n != 1.0 and is_gauss_branch(n):
            acc.stat(cell + "/peak-checked[near-ideal-rq]")
        acc.obs(cell + f"/peak_dev_steps[{pclass(n)}]", d / rstep)
        acc.obs(cell + f"/peak_dev_decades[{pclass(n)}]", d)
        # Gaussian branch (RC, near-ideal RQ) and sharp analytic humps (n >= 0.9): the distribution is analytic and centred on
        # tau_k, so the peak is the nearest RESULT-grid point (0.5 step + a tilt that stayed < 0.12 step in 28800 ladders);
        # broad humps (n < 0.9) sit on the sloping tails of their neighbours and keep the wider bound
        if pclass(n) != "broad-rq":
            good = d / rstep <= MRQ_PEAK_STEPS_SHARP
        else:
            good = d / rstep <= MRQ_PEAK_STEPS or d <= MRQ_PEAK_DEC_RQ
        if not good:
            acc.bad(f"C13/{cell}/peak-position", f"element R={R:.6g} tau={t0:.6g} n={n:.3f}: nearest peak {d:.4f} decades = {d / rstep:.2f} result-grid steps away; "
                    f"peaks at {np.asarray(pt).tolist()}", rep)
    # per element
    for k, (R, t0, n) in enumerate(els):
        r1, e1 = _mrq(f, ladder_Z(f, R0, [els[k]]), R0, [els[k]], W, npd)
        acc.stat(cell + "/element-runs")
        if e1 is not None:
            acc.bad(_exc_key(f"C13/{cell}", e1), f"one-element circuit raised: {monitors.tb_tail(e1)}", rep)
            continue
        t1, g1 = r1.get_drt_data()
        t1 = np.asarray(t1, dtype=float)
        g1 = np.asarray(g1, dtype=float)
        acc.evals += 1
        a1 = float(np.trapezoid(g1, np.log(t1)))
        ref1 = _mrq_ref([els[k]], W, t1)
        acc.obs(cell + f"/element_area_vs_windowed_ref[{kind(n)}]", abs(a1 / ref1 - 1.0))
        acc.obs(cell + f"/element_area_vs_R[{kind(n)}]", abs(a1 / R - 1.0))
        acc.stat(cell + f"/element-area-checked[{kind(n)}]")
        if not abs(a1 / ref1 - 1.0) <= MRQ_AREA_TOL:
            acc.bad(f"C13/{cell}/area-element:{kind(n)}", f"element R={R:.8g} tau={t0:.6g} n={n:.4f}: integral {a1:.8g} (windowed reference {ref1:.8g}); W={W} npd={npd}", rep)
    # scaling twins: Z*a <=> (R*a, Y/a) ; f*b <=> (tau0/b)
    for which, fa, fb in (("scale-Z", a, 1.0), ("scale-f", 1.0, b)):
        els2 = [[R * fa, t0 / fb, n] for R, t0, n in els]
        r2, e2 = _mrq(f * fb, Z * fa, R0 * fa, els2, W, npd)
        acc.stat(cell + f"/{which}-runs")
        if e2 is not None:
            acc.bad(_exc_key(f"C13/{cell}/{which}", e2), f"scaled twin raised: {monitors.tb_tail(e2)}", rep)
            continue
        t2, g2 = r2.get_drt_data()
        t2 = np.asarray(t2, dtype=float)
        g2 = np.asarray(g2, dtype=float)
        acc.evals += 1
        if len(t2) != len(tau):
            acc.bad(f"C13/{cell}/{which}", f"scaled twin returns {len(t2)} points, base {len(tau)}", rep)
            continue
        dt = float(np.max(np.abs(t2 * fb / tau - 1.0)))
        dg = float(np.max(np.abs(g2 / fa - g)) / np.max(g))
        acc.obs(cell + f"/{which}/tau_rel", dt)
        acc.obs(cell + f"/{which}/gamma_rel", dg)
        if not dt <= MRQ_SCALE_REL or not dg <= MRQ_SCALE_REL:
            acc.bad(f"C13/{cell}/{which}", f"a={fa!r} b={fb!r}: tau rel {dt:.3g}, gamma rel {dg:.3g}", rep)


def run_mrqfit(case, acc):
    """Real fit: the distribution must integrate to the resistances of the circuit carried by the result."""
    from pyimpspec import Capacitor, ConstantPhaseElement, Resistor

    lad = case["lad"]
    f = grid(lad)
    els = lad["els"]
    R0 = lad["R0"] if lad["R0"] > 0 else els[0][0]
    Z = ladder_Z(f, R0, els)
    cell = "mrq-fit/fitted"
    rep = {"kind": "mrqfit", "lad": lad}
    c = build_circuit(R0, els)  # start values = truth, so the fit is well-posed
    r, e = _call("mrq-fit", _dataset(f, Z), circuit=c, num_procs=1)
    acc.stat(cell + "/runs")
    if e is not None:
        acc.bad(_exc_key(f"C13/{cell}", e), f"calculate_drt(method='mrq-fit') raised: {monitors.tb_tail(e)}", rep)
        return
    tau, g = r.get_drt_data()
    tau = np.asarray(tau, dtype=float)
    g = np.asarray(g, dtype=float)
    fitted = []
    for con in r.circuit.get_connections()[1:]:
        p = {}
        for el in con.get_elements():
            p.update(el.get_values())
        n = float(p.get("n", 1.0))
        Y = float(p.get("Y", p.get("C")))
        fitted.append([float(p["R"]), float((p["R"] * Y) ** (1.0 / n)), n])
    # the reference formula switches branch at |n-1| = 1e-2 (documented Gaussian approximation): stay clear of the switch
    ok_pre = all(0.5 <= n <= 1.0 and not (0.985 < n < 0.995) and R > 0 and tau[0] * 10.0 <= t0 <= tau[-1] / 10.0 for R, t0, n in fitted)
    acc.stat(cell + "/fitted-inside-preconditions", int(ok_pre))
    if not ok_pre:
        return
    acc.evals += 1
    acc.keys.append(_lad_key(cell, lad))
    area = float(np.trapezoid(g, np.log(tau)))
    ref = _mrq_ref(fitted, 0.15, tau)
    acc.obs(cell + "/area_vs_result_circuit", abs(area / ref - 1.0))
    acc.obs(cell + "/fitted_R_vs_generator[info]", max(abs(x[0] / y[0] - 1.0) for x, y in zip(sorted(fitted, key=lambda q: q[1]), els)))
    if not abs(area / ref - 1.0) <= MRQ_AREA_TOL:
        acc.bad(f"C13/{cell}/area-total", f"integral {area:.8g} vs resistances of result.circuit {[x[0] for x in fitted]} (windowed reference {ref:.8g})", rep)


# ------------------------------------------------------------------------------------------------
# runner API
# ------------------------------------------------------------------------------------------------
def run_case(case):
    acc = Acc()
    k = case["kind"]
    if k == "nnls":
        run_nnls(case, acc)
        lad = case["lad"]
        sample = {"kind": k, "elements(R,tau,n)": lad["els"], "R0": lad["R0"], "ppd": lad["ppd"], "decades": lad["decades"],
                  "log10_tau_min": lad["lt_min"], "lambda_fixed": lad["lam"], "a": lad["a"], "b": lad["b"]}
        if "grid_kind" in lad:
            sample.update({"grid": lad["grid_kind"], "points": len(lad["lt"]), "masked_points": len(lad.get("mask", [])),
                           "densities": lad.get("densities"), "thinning": lad.get("thinning")})
    elif k == "lm":
        run_lm(case, acc)
        lad = case["lad"]
        sample = {"kind": k, "elements(R,tau,n)": lad["els"], "ppd": lad["ppd"], "decades": lad["decades"], "a": lad["a"], "b": lad["b"]}
    elif k == "mrq":
        for lad in case["lads"]:
            run_mrq_one(lad, acc)
        lad = case["lads"][0]
        sample = {"kind": k, "elements(R,tau,n)": lad["els"], "R0": lad["R0"], "W": lad["W"], "num_per_decade": lad["npd"]}
    elif k == "mrqfit":
        run_mrqfit(case, acc)
        sample = None
    else:
        raise ValueError(k)
    return acc.out(sample)


def finalize(agg):
    st = agg["stats"]
    inc = []
    need = [f"tr-nnls/{m}/{lk}/area-checked" for m, lk in NNLS_CELLS] + [f"tr-nnls/{m}/{lk}/peak-checked[rc]" for m, lk in NNLS_CELLS]
    need += [f"tr-nnls/{m}/{lk}/centroid-checked[rq]" for m, lk in NNLS_CELLS]
    need += [f"tr-nnls/{m}/{lk}/scale-Z-compared" for m, lk in NNLS_CELLS] + [f"tr-nnls/{m}/{lk}/scale-f-compared" for m, lk in NNLS_CELLS]
    need += ["lm/auto/pairs-checked", "lm/explicit/pairs-checked", "mrq-fit/synthetic/total-area-checked", "mrq-fit/synthetic/peak-checked[near-ideal-rq]", "mrq-fit/synthetic/peak-checked[sharp-rq]",
             "mrq-fit/synthetic/element-area-checked[rc]", "mrq-fit/synthetic/element-area-checked[rq]", "mrq-fit/synthetic/peak-checked"]
    for k in need:
        if st.get(k, 0) < 10:
            inc.append(f"deciding comparison '{k}' ran only {st.get(k, 0)} times")
    skipped = sum(v for k, v in st.items() if k.endswith("/nnls-maxiter-skipped"))
    runs = sum(v for k, v in st.items() if k.startswith("tr-nnls/") and k.endswith("runs"))
    if runs and skipped > 0.2 * runs:
        inc.append(f"{skipped} of {runs} TR-NNLS runs hit scipy's nnls iteration limit even with max_iter={MAX_ITER}")
    worst = sorted((x for x in agg["aggs"] if isinstance(x, dict)), key=lambda x: -x["gamma_rel"])[:2]
    # aggregate area clause: the per-run bound (AREA_TOL) is a method-accuracy bound; systematic area errors of a few
    # percent show up in the DISTRIBUTION of the deviation.  Observed on the unchanged tree over 3 quick seeds
    # (768 runs per cell): fraction with |area/R_pol - 1| > 2 % <= 0.09 (real-mode cells: 0.0), > 5 % <= 0.023.
    viol = []
    for m, lk in NNLS_CELLS:
        cell = f"tr-nnls/{m}/{lk}"
        n = st.get(cell + "/area-checked", 0)
        if n >= 100:
            f2 = st.get(cell + "/area-dev>0.02", 0) / n
            f5 = st.get(cell + "/area-dev>0.05", 0) / n
            if f2 > AREA_FRAC_2PCT or f5 > AREA_FRAC_5PCT:
                viol.append({"key": f"C13/{cell}/area-distribution",
                             "msg": f"{cell}: {f2:.1%} of {n} runs have an area more than 2 % off the polarisation resistance (allowed {AREA_FRAC_2PCT:.0%}), "
                                    f"{f5:.1%} more than 5 % off (allowed {AREA_FRAC_5PCT:.0%})",
                             "witness": {"cell": cell, "runs": n, "frac_gt_2pct": f2, "frac_gt_5pct": f5}})
    # aggregate per-peak-area clause (same idea): a quadrature-weight error on non-uniform grids mis-scales each peak by
    # (assumed step / local step) - tens of percent on mixed-density and masked grids - while the unchanged tree has
    # < 0.5 % of its peaks more than 15 % off in every cell.
    peak_area_info = {}
    for cell in sorted({k[: -len("/peak-area-checked")] for k in st if k.endswith("/peak-area-checked")}):
        n = st.get(cell + "/peak-area-checked", 0)
        nu = "@" in cell
        if n >= (20 if nu else 100):
            f15 = st.get(cell + "/peak-area-dev>0.15", 0) / n
            peak_area_info[cell] = [n, round(f15, 4)]
            lim = PEAK_MASS_FRAC_15PCT_NU if nu else PEAK_MASS_FRAC_15PCT
            if f15 > lim:
                viol.append({"key": f"C13/{cell}/peak-area-distribution",
                             "msg": f"{cell}: {f15:.1%} of {n} per-peak areas (gamma integrated over +-0.75 decade around tau_k) are more than 15 % off "
                                    f"the exact distribution's (allowed {lim:.0%})",
                             "witness": {"cell": cell, "peaks": n, "frac_gt_15pct": f15}})
    for gk in ("mixed", "masked", "jitter"):
        for m, lk in NNLS_CELLS:
            c = f"tr-nnls/{m}/{lk}@{gk}"
            if st.get(c + "/area-checked", 0) < 10 or st.get(c + "/peak-area-checked", 0) < 20:
                inc.append(f"non-uniform cell '{c}': only {st.get(c + '/area-checked', 0)} areas / {st.get(c + '/peak-area-checked', 0)} per-peak areas decided")
    if st.get("masked-datasets", 0) < 5:
        inc.append("fewer than 5 spectra with a DataSet.set_mask mask were analysed")
    return {"viol": viol, "inconclusive": inc,
            "info": {"per_peak_area[cell -> (peaks, fraction > 15 % off)]": peak_area_info, "nnls_maxiter_skipped": skipped, "tr_nnls_runs": runs,
                     "automatic_lambda_twins_differing_by_more_than_1pct[info, not a verdict]": len(agg["aggs"]),
                     "worst_automatic_lambda_twins[info]": worst}}
