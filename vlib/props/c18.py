"""C18 - every documented option combination completes or is refused up front.

Shape: invariant at a hook + outcome classification at the client boundary.  Every case is a concrete list of calls
(entry point, option dict) on a concrete spectrum; the REAL entry points are run and three observers decide:

  outcome      the call returns an object of the documented result type, or raises.  A raise is a *refusal* when
               (a) the exception is one of pyimpspec's own error types (pyimpspec.exceptions.*: KramersKronigError,
               ZHITError, DRTError, FittingError, ...) wherever it is raised, or (b) it is exactly TypeError / ValueError /
               NotImplementedError raised by an explicit `raise` statement in pyimpspec code outside progress.py, with a
               non-empty message.  Everything else is a *crash* and a violation: implicit exceptions, exceptions whose
               innermost frame is in numpy/scipy/lmfit/pandas/multiprocessing (IndexError, KeyError, LinAlgError,
               broadcasting ValueError, curve_fit's TypeError, ...), anything from progress.py, AssertionError.  Exceptions
               that crossed a process pool are classified by the innermost frame of the worker's traceback.
  progress     Progress.increment/set/set_message/__enter__ are wrapped from the harness: 0 <= _i <= _total is evaluated
               and recorded after every step, whether or not the ValueError that progress.py raises escapes
               (perform_kramers_kronig_test swallows ValueError per representation).
  callbacks    a callback registered through the public pyimpspec.progress.register for the duration of each call: every
               event carries a real `progress` with 0.0 <= progress <= 1.0 and a non-empty string `message`.

Latitude (statement silent -> accepted): how far progress gets before a completed analysis returns (reported as
`progress_shortfall`), the order/monotonicity of callback fractions, explicit refusals that are raised after some steps
(e.g. Z-HIT validates the smoothing settings inside the smoothing stage; counted per progress-step bucket), exceptions that
the library itself catches (counted in the thorough tier through sys.monitoring, never a verdict).
Numeric options are not only exercised at their defaults: the 'fine-grid' KK block (large / odd num_F_ext_evaluations x narrow,
one-sided and asymmetric [min,max]_log_F_ext x rapid on/off makes the second-stage grid of the log F_ext search finer than the
interpolation resolution) and the 'numeric' block (each numeric option at its documented extremes and odd interior values).
Known findings (open, keyed narrowly by entry point, origin function, exception type and spectrum class): automatic KK on
sparse spectra (<7 points or <2 points/decade, suffix ':sparse') and - for _approximate_transition_and_end_point and the
differential-evolution wrapper - also on ordinary short spectra; 1-2 point spectra for the other entry points (suffix ':n<3');
tr-nnls nnls iteration limit without an explicit max_iter and with an explicit tiny one; bht re-raising a LinAlgError when every attempt failed; lmfit's NaN
ValueError escaping the cnls test (seen once, not reproducible).  Repaired while this check was built (their inputs stay in the
workload, reverts are self-test mutants): nested pools for cnls, the NaN branch of _calculate_statistic, singular normal matrix in
complex-inv, Z-HIT num_points larger than the data, max() of an empty range in the transition heuristic, lmfit's AbortFitException
escaping the differential-evolution search.  The same crash at another origin / on another class is a VIOLATION.
"""
import dis
import linecache
import math
import os
import re
import signal
import sys
import time

import numpy as np

from .. import env
from .. import monitors

ID = "C18"
RULE = (
    "calls = (entry point, option dict, spectrum). Spectra: 7 synthetic families (2 ZARCs, RC, RC+finite Warburg, inductive, "
    "negative resistance, blocking capacitor, single cut-off arc) x point counts 1..30 (odd and even) x 1..10 points/decade x noise {0,1e-3,2e-2}. "
    "KK: 7 tests x admittance {False,True,None} x add_capacitance x add_inductance x num_RC {auto, valid, maximum, too large, 1} "
    "x num_F_ext_evaluations {-20,-10,0,10,11,20, |n|<10} x rapid x [min,max]_log_F_ext {(-1,1),(-0.5,1.5),(0,1),(-2,2)} x "
    "num_procs {1,2}; a 'fine-grid' block crosses unusual evaluation budgets {13,30,60,100,150,-13,-30,-100,-150} and the refused ones "
    "{1,2,3,7,9,-1,-7,-9} with narrow / one-sided / asymmetric ranges {(-0.1,0.1),(0,0.05),(-0.05,0.15),(-0.025,0.025),(0,2)} and rapid on/off "
    "on 8-12 point spectra (thorough also 41 points). A 'numeric' block puts every other numeric option at its documented extremes and at "
    "unusual interior values (log_F_ext -10..10, cnls max_nfev/timeout 1, Z-HIT num_points 1..n+1, polynomial_order up to num_points-1, "
    "num_iterations 1/10, window width 1e-6..50 and centres off the data, tr-nnls lambda 1e-10..1e12 and the -1.5 mode boundary, max_iter 0/1/5, negative lm "
    "orders, bht shape_coeff 0.05..100 / num_samples 1 / maximum_symmetry 0 and 1, mrq-fit gaussian_width 0.01..2 / num_per_decade 0,1,1000, "
    "fit max_nfev 0,1,2,5 / timeout 1). Z-HIT: 6 smoothing x 5 interpolation x admittance x {custom weights, 3 named windows, auto} x "
    "(num_points, polynomial_order) cells incl. refused ones x window placement. DRT: tr-nnls modes x lambda {fixed,0,-1,-2} x "
    "max_iter; lm orders x {matrix_rank, pseudo_chisqr}; bht 9 rbf types x derivative order x shape x num_procs; mrq-fit with/"
    "without a prior fit; tr-rbf. Fit: 9 methods x 4 weights x circuits, method/weight lists, auto, pool and timeout paths. "
    "quick = greedy pairwise-covering rows of each cross product on several spectra; thorough = the complete KK / Z-HIT / "
    "tr-nnls / lm / bht / fit cross products on one spectrum each plus pairwise rows on more spectra. Per entry point the "
    "smallest accepted spectrum is found by scanning n = 1..10. One evaluation = one call classified; distinct = distinct "
    "(entry point, option cell, size class) keys that reached a verdict."
)
ASSUMPTIONS = [
    "an exception is 'explicitly raised by the library' when the instruction that raised in its innermost frame is a RAISE_VARARGS of a code object from a file under src/pyimpspec (for exceptions that crossed a process pool: when the source line named by the worker's traceback is a raise statement)",
    "numpy/scipy/lmfit/statsmodels as installed; their exceptions escaping an entry point count as crashes of the entry point",
    "synthetic spectra are produced by the harness with numpy formulas (no library code)",
    "MPLBACKEND=Agg (the pooled log F_ext evaluation is only used with that backend)",
]
SHARDS = 16
CASE_TIMEOUT = 420
MIN_EVALS = 150
CALL_BUDGET = 200.0  # seconds per library call; firing => inconclusive, never a verdict
CASE_COST = {"quick": 9.0, "thorough": 14.0}
CNLS_MAX_NFEV = 100  # cnls fits need room to converge: starved fits (max_nfev ~20) give degenerate chi-squared curves, the F20 mechanism

KK_TESTS = ["complex", "real", "imaginary", "complex-inv", "real-inv", "imaginary-inv", "cnls"]
KK_NFE = [-20, -10, 0, 10, 11, 20]
KK_GRIDS = {"default": (-1.0, 1.0), "asym": (-0.5, 1.5), "zero-min": (0.0, 1.0), "wide": (-2.0, 2.0),
            # narrow / one-sided / asymmetric ranges (width 0.2, 0.05, 0.2 asymmetric, 0.05 centred, one-sided 2 decades)
            "narrow": (-0.1, 0.1), "tiny-one-sided": (0.0, 0.05), "narrow-asym": (-0.05, 0.15), "tiny": (-0.025, 0.025), "one-sided-wide": (0.0, 2.0)}
KK_NFE_FINE = [13, 30, 60, 100, 150, -13, -30, -100, -150]  # unusual but documented evaluation budgets (|n| >= 10)
KK_NFE_REFUSED = [1, 2, 3, 7, 9, -1, -7, -9]  # 0 < |n| < 10 must be refused by the validation block
Z_SMOOTH = ["none", "lowess", "modsinc", "savgol", "whithend", "auto"]
Z_INTERP = ["akima", "makima", "cubic", "pchip", "auto"]
Z_WINDOWS = ["custom", "boxcar", "hann", "triang", "auto"]
Z_NUMPTS = {"3/2": (3, 2), "5/2": (5, 2), "4/2": (4, 2), "5/4": (5, 4), "2/1": (2, 1), "3/3": (3, 3), "1/2": (1, 2)}
BHT_RBF = ["gaussian", "c0-matern", "c2-matern", "c4-matern", "c6-matern", "inverse-quadratic", "inverse-quadric", "cauchy", "piecewise-linear"]
FIT_METHODS = ["leastsq", "least_squares", "nelder", "lbfgsb", "powell", "cg", "bfgs", "tnc", "slsqp"]
FIT_WEIGHTS = ["unity", "modulus", "proportional", "boukamp"]
FIT_CDCS = ["R(RC)", "R(RQ)(RC)", "RL(RQ)"]
FAMILIES = ["rq2", "rc", "rcw", "rl", "neg", "cap"]

ENTRY_FUNCS = {
    "perform_kramers_kronig_test": "kk", "evaluate_log_F_ext": "kk", "perform_exploratory_kramers_kronig_tests": "kk",
    "perform_zhit": "zhit", "calculate_drt_tr_nnls": "tr-nnls", "calculate_drt_bht": "bht", "calculate_drt_lm": "lm",
    "calculate_drt_mrq_fit": "mrq-fit", "calculate_drt_tr_rbf": "tr-rbf", "fit_circuit": "fit",
}


class _Budget(BaseException):
    pass


class call_budget:
    """Bound one library call; nests inside the runner's SIGALRM watchdog and restores it afterwards."""

    def __init__(self, seconds):
        self.seconds = seconds

    def __enter__(self):
        self.t0 = time.time()
        self.old_handler = signal.getsignal(signal.SIGALRM)
        self.remaining = signal.alarm(0)

        def fire(signum, frame):
            raise _Budget()

        signal.signal(signal.SIGALRM, fire)
        signal.setitimer(signal.ITIMER_REAL, self.seconds)
        return self

    def __exit__(self, *exc):
        signal.setitimer(signal.ITIMER_REAL, 0)
        signal.signal(signal.SIGALRM, self.old_handler)
        if self.remaining:
            left = max(1, int(self.remaining - (time.time() - self.t0)))
            signal.alarm(left)
        return False


# ------------------------------------------------------------------------------------------------
# spectra (harness-side numpy formulas)
# ------------------------------------------------------------------------------------------------
def make_spectrum(sp):
    n, ppd, logf0 = int(sp["n"]), float(sp["ppd"]), float(sp["logf0"])
    rng = np.random.default_rng(sp["seed"])
    f = 10.0 ** (logf0 - np.arange(n) / ppd)
    w = 2 * np.pi * f
    lo, hi = math.log10(1 / w[0]), math.log10(1 / w[-1]) + (0.5 if n == 1 else 0.0)
    t1 = 10.0 ** (lo + (hi - lo) * rng.uniform(0.2, 0.45))
    t2 = 10.0 ** (lo + (hi - lo) * rng.uniform(0.55, 0.85))
    R0 = 10.0 ** rng.uniform(0, 2)
    R1 = 10.0 ** rng.uniform(0.5, 3)
    R2 = 10.0 ** rng.uniform(0.5, 3)
    n1, n2 = rng.uniform(0.7, 1.0), rng.uniform(0.6, 0.95)
    fam = sp["fam"]
    if fam == "rq2":
        Z = R0 + R1 / (1 + (1j * w * t1) ** n1) + R2 / (1 + (1j * w * t2) ** n2)
    elif fam == "rc":
        Z = R0 + R1 / (1 + 1j * w * t1)
    elif fam == "rcw":
        s = np.sqrt(1j * w * t2)
        Z = R0 + R1 / (1 + 1j * w * t1) + R2 * np.tanh(s) / s
    elif fam == "rl":
        Z = R0 + 1j * w * (R0 / w[0]) + R1 / (1 + (1j * w * t1) ** n1)
    elif fam == "neg":
        Z = R0 + R1 / (1 + 1j * w * t1) - 1.3 * (R0 + R1) / (1 + 1j * w * t2)
    elif fam == "rq1":  # single arc anywhere inside the window (possibly cut off), optionally without series resistance
        t0 = 10.0 ** rng.uniform(min(lo + 1, hi), max(lo + 1, hi - 1))
        Z = (R0 if rng.random() < 0.5 else 0.0) + R1 / (1 + (1j * w * t0) ** (1.0 if rng.random() < 0.5 else n2))
    elif fam == "cap":
        Z = R0 + R1 / (1 + (1j * w * t1) ** n1) + 1 / (1j * w * (1 / (w[-1] * 10 * R1)))
    else:
        raise KeyError(fam)
    noise = float(sp.get("noise", 0.0))
    if noise:
        Z = Z * (1 + noise * (rng.normal(size=n) + 1j * rng.normal(size=n)))
    return f, np.asarray(Z, dtype=complex)


def size_class(f):
    n = len(f)
    if n < 2:
        return True, n, 0.0
    dec = abs(math.log10(max(f) / min(f)))
    ppd = (n - 1) / dec if dec > 0 else float("inf")
    return bool(n < 7 or ppd < 2 - 1e-9), n, ppd


def _spec(rng, n, ppd=None, fam=None, noise=None, seed=None):
    return {
        "n": int(n),
        "ppd": float(ppd if ppd is not None else rng.choice([2, 3, 5, 8, 10])),
        "logf0": float(rng.choice([3.5, 4.0, 5.0])),
        "fam": str(fam if fam is not None else rng.choice(FAMILIES)),
        "noise": float(noise if noise is not None else rng.choice([0.0, 1e-3, 2e-2])),
        "seed": [int(x) for x in (seed if seed is not None else rng.integers(0, 2**31, size=3))],
    }


# ------------------------------------------------------------------------------------------------
# Progress monitor + callback monitor
# ------------------------------------------------------------------------------------------------
class Trace:
    def __init__(self):
        self.steps = 0
        self.max_frac = 0.0
        self.overruns = []
        self.objs = []  # Progress objects entered (outermost first)
        self.events = 0
        self.bad_events = []
        self.max_cb = 0.0
        self.min_cb = 1.0


TRACE = None
_PROG_INSTALLED = False
_THIS = os.path.abspath(__file__)


def _caller_name():
    """Name of the first frame outside progress.py and this module (the library function that took the step)."""
    try:
        fr = sys._getframe(2)
        while fr is not None:
            fn = fr.f_code.co_filename
            if not fn.endswith(os.sep + "progress.py") and os.path.abspath(fn) != _THIS:
                return fr.f_code.co_name
            fr = fr.f_back
    except Exception:
        pass
    return "?"


def _progress_state_ok(self, op):
    monitors.count("Progress.invariant")
    try:
        i, total = self._i, self._total
        ok = isinstance(i, (int, np.integer)) and isinstance(total, (int, np.integer)) and 0 <= i <= total
        t = TRACE
        if t is not None:
            t.steps += 1
            if ok and total > 0:
                t.max_frac = max(t.max_frac, i / total)
        if not ok:
            rec = {"op": op, "i": repr(i), "total": repr(total), "message": str(getattr(self, "_message", ""))[:80], "caller": _caller_name()}
            if t is not None:
                t.overruns.append(rec)
            else:
                monitors.record("Progress.invariant", f"Progress state i={i!r} total={total!r} after {op}", rec)
    except Exception as e:  # the monitor must never break the run
        monitors.record("Progress.invariant", f"monitor error {e!r}")
    return True


def install_progress_monitor():
    global _PROG_INSTALLED
    if _PROG_INSTALLED:
        return
    _PROG_INSTALLED = True
    from pyimpspec.progress import Progress

    o_inc, o_set, o_msg, o_enter = Progress.increment, Progress.set, Progress.set_message, Progress.__enter__

    def increment(self, *a, **k):
        try:
            return o_inc(self, *a, **k)
        finally:
            _progress_state_ok(self, "increment")

    def set(self, *a, **k):  # noqa: A001
        try:
            return o_set(self, *a, **k)
        finally:
            _progress_state_ok(self, "set")

    def set_message(self, *a, **k):
        try:
            return o_msg(self, *a, **k)
        finally:
            _progress_state_ok(self, "set_message")

    def __enter__(self):
        if TRACE is not None:
            TRACE.objs.append(self)
        try:
            return o_enter(self)
        finally:
            _progress_state_ok(self, "__enter__")

    for name, fn, orig in (("increment", increment, o_inc), ("set", set, o_set), ("set_message", set_message, o_msg), ("__enter__", __enter__, o_enter)):
        fn.__wrapped__ = orig
        fn.__qualname__ = "Progress." + name
        setattr(Progress, name, fn)


def _callback(*args, **kwargs):
    monitors.count("callback.events")
    t = TRACE
    if t is None:
        return
    try:
        t.events += 1
        p = kwargs.get("progress", None)
        m = kwargs.get("message", None)
        okp = isinstance(p, (int, float, np.integer, np.floating)) and not isinstance(p, bool) and 0.0 <= float(p) <= 1.0
        okm = isinstance(m, str) and len(m.strip()) > 0
        if isinstance(p, (int, float, np.integer, np.floating)) and float(p) == float(p):
            t.max_cb = max(t.max_cb, float(p))
            t.min_cb = min(t.min_cb, float(p))
        if not (okp and okm) and len(t.bad_events) < 5:
            t.bad_events.append({"progress": repr(p), "message": repr(m)[:80], "kind": ("progress" if not okp else "message"), "caller": _caller_name()})
    except Exception as e:
        monitors.record("callback", f"monitor error {e!r}")


# thorough tier: exceptions handled inside library code, by type and function (information only)
HANDLED = {}
_CODE_IN_TREE = {}


def _install_handled_counter():
    mon = getattr(sys, "monitoring", None)
    if mon is None:
        return
    try:
        tool = mon.PROFILER_ID
        mon.use_tool_id(tool, "verif-c18")

        def handled(code, offset, exc):
            it = _CODE_IN_TREE.get(code)
            if it is None:
                it = _CODE_IN_TREE[code] = env.in_tree(code.co_filename) and not code.co_filename.endswith("progress.py")
            if it and not isinstance(exc, (StopIteration, GeneratorExit)):
                k = f"{type(exc).__name__}@{code.co_name}"
                HANDLED[k] = HANDLED.get(k, 0) + 1

        mon.register_callback(tool, mon.events.EXCEPTION_HANDLED, handled)
        mon.set_events(tool, mon.events.EXCEPTION_HANDLED)
    except Exception:
        pass


# ------------------------------------------------------------------------------------------------
# exception classification
# ------------------------------------------------------------------------------------------------
_FRAME_RE = re.compile(r'^\s*File "(?P<file>.+?)", line (?P<line>\d+), in (?P<func>.+?)\s*$')


def _frames(exc):
    """[(file, line, func, raise_opcode|None)] outermost..innermost, continued through a pool worker's traceback if there is one.
    raise_opcode: True/False when the frame object is available (the instruction that raised is a RAISE_VARARGS), None for frames
    known only from a worker's traceback text."""
    out = []
    tb = exc.__traceback__
    while tb is not None:
        code = tb.tb_frame.f_code
        try:
            op = dis.opname[code.co_code[tb.tb_lasti]] if 0 <= tb.tb_lasti < len(code.co_code) else ""
            is_raise = op == "RAISE_VARARGS"
        except Exception:
            is_raise = None
        out.append((code.co_filename, tb.tb_lineno, code.co_name, is_raise))
        tb = tb.tb_next
    cause = exc.__cause__
    remote = False
    if cause is not None and type(cause).__name__ == "RemoteTraceback" and isinstance(getattr(cause, "tb", None), str):
        rem = []
        for ln in cause.tb.splitlines():
            m = _FRAME_RE.match(ln)
            if m:
                rem.append((m.group("file"), int(m.group("line")), m.group("func"), None))
        if rem:
            out.extend(rem)
            remote = True
    return out, remote


def _is_raise_text(fn, line):
    """Source-text fallback (worker tracebacks): the line, or the statement it continues, starts with `raise`."""
    text = (linecache.getline(fn, line) or "").strip()
    if text.startswith("raise ") or text == "raise":
        return True
    for back in range(1, 8):
        t = (linecache.getline(fn, line - back) or "").strip()
        if t.startswith("raise ") or t == "raise":
            seg = "".join((linecache.getline(fn, line - k) or "") for k in range(back, -1, -1))
            return seg.count("(") > seg.count(")") or seg.rstrip().endswith(")")
        if t.endswith(":") or t == "":
            break
    return False


_OWN = None


def _own_errors():
    global _OWN
    if _OWN is None:
        import inspect

        import pyimpspec.exceptions as X

        _OWN = tuple(c for _, c in inspect.getmembers(X, inspect.isclass) if issubclass(c, Exception) and c.__module__ == X.__name__)
    return _OWN


def describe(exc):
    frames, remote = _frames(exc)
    if not frames:
        return {"type": type(exc).__name__, "entry": None, "site": "?", "foreign": None, "is_raise": False, "progress": False, "in_tree": False,
                "where": "?", "remote": False}
    fn, line, func, raise_op = frames[-1]
    in_tree = env.in_tree(fn)
    site = next((fu for (fi, li, fu, _) in reversed(frames) if env.in_tree(fi) and not fi.endswith(os.sep + "progress.py")), "?")
    entry = next((ENTRY_FUNCS[fu] for (fi, li, fu, _) in reversed(frames) if env.in_tree(fi) and fu in ENTRY_FUNCS), None)
    foreign = None
    if not in_tree:
        parts = fn.replace("\\", "/").split("/")
        pkg = parts[parts.index("site-packages") + 1] if "site-packages" in parts else (parts[-2] if len(parts) > 1 else "?")
        foreign = f"{pkg}:{func}"
    is_raise = bool(in_tree and (raise_op if raise_op is not None else _is_raise_text(fn, line)))
    return {
        "funcs": sorted({fu for (fi, li, fu, _) in frames if env.in_tree(fi)}),
        "type": type(exc).__name__, "entry": entry, "site": site, "foreign": foreign, "in_tree": in_tree,
        "is_raise": is_raise, "progress": fn.endswith(os.sep + "progress.py"),
        "where": f"{os.path.relpath(fn, env.SRC) if in_tree else fn.split('site-packages/')[-1]}:{line} in {func}", "remote": remote,
    }


def classify(exc):
    """-> ('refused'|'crash', description dict)"""
    d = describe(exc)
    if isinstance(exc, _own_errors()):
        d["why"] = "library error type"
        return "refused", d
    if d["progress"] or isinstance(exc, AssertionError):
        return "crash", d
    if type(exc) in (TypeError, ValueError, NotImplementedError) and d["in_tree"] and d["is_raise"] and str(exc).strip():
        d["why"] = "explicit raise"
        return "refused", d
    return "crash", d


# ------------------------------------------------------------------------------------------------
# running one call
# ------------------------------------------------------------------------------------------------
def _result_types():
    from pyimpspec import DRTResult, FitResult, KramersKronigResult, ZHITResult

    return {"kk": KramersKronigResult, "zhit": ZHITResult, "drt": DRTResult, "fit": FitResult}


def _invoke(ep, opts, data, f):
    import pyimpspec

    o = dict(opts)
    if ep == "kk":
        return pyimpspec.perform_kramers_kronig_test(data, **o)
    if ep == "zhit":
        wk = o.pop("weights_kind", None)
        if wk is not None:
            n = len(f)
            if wk == "ones":
                o["weights"] = np.ones(n, dtype=float)
            elif wk == "box":
                wts = np.zeros(n, dtype=float)
                wts[n // 4: max(n // 4 + 1, n - n // 4)] = 1.0
                o["weights"] = wts
            elif wk == "ramp":
                o["weights"] = np.linspace(0.1, 1.0, n)
            elif wk == "short":
                o["weights"] = np.ones(max(1, n - 1), dtype=float)
            elif wk == "zeros":
                o["weights"] = np.zeros(n, dtype=float)
        if o.pop("center_mid", False):
            o["center"] = float(np.log10(f).mean())
        if o.pop("center_on_data", False):
            lf = np.log10(f)
            o["center"] = float((lf.max() + lf.min()) / 2)
            o["width"] = float(max(0.5, (lf.max() - lf.min()) * 0.8))
        return pyimpspec.perform_zhit(data, **o)
    if ep == "drt":
        cdc = o.pop("cdc", None)
        prefit = o.pop("prefit", False)
        if cdc is not None:
            o["circuit"] = pyimpspec.parse_cdc(cdc)
            if prefit:
                o["fit"] = pyimpspec.fit_circuit(o["circuit"], data, method="least_squares", weight="boukamp", max_nfev=200, num_procs=1)
                o["circuit"] = o["fit"].circuit
        return pyimpspec.calculate_drt(data, **o)
    if ep == "fit":
        cdc = o.pop("cdc")
        return pyimpspec.fit_circuit(pyimpspec.parse_cdc(cdc), data, **o)
    raise KeyError(ep)


def BLOCKS(tier):
    full = tier == "thorough"
    return {
        "kk_fixed_log_F_ext_all_cells": {"factors": "7 tests x {Z,Y,None} x C x L x num_RC {valid, auto}", "calls": 156, "exhaustive": True},
        "kk_full_cross": {"factors": "6 linear tests x {Z,Y,None} x C x L x {auto, fixed} num_RC x num_F_ext_evaluations {-20,-10,0,10,11,20} x rapid x 3 grids",
                          "calls": "5184 on each of 2 spectra", "exhaustive": full, "run": full},
        "kk_cnls_full_cross": {"factors": "cnls x the same factors on a 7-point spectrum, max_nfev=100", "calls": 864, "exhaustive": full, "run": full},
        "zhit_full_cross": {"factors": "6 smoothing x 5 interpolation x {Z,Y} x {custom, boxcar, hann, auto} x 3 (num_points, polynomial_order)", "calls": "720 on each of 2 spectra",
                            "exhaustive": full, "run": full},
        "fit_cells": {"factors": "9 methods x 4 weights per circuit", "exhaustive": True},
        "tr_nnls_lm_cells": {"factors": "tr-nnls 3 modes x 4 lambda modes x 2 max_iter; lm 5 orders x 2 order methods", "exhaustive": True},
        "bht_cells": {"factors": "9 rbf types x 2 derivative orders x 2 shapes x num_procs {1,2}", "exhaustive": full},
        "pairwise_models": {"note": "all other rows are greedy pairwise-covering designs over the factor levels named in the rule", "exhaustive": False},
    }


def _cell(ep, opts):
    """Canonical option-cell key (structural)."""
    return (ep,) + tuple(sorted((k, repr(v)) for k, v in opts.items()))


def _label(ep, opts):
    if ep == "drt":
        m = opts.get("method", "tr-nnls")
        return m if m in ("tr-nnls", "lm", "bht", "mrq-fit", "tr-rbf") else "drt"
    return ep


def run_call(ep, opts, f, Z, out, rseed=0):
    """Run one call under the monitors and apply the oracle. `out` accumulates evals/keys/viol/stats/maxobs."""
    global TRACE
    from pyimpspec import DataSet, progress as P

    st, mx = out["stats"], out["maxobs"]
    name = _label(ep, opts)
    sparse, n, ppd = size_class(f)
    replay = {"kind": "explicit", "ep": ep, "opts": opts, "f": [float(x) for x in f], "Z": [[float(z.real), float(z.imag)] for z in Z], "rseed": int(rseed)}

    def bump(k, v=1):
        st[k] = st.get(k, 0) + v

    def bad(key, msg, extra=None):
        w = {"entry": name, "options": opts, "n": n, "points_per_decade": round(ppd, 3), "sparse_class": sparse, "replay_case": replay}
        if extra:
            w.update(extra)
        out["viol"].append({"key": key, "msg": f"{name}({_fmt(opts)}) on {n} points ({ppd:.2f}/decade): {msg}", "witness": w})

    try:
        data = DataSet(np.array(f, dtype=float), np.array(Z, dtype=complex), label="c18")
    except Exception as e:  # not this property's subject
        bump("dataset_refused")
        return None
    before = dict(P._CALLBACKS)
    np.random.seed(int(rseed) % (2**32))  # BHT and differential evolution draw from the global numpy RNG
    trace = TRACE = Trace()
    handle = P.register(_callback)
    t0 = time.time()
    res = exc = None
    try:
        with call_budget(CALL_BUDGET):
            with np.errstate(all="ignore"):
                import warnings

                with warnings.catch_warnings():
                    warnings.simplefilter("ignore")
                    res = _invoke(ep, opts, data, np.array(f, dtype=float))
    except _Budget:
        bump("call_budget_exceeded")
        out.setdefault("budget", []).append(f"{name}({_fmt(opts)}) n={n}")
        exc = None
        res = "budget"
    except Exception as e:
        exc = e
    finally:
        TRACE = None
        try:
            ok_unreg = P.unregister(handle)
        except Exception:
            ok_unreg = False
    dt = time.time() - t0
    mx[f"seconds:{name}"] = max(mx.get(f"seconds:{name}", 0.0), dt)
    if res == "budget":
        return "budget"
    if not ok_unreg or dict(P._CALLBACKS) != before:
        bad(f"C18/{name}/callback-registry-altered", f"callback registry changed during the call: before {sorted(before)}, after {sorted(P._CALLBACKS)} (unregister -> {ok_unreg})")
        for k in list(P._CALLBACKS):
            if k not in before:
                del P._CALLBACKS[k]

    out["evals"] += 1
    bump(f"calls:{name}")
    bump(f"progress_steps:{name}", trace.steps)
    bump(f"callback_events:{name}", trace.events)
    mx[f"max_i_over_total:{name}"] = max(mx.get(f"max_i_over_total:{name}", 0.0), trace.max_frac)
    if trace.events:
        mx[f"max_callback_progress:{name}"] = max(mx.get(f"max_callback_progress:{name}", 0.0), trace.max_cb)
        mx[f"callback_progress_below_zero:{name}"] = max(mx.get(f"callback_progress_below_zero:{name}", 0.0), max(0.0, -trace.min_cb))

    # progress invariant (recorded whether or not the ValueError escaped)
    seen = set()
    for r in trace.overruns:
        key = f"C18/{name}/progress-overrun@{r['caller']}"
        if key in seen:
            continue
        seen.add(key)
        swallowed = exc is None or not describe(exc)["progress"]
        bad(key, f"Progress left its range: i={r['i']} total={r['total']} after {r['op']} in {r['caller']} (message {r['message']!r}); "
                 + ("the resulting ValueError was swallowed" if swallowed else f"escaped as {type(exc).__name__}: {str(exc)[:120]}"), {"progress": r})
    for r in trace.bad_events[:2]:
        bad(f"C18/{name}/callback-{r['kind']}", f"callback received progress={r['progress']} message={r['message']} (step taken in {r['caller']})", {"event": r})

    # outcome
    if exc is None:
        want = _result_types()[ep]
        if isinstance(res, want):
            outcome = "result"
            bump(f"{name}:result")
            for p0 in trace.objs:
                try:
                    short = 1.0 - (p0._i / p0._total)
                    mx[f"progress_shortfall:{name}"] = max(mx.get(f"progress_shortfall:{name}", 0.0), short)
                except Exception:
                    pass
        else:
            outcome = "crash"
            bad(f"C18/{name}/returned:{type(res).__name__}", f"returned {type(res).__name__} instead of {want.__name__}")
    else:
        kind, d = classify(exc)
        origin = d["site"] + (f"<-{d['foreign'].split(':')[0]}" if d["foreign"] else "")  # foreign package only: function names are version detail
        if kind == "refused":
            outcome = "refused"
            bump(f"{name}:refused:{d['type']}@{d['site']}")
            b = "0" if trace.steps <= 1 else ("1-3" if trace.steps <= 4 else "4+")
            bump(f"refusal_after_progress_steps[{b}]")
            mx[f"refused_at_i_over_total:{name}"] = max(mx.get(f"refused_at_i_over_total:{name}", 0.0), trace.max_frac)
        else:
            outcome = "crash"
            bump(f"{name}:crash:{d['type']}@{origin}")
            ent = d["entry"] or name
            if d["progress"] and trace.overruns:
                pass  # already reported as progress-overrun
            else:
                key = known_key(ent, ep, opts, exc, d, n)
                if key is None:
                    key = f"C18/{ent}/crash:{d['type']}@{origin}" + (":sparse" if sparse and ent == "kk" else (":n<3" if n < 3 and ent != "kk" else ""))
                bad(key, f"aborted part-way with {d['type']}: {str(exc)[:160]} at {d['where']}" + (" (raised in a pool worker)" if d["remote"] else "")
                         + f" after {trace.steps} progress steps (max i/total {trace.max_frac:.2f})", {"origin": d, "traceback": monitors.tb_tail(exc, 8)})
    out["keys"].append(_cell(ep, opts) + (("sparse" if sparse else "ordinary"), n % 2))
    cellname = {"kk": lambda: f"test={opts.get('test', 'real')}", "zhit": lambda: f"smoothing={opts.get('smoothing', 'modsinc')}",
                "fit": lambda: f"method={opts.get('method', 'auto') if isinstance(opts.get('method', 'auto'), str) else 'list'}",
                "drt": lambda: f"method={name}"}[ep]()
    bump(f"cell:{ep}:{cellname}:{outcome}")
    smp = out.setdefault("sample", None) or {}
    if outcome not in smp and len(smp) < 3:
        smp[outcome] = {"entry": name, "options": opts, "n": n, "points_per_decade": round(ppd, 2), "outcome": outcome,
                        "exception": (f"{type(exc).__name__}: {str(exc)[:120]}" if exc is not None else None),
                        "progress_steps": trace.steps, "callback_events": trace.events, "max_i_over_total": round(trace.max_frac, 4),
                        "progress_objects": [(str(p._message)[:40], int(p._i), int(p._total)) for p in trace.objs[:4]], "seconds": round(dt, 3)}
        out["sample"] = smp
    return outcome


def known_key(ent, ep, opts, exc, d, n):
    """Narrow keys of mechanisms that are listed as open known findings (structural predicates only)."""
    msg = str(exc)
    foreign = d["foreign"] or ""
    if ent == "tr-nnls" and isinstance(exc, RuntimeError) and msg.startswith("Maximum number of iterations") and foreign.endswith(":nnls") \
            and int(opts.get("max_iter", -1)) < 1:
        return "C18/tr-nnls/nnls-maxiter"
    if ent == "tr-nnls" and ep == "drt" and type(exc) is RuntimeError and msg.startswith("Maximum number of iterations reached") \
            and foreign.endswith(":nnls") and d["site"] == "_solve" and "max_iter" in opts and int(opts["max_iter"]) >= 1:
        return "C18/tr-nnls/nnls-maxiter:explicit-max_iter"  # the caller's explicit budget is handed to scipy, whose RuntimeError escapes
    if ent == "kk" and isinstance(exc, AssertionError) and "daemonic processes are not allowed to have children" in msg:
        if ep != "kk" or (opts.get("test") == "cnls" and int(opts.get("num_F_ext_evaluations", 20)) > 0 and int(opts.get("num_procs", -1)) != 1):
            return "C18/kk/cnls-nested-pool"
    if ent == "kk" and type(exc) is ValueError and msg.startswith("NaN values detected") and foreign.startswith("lmfit:") \
            and "_use_cnls" in d.get("funcs", []):
        return "C18/kk/cnls-lmfit-nan-valueerror"
    if ent == "kk" and type(exc).__name__ == "AbortFitException" and foreign.startswith("lmfit:") and d["site"] == "_evaluate_log_F_ext_using_lmfit" \
            and (ep != "kk" or int(opts.get("num_F_ext_evaluations", 20)) < 0):
        return "C18/kk/lmfit-abortfit-after-differential-evolution"
    if ent == "bht" and type(exc).__name__ == "LinAlgError" and ("_perform_attempts" in d.get("funcs", []) or "_hilbert_transform_process" in d.get("funcs", [])):
        return "C18/bht/all-attempts-failed:LinAlgError"
    if ent == "zhit" and ep == "zhit" and type(exc) is ValueError and d["site"] == "_smooth_phase" and int(opts.get("num_points", 3)) > n:
        return "C18/zhit/num_points-exceeds-data"  # fixed in 6cfc611; fires again if the up-front check disappears
    return None


def _fmt(opts):
    return ", ".join(f"{k}={v!r}" for k, v in opts.items())


# ------------------------------------------------------------------------------------------------
# option cells
# ------------------------------------------------------------------------------------------------
def pairwise(factors, rng, tries=30):
    """Greedy pairwise-covering rows over {name: [levels]} (deterministic in rng)."""
    names = list(factors)
    unc = set()
    for a in range(len(names)):
        for b in range(a + 1, len(names)):
            for x in range(len(factors[names[a]])):
                for y in range(len(factors[names[b]])):
                    unc.add((a, x, b, y))
    rows = []
    while unc:
        pool = sorted(unc)
        best, best_cov = None, -1
        for _ in range(tries):
            a, x, b, y = pool[int(rng.integers(0, len(pool)))]
            row = [int(rng.integers(0, len(factors[nm]))) for nm in names]
            row[a], row[b] = x, y
            cov = sum(1 for i in range(len(names)) for j in range(i + 1, len(names)) if (i, row[i], j, row[j]) in unc)
            if cov > best_cov:
                best, best_cov = row, cov
        for i in range(len(names)):
            for j in range(i + 1, len(names)):
                unc.discard((i, best[i], j, best[j]))
        rows.append({nm: factors[nm][best[k]] for k, nm in enumerate(names)})
    return rows


def cross(factors):
    import itertools

    names = list(factors)
    return [dict(zip(names, combo)) for combo in itertools.product(*(factors[nm] for nm in names))]


def kk_opts(row, n):
    """row of factor levels -> perform_kramers_kronig_test keyword dict (JSON-able)."""
    test = row["test"]
    max_rc = 2 * n - 5
    if test.endswith("-inv"):
        max_rc = min(n + 10, max_rc)
    numrc = {"auto": 0, "valid": max(2, min(max_rc, n // 2)), "max": max_rc, "over": max_rc + 1, "one": 1, "neg": -1, "neg3": -3}[row["numrc"]]
    lo, hi = KK_GRIDS[row["grid"]]
    o = {"test": test, "num_RC": int(numrc), "add_capacitance": bool(row["C"]), "add_inductance": bool(row["L"]), "admittance": row["adm"],
         "min_log_F_ext": lo, "max_log_F_ext": hi, "log_F_ext": float(row.get("lfe", 0.0)), "num_F_ext_evaluations": int(row["nfe"]),
         "rapid_F_ext_evaluations": bool(row["rapid"]), "num_procs": int(row.get("np", 1))}
    if test == "cnls":
        o["max_nfev"] = int(row.get("max_nfev", CNLS_MAX_NFEV))
    return o


def kk_cost(o, n):
    if o["test"].endswith("-inv") and not o["add_inductance"]:
        return 0.01
    nfe = o["num_F_ext_evaluations"]
    if nfe != 0 and (o["num_RC"] > 0 or abs(nfe) < 10):
        return 0.01
    rep = 2.0 if o["admittance"] is None else 1.0
    scale = (max(n, 6) / 10.0) ** 1.5
    if o["test"] == "cnls":
        if nfe > 0 and o["num_procs"] > 1:
            return 0.3
        return rep * (max(n, 6) / 7.0) ** 2 * (0.8 if nfe == 0 else 5.0) * (0.2 if o["num_RC"] > 0 else 1.0)
    if nfe == 0:
        return rep * 0.15 * scale * (0.1 if o["num_RC"] > 0 else 1.0)
    return rep * scale * 0.9 * (abs(nfe) / 15.0)


def zhit_opts(row):
    npts, order = Z_NUMPTS[row["numpts"]]
    o = {"smoothing": row["smoothing"], "interpolation": row["interpolation"], "admittance": bool(row["adm"]), "num_points": npts,
         "polynomial_order": order, "num_procs": int(row.get("np", 1))}
    if row["window"] == "custom":
        o["weights_kind"] = row.get("weights", "box")
    else:
        o["window"] = row["window"]
    if row.get("place", "data") == "data":
        o["center_on_data"] = True
    return o


def zhit_cost(o, n):
    k = (5 if o["smoothing"] == "auto" else 1) * (4 if o["interpolation"] == "auto" else 1)
    return 0.03 * k * (n / 10.0) ** 2 * 3 + (0.4 if o.get("window") == "auto" else 0.0) * k / 4


def _pack(ep, spectrum, calls, costs, budget, tag):
    """Split a list of calls into cases of roughly `budget` estimated seconds."""
    cases, cur, acc = [], [], 0.0
    for o, c in zip(calls, costs):
        if cur and acc + c > budget:
            cases.append({"kind": "calls", "ep": ep, "spectrum": spectrum, "calls": cur, "cost": round(acc, 2), "tag": tag})
            cur, acc = [], 0.0
        cur.append(o)
        acc += c
    if cur:
        cases.append({"kind": "calls", "ep": ep, "spectrum": spectrum, "calls": cur, "cost": round(acc, 2), "tag": tag})
    return cases


def _kk_models(full, cnls):
    """Factor models.  full -> the complete cross product named in the property.  Otherwise three pairwise models: 'search'
    (automatic num_RC, log F_ext optimised: every row does real work), 'direct' (num_F_ext_evaluations=0) and 'refuse'
    (cells the validation blocks must reject).  cnls rows are generated separately (they run on a smaller spectrum)."""
    tests = ["cnls"] if cnls else KK_TESTS[:6]
    if full:
        return [{"test": tests, "adm": [False, True, None], "C": [True, False], "L": [True, False], "numrc": ["auto", "valid"], "nfe": KK_NFE,
                 "rapid": [True, False], "grid": ["default", "asym", "zero-min"], "np": [1]}]
    if cnls:
        return [
            {"test": tests, "adm": [False, True], "C": [True, False], "L": [True, False], "numrc": ["auto"], "nfe": [-10, 10, 11],
             "rapid": [True, False], "grid": ["default", "asym"], "np": [1, 2]},
            {"test": tests, "adm": [False, True, None], "C": [True, False], "L": [True, False], "numrc": ["auto", "valid", "max"], "nfe": [0],
             "rapid": [True], "grid": ["default"], "lfe": [0.0, 0.7], "np": [1, 2]},
        ]
    return [
        {"test": tests, "adm": [False, True, None], "C": [True, False], "L": [True, False], "numrc": ["auto"], "nfe": [-20, -10, 10, 11, 20],
         "rapid": [True, False], "grid": list(KK_GRIDS), "np": [1, 1, 2]},
        {"test": tests, "adm": [False, True, None], "C": [True, False], "L": [True, False], "numrc": ["auto", "valid", "max"], "nfe": [0],
         "rapid": [True, False], "grid": ["default", "asym"], "lfe": [0.0, 0.7, -0.4], "np": [1, 2]},
        {"test": ["complex", "real-inv", "cnls"], "adm": [False, None], "C": [True], "L": [True, False], "numrc": ["over", "one", "valid", "auto"],
         "nfe": [5, -3, 0, 20, -10], "rapid": [True], "grid": ["default"], "np": [1]},
    ]


def _kk_rows(full, rng, cnls=False):
    rows = []
    for k, fac in enumerate(_kk_models(full, cnls)):
        for r in (cross(fac) if full else pairwise(fac, rng)):
            if not full and k < 2 and r["test"].endswith("-inv"):
                r = dict(r, L=True)  # the matrix-inversion tests require the inductance (refusal cells live in model 3)
            if not full and k == 2 and r["test"] == "cnls" and r["numrc"] == "auto" and r["nfe"] in (20, -10):
                r = dict(r, nfe=0)  # keep the refusal model cheap
            rows.append(r)
    return rows


def _kk_fine_rows(rng, tier):
    """log F_ext search with fine second-stage grids: unusual evaluation budgets x narrow / one-sided ranges x rapid.
    quick: pairwise rows (the heaviest budgets stay in; spectra are short); thorough: complete cross for every linear test."""
    fac = {"test": KK_TESTS[:6], "adm": [False, True], "C": [True, False], "L": [True], "numrc": ["auto"],
           "nfe": [13, 30, 60, 100, -30, -100] if tier == "quick" else KK_NFE_FINE,  # 150 and -150 only in thorough (cost)
           "rapid": [True, False], "grid": ["default", "narrow", "tiny-one-sided", "narrow-asym", "tiny"] + ([] if tier == "quick" else ["one-sided-wide", "asym"]),
           "np": [1, 2]}
    if tier == "quick":
        rows = pairwise(fac, rng)
    else:
        rows = cross(dict(fac, adm=[False], C=[True], np=[1])) + pairwise(fac, rng)
    # refusal cells: 0 < |num_F_ext_evaluations| < 10 on every range
    rows += pairwise({"test": ["complex", "real-inv"], "adm": [False, None], "C": [True], "L": [True], "numrc": ["auto"], "nfe": KK_NFE_REFUSED,
                      "rapid": [True, False], "grid": ["default", "narrow", "tiny-one-sided"], "np": [1]}, rng)
    return rows


def _zhit_models(full):
    if full:
        return [{"smoothing": Z_SMOOTH, "interpolation": Z_INTERP, "adm": [False, True], "window": ["custom", "boxcar", "hann", "auto"],
                 "numpts": ["3/2", "5/2", "4/2"], "place": ["data"], "weights": ["box"], "np": [1]}]
    return [
        {"smoothing": Z_SMOOTH, "interpolation": Z_INTERP, "adm": [False, True], "window": Z_WINDOWS, "numpts": ["3/2", "5/2", "4/2", "5/4"],
         "place": ["data", "data", "default"], "weights": ["box", "ones", "ramp"], "np": [1, 1, 2]},
        {"smoothing": ["modsinc", "savgol", "whithend", "lowess", "auto"], "interpolation": ["makima"], "adm": [False], "window": ["custom", "boxcar"],
         "numpts": ["2/1", "3/3", "1/2"], "place": ["data"], "weights": ["short", "zeros", "box"], "np": [1]},
    ]


def _zhit_rows(full, rng):
    rows = []
    for fac in _zhit_models(full):
        rows.extend(cross(fac) if full else pairwise(fac, rng))
    return rows


def _drt_calls(rng, n, tier):
    calls = []
    for mode in ["real", "imaginary", "complex"]:
        for lv in [1e-3, 0.0, -1.0, -2.0]:
            for mi in [-1, 100000]:
                calls.append(({"method": "tr-nnls", "mode": mode, "lambda_value": lv, "max_iter": mi}, 0.05))
    calls.append(({"method": "tr-nnls", "mode": "both"}, 0.01))
    calls.append(({"method": "tr-nnls"}, 0.05))
    neven = n - (n % 2)
    for mo in sorted({0, 1, 3, max(1, neven), neven + 1}):
        for mom in ["matrix_rank", "pseudo_chisqr"]:
            c = 0.05 if not (mo < 1 and mom == "pseudo_chisqr") else 1.0 + 0.15 * n
            calls.append(({"method": "lm", "model_order": int(mo), "model_order_method": mom, "num_procs": 1}, c))
    calls.append(({"method": "lm", "model_order_method": "rank"}, 0.01))
    calls.append(({"method": "tr-rbf", "num_procs": 1}, 0.01))
    calls.append(({"method": "tr-rbf", "mode": "real", "lambda_value": 1e-3, "cross_validation": "", "num_procs": 1}, 0.01))
    calls.append(({"method": "loewner"}, 0.01))
    return calls


def _bht_rows(rng, full):
    fac = {"rbf_type": BHT_RBF, "derivative_order": [1, 2], "rbf_shape": ["fwhm", "factor"], "num_procs": [1, 2], "num_attempts": [1, 3]}
    rows = cross({k: v for k, v in fac.items() if k != "num_attempts"}) if full else pairwise(fac, rng)
    out = []
    for r in rows:
        o = {"method": "bht", "rbf_type": r["rbf_type"], "derivative_order": r["derivative_order"], "rbf_shape": r["rbf_shape"], "shape_coeff": 0.5,
             "num_samples": 200, "num_attempts": int(r.get("num_attempts", 2)), "num_procs": r["num_procs"]}
        out.append(o)
    return out


def _fit_calls(rng, tier, cdcs):
    calls = []
    for cdc in cdcs:
        for m in FIT_METHODS:
            for wt in FIT_WEIGHTS:
                calls.append(({"cdc": cdc, "method": m, "weight": wt, "num_procs": 1, "max_nfev": 400}, 0.4))
    cdc = cdcs[0]
    calls.append(({"cdc": cdc, "method": ["leastsq", "nelder", "powell"], "weight": ["boukamp", "unity"], "num_procs": 1, "max_nfev": 200}, 1.5))
    calls.append(({"cdc": cdc, "method": ["least_squares", "least_squares"], "weight": "auto", "num_procs": 2, "max_nfev": 200}, 1.5))
    calls.append(({"cdc": cdc, "method": "auto", "weight": ["modulus"], "num_procs": 2, "max_nfev": 100}, 2.0))
    calls.append(({"cdc": cdc, "method": "auto", "weight": "auto", "num_procs": 2, "max_nfev": 60}, 4.0))
    calls.append(({"cdc": cdc, "method": "leastsq", "weight": "boukamp", "num_procs": 1, "timeout": 60}, 0.5))
    calls.append(({"cdc": cdc, "method": ["leastsq", "tnc"], "weight": "proportional", "num_procs": 1, "timeout": 60, "max_nfev": 200}, 1.0))
    calls.append(({"cdc": cdc, "method": "leastsq", "weight": "boukamp", "num_procs": 1}, 0.5))
    calls.append(({"cdc": cdc, "method": [], "weight": "auto", "num_procs": 1}, 0.01))
    calls.append(({"cdc": cdc, "method": "newton", "weight": "auto", "num_procs": 1}, 0.01))
    calls.append(({"cdc": cdc, "method": "leastsq", "weight": "statistical", "num_procs": 1}, 0.01))
    calls.append(({"cdc": cdc, "method": "leastsq", "weight": "boukamp", "num_procs": 1, "timeout": -1}, 0.01))
    return calls


def _numeric_extremes(n):
    """Documented numeric options at their extremes and at unusual interior values: {entry point: [(options, cost)]}."""
    kk = []
    for lfe in (-2.0, 3.0, 1e-9, -10.0, 10.0):
        kk.append(({"test": "complex", "num_RC": max(2, n // 2), "num_F_ext_evaluations": 0, "log_F_ext": lfe, "admittance": False, "num_procs": 1}, 0.05))
        kk.append(({"test": "real-inv", "num_F_ext_evaluations": 0, "log_F_ext": lfe, "num_procs": 1}, 0.3))
    for mn, to in ((1, 60), (5, 60), (0, 1), (100, 1)):
        kk.append(({"test": "cnls", "num_RC": max(2, n // 2), "num_F_ext_evaluations": 0, "admittance": False, "max_nfev": mn, "timeout": to, "num_procs": 2}, 0.6))
    zh = []
    for kw in ({"num_points": n, "polynomial_order": 2, "smoothing": "savgol"}, {"num_points": n, "polynomial_order": n - 1, "smoothing": "savgol"},
               {"num_points": n, "polynomial_order": 2, "smoothing": "whithend"}, {"num_points": n - 1, "polynomial_order": n - 2, "smoothing": "whithend"},
               {"num_points": n, "smoothing": "lowess", "num_iterations": 10}, {"num_points": 1, "smoothing": "lowess"},
               {"num_points": 2, "smoothing": "lowess", "num_iterations": 1}, {"num_points": n, "polynomial_order": 2, "smoothing": "modsinc"},
               {"num_points": 5, "polynomial_order": 10, "smoothing": "modsinc"}, {"num_points": n, "polynomial_order": 10, "smoothing": "modsinc"},
               {"num_points": 2, "polynomial_order": 2, "smoothing": "modsinc"}, {"num_points": 1, "polynomial_order": 2, "smoothing": "modsinc"},
               {"num_points": n, "polynomial_order": 4, "smoothing": "auto"}, {"num_points": n + 1, "polynomial_order": 2, "smoothing": "auto"},
               {"width": 0.01, "center_mid": True}, {"width": 50.0, "center_mid": True}, {"center": -5.0}, {"center": 3.0, "width": 1e-6},
               {"window": "boxcar", "width": 0.3, "center_mid": True}, {"window": "hann", "width": 0.7, "center_mid": True},
               {"window": "auto", "width": 0.2, "center_mid": True}):
        o = dict(kw, num_procs=1)
        if "center" not in o and "width" not in o:
            o["center_on_data"] = True
        zh.append((o, 0.4))
    dr = []
    for lv in (1e-10, 1.0, 1e3, 1e12, -1.5, -1.5000001, -1e9):
        dr.append(({"method": "tr-nnls", "lambda_value": lv, "max_iter": 100000}, 0.05))
    dr.append(({"method": "tr-nnls", "lambda_value": 1e-3, "max_iter": 0}, 0.05))
    for mi in (1, 5):  # explicit tiny iteration budgets (open known finding C18/tr-nnls/nnls-maxiter:explicit-max_iter)
        dr.append(({"method": "tr-nnls", "lambda_value": 1e-3, "max_iter": mi}, 0.05))
        dr.append(({"method": "tr-nnls", "mode": "imaginary", "lambda_value": -1.0, "max_iter": mi}, 0.05))
    for mo in (-1, -5):
        dr.append(({"method": "lm", "model_order": mo, "num_procs": 1}, 0.05))
    for kw in ({"shape_coeff": 0.05}, {"shape_coeff": 5.0}, {"num_samples": 1}, {"maximum_symmetry": 0.0}, {"maximum_symmetry": 1.0}, {"shape_coeff": 0.0},
               {"maximum_symmetry": 1.5}, {"num_attempts": 0}, {"derivative_order": 3}, {"rbf_shape": "factor", "shape_coeff": 100.0}):
        dr.append((dict({"method": "bht", "num_samples": 200, "num_attempts": 3, "num_procs": 1}, **kw), 1.5))
    for kw in ({"gaussian_width": 0.01}, {"gaussian_width": 2.0}, {"num_per_decade": 1}, {"num_per_decade": 0}, {"num_per_decade": 1000}):
        dr.append((dict({"method": "mrq-fit", "cdc": "R(RQ)", "prefit": True, "num_procs": 1}, **kw), 1.0))
    ft = []
    for kw in ({"max_nfev": 1}, {"max_nfev": 5}, {"max_nfev": 0}, {"timeout": 1, "max_nfev": 50}, {"method": "nelder", "max_nfev": 1}, {"method": "powell", "max_nfev": 2},
               {"method": ["leastsq", "slsqp"], "max_nfev": 1}):
        ft.append((dict({"cdc": "R(RC)", "method": "leastsq", "weight": "boukamp", "num_procs": 1}, **kw), 0.3))
    return {"kk": kk, "zhit": zh, "drt": dr, "fit": ft}


MINSIZE_CONFIGS = [
    ("kk", {"num_procs": 1}, "kk:default"),
    ("kk", {"test": "complex", "num_F_ext_evaluations": 0, "num_procs": 1}, "kk:complex,auto num_RC,fixed F_ext"),
    ("kk", {"test": "real", "num_RC": 2, "num_F_ext_evaluations": 0, "admittance": False, "num_procs": 1}, "kk:real,num_RC=2"),
    ("kk", {"test": "complex-inv", "num_F_ext_evaluations": -10, "num_procs": 1}, "kk:complex-inv,differential evolution"),
    ("kk", {"test": "cnls", "num_RC": 2, "num_F_ext_evaluations": 0, "admittance": False, "max_nfev": 20, "num_procs": 1}, "kk:cnls,num_RC=2"),
    ("zhit", {"num_procs": 1, "center_on_data": True}, "zhit:default"),
    ("zhit", {"smoothing": "auto", "interpolation": "auto", "window": "auto", "num_procs": 1, "center_on_data": True}, "zhit:auto"),
    ("zhit", {"smoothing": "none", "interpolation": "cubic", "weights_kind": "ones", "num_procs": 1}, "zhit:none/cubic/custom"),
    ("drt", {"method": "tr-nnls", "max_iter": 100000}, "tr-nnls:default"),
    ("drt", {"method": "tr-nnls", "mode": "imaginary", "lambda_value": -2.0, "max_iter": 100000}, "tr-nnls:imaginary,l-curve"),
    ("drt", {"method": "lm", "num_procs": 1}, "lm:default"),
    ("drt", {"method": "lm", "model_order_method": "pseudo_chisqr", "num_procs": 1}, "lm:pseudo_chisqr"),
    ("drt", {"method": "bht", "num_samples": 200, "num_attempts": 2, "num_procs": 1}, "bht:default"),
    ("drt", {"method": "mrq-fit", "cdc": "R(RQ)", "max_nfev": 30, "num_procs": 2}, "mrq-fit:R(RQ)"),
    ("fit", {"cdc": "R(RC)", "method": "leastsq", "weight": "boukamp", "num_procs": 1}, "fit:R(RC),leastsq"),
    ("fit", {"cdc": "R(RC)", "method": "auto", "weight": "auto", "max_nfev": 60, "num_procs": 2}, "fit:R(RC),auto"),
]
MINSIZE_N = list(range(1, 11))


# ------------------------------------------------------------------------------------------------
# runner API
# ------------------------------------------------------------------------------------------------
def gen_cases(tier, seed):
    rng = np.random.default_rng([int(seed), 18])
    quick = tier == "quick"
    budget = CASE_COST[tier]
    cases = []

    # --- KK
    kk_specs = []
    if quick:
        kk_specs = [(_spec(rng, int(rng.choice([8, 9])), ppd=2), False), (_spec(rng, int(rng.choice([11, 12, 13])), ppd=rng.choice([3, 5])), False)]
    else:
        kk_specs = [(_spec(rng, int(rng.choice([9, 10, 11, 12])), ppd=3), True), (_spec(rng, int(rng.choice([13, 14])), ppd=5, fam=str(rng.choice(["neg", "rl", "cap"]))), True)]
        for nn in (7, 8, 13, 16, 21):
            kk_specs.append((_spec(rng, nn, ppd=rng.choice([2, 3, 5, 8])), False))
    for sp, full in kk_specs:
        rows = _kk_rows(full, rng)
        calls = [kk_opts(r, sp["n"]) for r in rows]
        costs = [kk_cost(o, sp["n"]) for o in calls]
        order = np.argsort(rng.random(len(calls)))
        cases += _pack("kk", sp, [calls[i] for i in order], [costs[i] for i in order], budget, "kk:full-cross" if full else "kk:pairwise")
    # exhaustive cheap block: every (test, representation, C, L) cell at a fixed log F_ext, fixed and automatic num_RC
    sp = _spec(rng, int(rng.choice([8, 9, 10, 11])), ppd=rng.choice([2, 3]))
    rows = cross({"test": KK_TESTS, "adm": [False, True, None], "C": [True, False], "L": [True, False], "numrc": ["valid", "auto", "neg", "neg3"], "nfe": [0],
                  "rapid": [True], "grid": ["default"], "np": [1]})
    # 'automatic' in its other documented spelling (any num_RC below one): a third of the cells
    rows = [r for r in rows if not r["numrc"].startswith("neg") or (r["C"] and not r["L"] and (r["numrc"] == "neg") == (r["adm"] is not True))]
    rows = [r for r in rows if not (r["test"] == "cnls" and r["numrc"] in ("auto", "neg", "neg3"))]
    calls = [kk_opts(r, sp["n"]) for r in rows]
    costs = [kk_cost(o, sp["n"]) for o in calls]
    cases += _pack("kk", sp, calls, costs, budget, "kk:direct-exhaustive")
    # fine second-stage grids of the log F_ext search (short spectra keep 100-150 evaluations cheap)
    fine_specs = [_spec(rng, 8, ppd=int(rng.choice([2, 3])))] if quick else \
        [_spec(rng, 9, ppd=3), _spec(rng, 12, ppd=3, fam="rl"), _spec(rng, 41, ppd=8, fam="rq2", noise=2e-2)]
    for k, sp in enumerate(fine_specs):
        rows = _kk_fine_rows(rng, tier if k == 0 else "quick")
        if sp["n"] > 20:
            rows = [r for r in rows if abs(r["nfe"]) >= 10][::3]
        calls = [kk_opts(r, sp["n"]) for r in rows]
        costs = [0.01 if abs(o["num_F_ext_evaluations"]) < 10 else (0.15 + abs(o["num_F_ext_evaluations"]) / 120.0) * (sp["n"] / 9.0) ** 2 for o in calls]
        order = np.argsort(rng.random(len(calls)))
        cases += _pack("kk", sp, [calls[i] for i in order], [costs[i] for i in order], budget, "kk:fine-grid")
    # cnls runs its own pool per test and is ~50x slower: same models on a 7-point (2 points/decade) spectrum
    sp = _spec(rng, 7, ppd=2, fam=str(rng.choice(["rq2", "rc", "rcw"])))
    rows = _kk_rows(not quick, rng, cnls=True)
    calls = [kk_opts(r, sp["n"]) for r in rows]
    costs = [kk_cost(o, sp["n"]) for o in calls]
    order = np.argsort(rng.random(len(calls)))
    cases += _pack("kk", sp, [calls[i] for i in order], [costs[i] for i in order], budget, "kk:cnls-full-cross" if not quick else "kk:cnls-pairwise")
    # the nested-pool cell and the log_F_ext knob, always present
    sp = _spec(rng, 8, ppd=2, fam="rq2")
    extra = [
        {"test": "cnls", "num_procs": 2, "max_nfev": 100, "admittance": False, "num_F_ext_evaluations": 10},
        {"test": "cnls", "num_procs": 2, "max_nfev": 0, "admittance": False, "num_RC": 5, "num_F_ext_evaluations": 0},
        {"test": "complex", "num_procs": 2},
        {"test": "real", "num_procs": 2, "num_F_ext_evaluations": 11, "min_log_F_ext": -0.5, "max_log_F_ext": 1.5},
        {"test": "imaginary", "num_RC": 6, "num_F_ext_evaluations": 0, "log_F_ext": 0.7, "num_procs": 1},
        {"test": "real-inv", "num_RC": 0, "num_F_ext_evaluations": 0, "log_F_ext": -0.4, "admittance": True, "num_procs": 1},
        {"test": "complex", "min_log_F_ext": 0.5, "num_procs": 1},
        {"test": "complex", "max_log_F_ext": 0.0, "num_procs": 1},
        {"test": "bogus", "num_procs": 1},
        {"test": "bogus", "num_RC": 3, "num_F_ext_evaluations": 0, "num_procs": 1},
    ]
    cases += _pack("kk", sp, extra, [8, 2, 2, 2, 0.1, 0.3, 0.01, 0.01, 0.01, 0.01], budget, "kk:extra")
    # inputs of repaired defects (must keep working): singular normal matrix of complex-inv at 21 points / 10 per decade;
    # failed target-num_RC estimate + NaN line fit on a negative-resistance spectrum at 25 points / 5 per decade
    sp = {"n": 21, "ppd": 10.0, "logf0": 4.0, "fam": "rc", "noise": 0.0, "seed": [18, 1, 1]}
    cases += _pack("kk", sp, [{"test": "complex-inv", "num_procs": 1}, {"test": "complex-inv", "admittance": True, "num_F_ext_evaluations": 10, "num_procs": 1}],
                   [3, 2], budget, "kk:regress")
    sp = {"n": 25, "ppd": 5.0, "logf0": 4.0, "fam": "neg", "noise": 0.0, "seed": [18, 1, 2]}
    cases += _pack("kk", sp, [{"test": "imaginary-inv", "admittance": True, "num_procs": 1}, {"test": "real", "admittance": True, "num_F_ext_evaluations": 10, "num_procs": 1}],
                   [3, 2], budget, "kk:regress")
    # sparse class (known finding F20): a few default runs at 1 point/decade and below 7 points
    for nn, ppd in ([(5, 2), (13, 1)] if quick else [(3, 2), (4, 1), (5, 2), (6, 3), (9, 1), (13, 1), (14, 1)]):
        sp = _spec(rng, nn, ppd=ppd)
        calls = [{"num_procs": 1}, {"test": "complex", "num_F_ext_evaluations": -10, "num_procs": 1}, {"test": "real-inv", "admittance": True, "num_procs": 1}]
        cases += _pack("kk", sp, calls, [1.0] * len(calls), budget, "kk:sparse")

    # --- Z-HIT
    if quick:
        z_specs = [(_spec(rng, int(rng.choice([7, 8])), ppd=2), False), (_spec(rng, int(rng.choice([12, 13])), ppd=rng.choice([3, 5]), fam="neg"), False)]
    else:
        z_specs = [(_spec(rng, int(rng.choice([10, 11])), ppd=3), True), (_spec(rng, 9, ppd=2, fam="neg"), True)]
        for nn, fam in ((7, None), (9, "neg"), (16, None), (21, "cap")):
            z_specs.append((_spec(rng, nn, fam=fam), False))
    for sp, full in z_specs:
        rows = _zhit_rows(full, rng)
        calls = [zhit_opts(r) for r in rows]
        costs = [zhit_cost(o, sp["n"]) for o in calls]
        order = np.argsort(rng.random(len(calls)))
        cases += _pack("zhit", sp, [calls[i] for i in order], [costs[i] for i in order], budget, "zhit:full-cross" if full else "zhit:pairwise")
    sp = _spec(rng, 12, ppd=3, fam="rq2")
    zextra = [{"smoothing": "spline", "num_procs": 1, "center_on_data": True}, {"interpolation": "linear", "num_procs": 1, "center_on_data": True},
              {"window": "kaiser", "num_procs": 1, "center_on_data": True}, {"num_iterations": 0, "num_procs": 1}, {"width": 0.0, "num_procs": 1},
              {"smoothing": "modsinc", "polynomial_order": 3, "num_points": 5, "num_procs": 1, "center_on_data": True},
              {"smoothing": "modsinc", "polynomial_order": 12, "num_points": 13, "num_procs": 1, "center_on_data": True},
              {"smoothing": "lowess", "num_iterations": 5, "num_points": 12, "num_procs": 1, "center_on_data": True},
              {"smoothing": "whithend", "polynomial_order": 6, "num_points": 9, "num_procs": 1, "center_on_data": True},
              {"smoothing": "savgol", "polynomial_order": 2, "num_points": 30, "num_procs": 1, "center_on_data": True},
              {"smoothing": "auto", "interpolation": "auto", "window": "auto", "num_procs": 2, "center_on_data": True},
              {"center": 9.0, "width": 0.5, "num_procs": 1}]
    cases += _pack("zhit", sp, zextra, [0.3] * 10 + [3.0, 0.3], budget, "zhit:extra")

    # --- DRT
    d_sizes = [7, 12] if quick else [7, 8, 12, 15, 20, 30]
    for k, nn in enumerate(d_sizes):
        sp = _spec(rng, nn, fam=["rq2", "rc", "rcw", "rq2", "rl", "rc"][k % 6])
        dc = _drt_calls(rng, nn, tier)
        cases += _pack("drt", sp, [c for c, _ in dc], [x for _, x in dc], budget, "drt:tr-nnls/lm")
    # long smooth single-arc spectra: tr-nnls only (scipy's nnls iteration budget, known finding F21)
    for k, nn in enumerate([41, 61] if quick else [31, 41, 41, 61, 61, 81]):
        sp = _spec(rng, nn, ppd=rng.choice([5, 10]), fam="rq1", noise=0.0)
        sp["logf0"] = 5.0
        dc = [c for c in _drt_calls(rng, nn, tier) if c[0].get("method") == "tr-nnls"]
        cases += _pack("drt", sp, [c for c, _ in dc], [0.1 for _ in dc], budget, "drt:tr-nnls-long")
    for k, nn in enumerate([10] if quick else [9, 14]):
        sp = _spec(rng, nn, fam="rq2" if k == 0 else "rc")
        rows = _bht_rows(rng, full=(not quick and k == 0))
        if quick:
            rows = rows[:20]
        cases += _pack("drt", sp, rows, [0.8 + 0.1 * nn] * len(rows), budget, "drt:bht")
    sp = _spec(rng, 15, ppd=5, fam="rq2", noise=1e-3)
    mrq = [{"method": "mrq-fit", "cdc": "R(RQ)(RQ)", "prefit": True, "num_procs": 1},
           {"method": "mrq-fit", "cdc": "R(RQ)", "max_nfev": 30, "num_procs": 2},
           {"method": "mrq-fit", "cdc": "R(RC)(RQ)", "prefit": True, "gaussian_width": 0.3, "num_per_decade": 20, "num_procs": 1},
           {"method": "mrq-fit", "cdc": "R(RC)C", "prefit": False, "max_nfev": 30, "num_procs": 1},
           {"method": "mrq-fit", "cdc": "R(RQ)", "prefit": True, "gaussian_width": 0.0, "num_procs": 1}]
    if not quick:
        mrq.append({"method": "mrq-fit", "cdc": "R(RQ)(RQ)", "num_procs": 2})
    cases += _pack("drt", sp, mrq, [1, 4, 1, 0.1, 0.5, 20][: len(mrq)], budget, "drt:mrq-fit")

    # --- fit
    f_specs = [(_spec(rng, 9, fam="rq2"), FIT_CDCS[:2])] if quick else [(_spec(rng, 9, fam="rq2"), FIT_CDCS), (_spec(rng, 16, fam="rl"), FIT_CDCS), (_spec(rng, 7, ppd=2, fam="rc"), FIT_CDCS[:2]), (_spec(rng, 30, fam="rcw"), FIT_CDCS[:1])]
    for sp, cdcs in f_specs:
        fc = _fit_calls(rng, tier, cdcs)
        cases += _pack("fit", sp, [c for c, _ in fc], [x for _, x in fc], budget, "fit:cells")

    # --- numeric options at their extremes / unusual interior values (all entry points)
    for k, nn in enumerate([int(rng.choice([9, 10, 11, 12]))] if quick else [9, 12, 20]):
        sp = _spec(rng, nn, ppd=3, fam=["rq2", "rcw", "rl"][k % 3])
        for ep, lst in _numeric_extremes(nn).items():
            cases += _pack(ep, sp, [c for c, _ in lst], [x for _, x in lst], budget, "numeric:" + ep)

    # --- smallest accepted spectrum per entry point
    for ci, (ep, opts, label) in enumerate(MINSIZE_CONFIGS):
        cases.append({"kind": "minsize", "ep": ep, "opts": opts, "label": label, "seed": [int(seed), 18, 1000 + ci], "cost": 6.0, "tag": "minsize"})

    # input of the repaired lmfit AbortFitException escape (differential evolution stopping exactly at max_nfev); needs the global seed
    f8 = [1e5, 31622.776601683792, 1e4, 3162.2776601683795, 1e3, 316.2277660168379, 100.0, 31.622776601683793]
    z8 = [[10.113654, -16.235479], [23.475579, -34.161603], [57.11541, -61.894098], [121.042881, -80.945787], [188.467161, -68.49717],
          [230.10726, -44.034584], [252.302531, -24.895395], [262.671933, -12.292138]]
    for rs in (0, 1):
        cases.append({"kind": "explicit", "ep": "kk", "opts": {"test": "real-inv", "num_F_ext_evaluations": -100, "admittance": False, "num_procs": 1},
                      "f": f8, "Z": z8, "rseed": rs, "cost": 0.7, "tag": "kk:regress"})
    for k, c in enumerate(cases):
        c.setdefault("rseed", int(seed) * 100000 + k)
    cases.sort(key=lambda c: -c.get("cost", 1.0))
    return cases


def setup_shard():
    install_progress_monitor()
    from pyimpspec.analysis.utility import set_default_num_procs

    set_default_num_procs(2)
    if os.environ.get("VERIF_TIER") == "thorough":
        _install_handled_counter()


def shard_report():
    rep = dict(monitors.COUNTERS)
    for k, v in HANDLED.items():
        rep["handled:" + k] = v
    return rep


def _new_out():
    return {"evals": 0, "keys": [], "viol": [], "stats": {}, "maxobs": {}, "sample": None}


def run_case(case):
    install_progress_monitor()
    out = _new_out()
    monitors.drain()
    if case["kind"] == "explicit":
        f = np.array(case["f"], dtype=float)
        Z = np.array([complex(a, b) for a, b in case["Z"]])
        run_call(case["ep"], case["opts"], f, Z, out, rseed=case.get("rseed", 0))
    elif case["kind"] == "calls":
        f, Z = make_spectrum(case["spectrum"])
        for k, opts in enumerate(case["calls"]):
            run_call(case["ep"], opts, f, Z, out, rseed=1000 * int(case.get("rseed", 0)) + k)
        out["stats"]["cases:" + case.get("tag", "?")] = 1
    elif case["kind"] == "minsize":
        rng = np.random.default_rng(case["seed"])
        table = {}
        for n in MINSIZE_N:
            sp = _spec(rng, n, ppd=2, fam="rq2", noise=1e-3)
            sp["logf0"] = 4.0
            f, Z = make_spectrum(sp)
            table[n] = run_call(case["ep"], case["opts"], f, Z, out, rseed=n)
        out["agg"] = {"minsize": case["label"], "table": table}
    for r in monitors.drain():
        out["viol"].append({"key": "C18/monitor", "msg": r["msg"], "witness": r.get("witness") or {}})
    if out.get("budget"):
        out["agg"] = dict(out.get("agg") or {}, budget=out["budget"])
    out["viol"] = out["viol"][:40]
    return out


def finalize(agg):
    inc = []
    mon, st = agg["monitors"], agg["stats"]
    if mon.get("Progress.invariant", 0) == 0:
        inc.append("Progress invariant never evaluated")
    if mon.get("callback.events", 0) == 0:
        inc.append("no callback event was ever delivered")
    for ep in ("kk", "zhit", "tr-nnls", "lm", "bht", "fit"):
        if st.get(f"{ep}:result", 0) == 0:
            inc.append(f"no completed call observed for {ep}")
    info = {"smallest_accepted": {}, "handled_exceptions_inside_library": {k[8:]: v for k, v in sorted(mon.items()) if k.startswith("handled:")}}
    budget = []
    for a in agg["aggs"]:
        if not isinstance(a, dict):
            continue
        budget.extend(a.get("budget", []))
        if "minsize" in a:
            tab = {int(k): v for k, v in a["table"].items()}
            done = sorted(n for n, v in tab.items() if v == "result")
            first = done[0] if done else None
            stable = None
            for n in sorted(tab, reverse=True):
                if tab[n] == "result":
                    stable = n
                else:
                    break
            info["smallest_accepted"][a["minsize"]] = {"smallest_n_completed": first, "all_complete_from_n": stable,
                                                       "outcomes_n1_to_n10": "".join({"result": "R", "refused": "r", "crash": "X", "budget": "?"}.get(tab.get(n), "-") for n in MINSIZE_N)}
    if budget:
        inc.append(f"{len(budget)} call(s) exceeded the {CALL_BUDGET:.0f}s budget: {budget[:3]}")
    return {"viol": [], "inconclusive": inc, "info": info}
