"""C06 - writing a spectrum to a supported file layout and parsing it returns it.

Shape: generator-is-the-oracle.  The harness writes a spectrum as a delimited text table (every documented header
alias x letter case x negation marker x cartesian/polar x separator x decimal mark x row order x 1..3 sweeps) or in
one of the six simple instrument layouts (.mpt .i2b .P00 .dfr .dta .z, modelled on the sample files in <repo>/tests),
lets the REAL library parse the file (`parse_data` by extension, by `file_format=`, extension-less brute force;
`dataframe_to_data_sets` directly, which is the only place where `degrees=False` exists; the in-process
`pyimpspec parse --output-format csv` whose printed table is parsed again) and compares every returned DataSet with
the spectrum encoded by the very tokens that were written.  A `sys.monitoring` recorder on the parser functions
(no re-binding: the brute-force order depends on the identity of the function objects) reports which parser
answered and proves that the mechanisms named by the property were executed.

Oracle (no more than the statement): number of DataSets == number of sweeps written (.dta with drift correction: the
documented corrected+uncorrected pair), in file order; per DataSet the frequencies (descending) and impedances equal
the written ones within TOL, Im with the documented sign (columns marked with a leading '-'/U+2212 and the -Im
columns of .mpt/.P00/.dfr are negated).  A library exception on such a file is a violation.

Multi-sweep tables (csv/txt, DataFrames, .mpt): all sweeps of a file share the row order and a new sweep begins where
the frequency turns back (that reversal is the only thing that marks a sweep, so descending rows that simply go on
descending are one sweep and are never written as two).  Beyond that the sweeps are unrelated: same grid or a
prefix of it with new impedances, EXACT repeats (bit-identical rows: the whole first sweep written again, an
overlapping slice of the same noise-free spectrum, a single shared row - a repeated row is data, not a duplicate), a later sweep entirely above (descending rows) / below (ascending rows) the first so that the file ends
beyond where it started, shifted, partially overlapping, nested, different lengths, one- and two-point sweeps among
longer ones (never as the first sweep: the first two rows define the row order).  finalize() is INCONCLUSIVE if one of
these kinds was not written.

Latitude / things not demanded: labels, paths and uuids of the returned DataSets; which parser answers as long as the
data are right; files outside the detection contract are never generated (comma decimal with comma separator, header
text containing the separator).  Extension-less tables whose frequency header is literally the signature line of an
instrument layout ('freq/Hz' + tabs = the .mpt table, 'Freq(Hz)' = the .z table) are not generated either: the
documented brute force legitimately reads them as that layout (they are generated with an extension / file_format).
TOL is 1e-9 relative: pandas' python-engine float conversion is not correctly rounded (measured up to 1.0e-12
relative on repr strings such as 0.000101..., 1.8e-12 after the CLI round trip), every mutant effect is >= 4e-2.

Known finding (open): C06/noext-answered-by:parse_i2b:csv - an extension-less space-separated three-column table is
claimed by parse_i2b during the brute force.  One-point tables and decimal-comma tables with "ragged" comma counts
were defects found by this check and repaired in the tree (reverting either repair is a self-test mutant).
"""
import contextlib
import io
import os
import shutil
import sys
import tempfile
import warnings

import numpy as np

from .. import monitors
from .. import c06_files as F

ID = "C06"
RULE = (
    "files are generated from layout configurations: (a) random valid csv cells over 19 dimensions {coords, 5 header "
    "names (documented aliases + to_dataframe defaults + /unit forms), unit suffix, letter case, negation marker on "
    "Re/Im/phase, separator, decimal mark, row order, 1..3 sweeps (later sweeps on the same grid, exact repeats with bit-identical rows, entirely beyond the first, "
    "shifted, nested, anywhere, or 1-2 points long; different lengths), column order, number format, access mode, size class}, "
    "completed so that every feasible PAIR of values is present (quick) ; (b) the block of all (frequency, real, imaginary) and "
    "(frequency, modulus, phase) header-name triples, in thorough crossed exhaustively with case x separator/decimal x "
    "negation markers x row order; (c) the six instrument layouts x variants x row order x access mode; (d) DataFrames "
    "handed to dataframe_to_data_sets (degrees and radians) and DataSet.to_dataframe output; (e) the CLI parse table of a "
    "sample of (a) and (c). Every file is non-trivial (random spectrum, |Z| over 12 decades, all four quadrants); distinct = "
    "distinct layout cells (configuration without seed and values)."
)
ASSUMPTIONS = [
    "pandas.read_csv(engine='python') text->float conversion is accurate to 1e-12 relative (measured 9.8e-13 worst)",
    "python float()/repr() round-trip exactly; cmath.rect/math.radians are the reference for polar columns",
    "the harness writers reproduce the instrument layouts of the sample files in <repo>/tests (self-checked at start-up)",
    "sys.monitoring PY_START/PY_RETURN local events report the parser functions faithfully",
]
SHARDS = 16
CASE_TIMEOUT = 600
MIN_EVALS = 500
TOL = 1e-9
EXHAUSTIVE = False


def BLOCKS(tier):
    if tier == "thorough":
        return {"header_triples_x_case_x_sepdec_x_negation_x_order": {
            "cartesian_triples": len(F.NAMES["f"]) * len(F.NAMES["re"]) * len(F.NAMES["im"]),
            "polar_triples": len(F.NAMES["f"]) * len(F.NAMES["mag"]) * len(F.NAMES["ph"]),
            "case": len(F.CASES), "sep_dec": 7, "negation": "3x3 (cartesian) / 3 (polar)", "order": 2,
            "exhaustive": True, "note": "cells outside the detection contract (space in header with space/semicolon separator) are skipped and counted"}}
    return {"header_triples": {"cartesian_triples": 400, "polar_triples": 200, "repeats": 3, "exhaustive": True,
                               "note": "every triple of header names appears; the other dimensions are drawn at random per file"}}


# ------------------------------------------------------------------------------------------------
# recorder on the real parser functions (sys.monitoring local events; nothing is re-bound)
# ------------------------------------------------------------------------------------------------
class _Recorder:
    TOOL = 4

    def __init__(self):
        self.names = {}
        self.trace = []
        self.installed = False

    def install(self):
        if self.installed:
            return
        import pyimpspec.data.formats as fm
        import pyimpspec.data.data_set as dsm

        mon = sys.monitoring
        mon.use_tool_id(self.TOOL, "verif-c06")
        ev = mon.events
        targets = {}
        for name in ("parse_csv", "parse_dfr", "parse_dta", "parse_i2b", "parse_ids", "parse_mpt", "parse_p00",
                     "parse_spreadsheet", "parse_z", "parse_pssession"):
            targets[name] = getattr(fm, name)
        for name in ("dataframe_to_data_sets", "_detect_columns", "_extract_data", "_split_sweeps"):
            targets[name] = getattr(dsm, name)
        for name, fn in targets.items():
            fn = getattr(fn, "__wrapped__", fn)
            self.names[fn.__code__] = name
            mon.set_local_events(self.TOOL, fn.__code__, ev.PY_START | ev.PY_RETURN)
        mon.register_callback(self.TOOL, ev.PY_START, self._start)
        mon.register_callback(self.TOOL, ev.PY_RETURN, self._return)
        self.installed = True

    def _start(self, code, offset):
        name = self.names.get(code)
        if name is not None:
            monitors.count("start:" + name)
            self.trace.append(("start", name))

    def _return(self, code, offset, retval):
        name = self.names.get(code)
        if name is not None:
            monitors.count("return:" + name)
            self.trace.append(("return", name))

    def reset(self):
        self.trace = []

    def answered_by(self):
        for kind, name in reversed(self.trace):
            if kind == "return" and name.startswith("parse_"):
                return name
        return None

    def tried(self):
        return [n for k, n in self.trace if k == "start" and n.startswith("parse_")]


REC = _Recorder()
_TMP = None


def setup_shard():
    global _TMP
    _TMP = tempfile.mkdtemp(prefix="c06-", dir=os.environ.get("VERIF_SCRATCH") or None)
    cfgdir = os.path.join(_TMP, "xdg")
    os.makedirs(cfgdir, exist_ok=True)
    os.environ["XDG_CONFIG_HOME"] = cfgdir  # the CLI must not read a user configuration
    REC.install()
    import atexit

    atexit.register(shutil.rmtree, _TMP, True)


def shard_report():
    return dict(monitors.COUNTERS)


# ------------------------------------------------------------------------------------------------
# oracle
# ------------------------------------------------------------------------------------------------
def compare(data_sets, expected, norm):
    """Returns (problems, worst_rel, points).  problems: list of (kind, message)."""
    probs = []
    worst = 0.0
    points = 0
    if len(data_sets) != len(expected):
        sizes = []
        for d in data_sets:
            try:
                sizes.append(int(len(d.get_frequencies(masked=None))))
            except Exception:
                sizes.append(-1)
        return [("sweep-count", f"{len(data_sets)} data set(s) with sizes {sizes} returned for {len(expected)} sweep(s) with sizes {[len(e['f']) for e in expected]}")], 0.0, 0
    for k, (ds, ex) in enumerate(zip(data_sets, expected)):
        f = np.asarray(ds.get_frequencies(masked=None), dtype=float)
        Z = np.asarray(ds.get_impedances(masked=None), dtype=complex)
        ef = np.array(ex["f"], dtype=float)
        eZ = np.array(ex["re"], dtype=float) + 1j * np.array(ex["im"], dtype=float)
        o = np.argsort(-ef, kind="stable")
        ef, eZ = ef[o], eZ[o]
        if len(f) != len(ef) or len(Z) != len(ef):
            probs.append(("point-count", f"sweep {k}: {len(f)} frequencies / {len(Z)} impedances returned, {len(ef)} written"))
            continue
        if ds.get_num_points(masked=None) != len(ef) or ds.get_num_points() != len(ef):
            probs.append(("point-count", f"sweep {k}: get_num_points()={ds.get_num_points()} (some points masked?) for {len(ef)} written"))
        if len(f) > 1 and not np.all(np.diff(f) < 0):
            probs.append(("not-descending", f"sweep {k}: returned frequencies are not descending: {f[:5].tolist()}"))
        points += len(ef)
        rf = float(np.max(np.abs(f - ef) / np.abs(ef)))
        if norm:
            rz = float(np.max(np.abs(Z - eZ) / np.abs(eZ)))
        else:
            rz = float(max(np.max(np.abs(Z.real - eZ.real) / np.abs(eZ.real)), np.max(np.abs(Z.imag - eZ.imag) / np.abs(eZ.imag))))
        if not (rf <= TOL):
            i = int(np.argmax(np.abs(f - ef) / np.abs(ef)))
            probs.append(("frequency", f"sweep {k} point {i}: frequency {float(f[i])!r} returned, {float(ef[i])!r} written (rel {rf:.3g})"))
        elif not (rz <= TOL):
            i = int(np.argmax(np.abs(Z - eZ) / np.abs(eZ)))
            tol_abs = 1e-6 * np.abs(eZ)
            if np.all(np.abs(Z - np.conj(eZ)) <= tol_abs):
                kind = "im-sign"
            elif np.all(np.abs(Z + np.conj(eZ)) <= tol_abs):
                kind = "re-sign"
            elif np.all(np.abs(Z + eZ) <= tol_abs):
                kind = "both-signs"
            else:
                kind = "impedance"
            probs.append((kind, f"sweep {k} point {i} (f={float(ef[i])!r}): Z={complex(Z[i])!r} returned, {complex(eZ[i])!r} written (rel {rz:.3g})"))
        else:
            worst = max(worst, rf, rz)
    return probs, worst, points


def _exc_key(job, mode, exc, path):
    """Mechanism key of a library exception: layout + exception type + origin function (never the access mode, which is
    in the message).  The brute force of extension-less files swallows the real exception, so the layout's own parser is
    asked directly for the underlying origin."""
    o = monitors.exception_origin(exc)
    oo = o
    if o["func"] == "_brute_force" and job.get("parser", "").startswith("parse_") and path:
        try:
            import pyimpspec.data.formats as fm

            with warnings.catch_warnings():
                warnings.simplefilter("ignore")
                getattr(fm, job["parser"])(path)
        except Exception as e2:
            oo = monitors.exception_origin(e2)
    if job["n"] == 1 and oo["type"] == "IndexError" and oo["func"] == "_split_sweeps":
        return "C06/single-point-table", o  # the splitter indexes frequency[1]
    if job["layout"] == "csv" and job.get("dec") == "," and oo["type"] == "ParserError" and oo["func"] == "_alert_malformed":
        return "C06/csv/decimal-comma-ragged-rows", o  # first attempt with sep=',' meets rows with different numbers of commas
    return f"C06/{job['layout']}-raised:{oo['type']}@{oo['func']}", o


def _witness(job, extra=None):
    w = {"layout": job["layout"], "mode": job["mode"], "header": job.get("header"), "filename": job.get("filename"),
         "file_head": (job.get("text") or "")[:600], "replay_case": {"kind": "jobs", "jobs": [job]}}
    if extra:
        w.update(extra)
    return w


def _split_cli_tables(out, path):
    """The CLI prints one csv table per data set, separated by blank lines and (if several) preceded by a '<path>: <label>' line."""
    tables = []
    cur = []
    for line in out.split("\n"):
        if line.strip() == "":
            if cur:
                tables.append(cur)
            cur = []
            continue
        if line.startswith(path):
            continue
        cur.append(line)
    if cur:
        tables.append(cur)
    return ["\n".join(t) + "\n" for t in tables]


def run_cli(argv):
    import pyimpspec.cli as cli

    old = sys.argv
    buf = io.StringIO()
    sys.argv = ["pyimpspec"] + list(argv)
    try:
        with contextlib.redirect_stdout(buf):
            cli.main()
    finally:
        sys.argv = old
    return buf.getvalue()


def run_job(job, res):
    """Execute one job against the real library, append violations / statistics to res."""
    from pyimpspec import parse_data
    from pyimpspec.data import dataframe_to_data_sets

    stats, maxobs, viol = res["stats"], res["maxobs"], res["viol"]

    def st(name, n=1):
        stats[name] = stats.get(name, 0) + n

    def mx(name, v):
        maxobs[name] = max(maxobs.get(name, 0.0), float(v))

    def judge(data_sets, mode, answered=None, cell=None, norm=None, path=None):
        try:
            probs, worst, points = compare(data_sets, job["expected"], job["norm"] if norm is None else norm)
        except Exception as e:  # a getter of a returned DataSet raised
            key, o = _exc_key(job, mode, e, path)
            viol.append({"key": key.replace("-raised:", "/getter-raised:"), "msg": monitors.tb_tail(e), "witness": _witness(job)})
            return False
        res["evals"] += len(job["expected"])
        st("datasets_compared", len(job["expected"]))
        st("points_compared", points)
        mx("relerr:" + (cell or job["cell"]), worst)
        for kind, msg in probs:
            if mode == "noext" and answered is not None and answered != job["parser"]:
                key = f"C06/noext-answered-by:{answered}:{job['layout']}"
            else:
                key = f"C06/{job['layout']}/{mode}/{kind}"
            viol.append({"key": key, "msg": f"[{job.get('header')}] {msg}; parser that answered: {answered}",
                         "witness": _witness(job, {"answered_by": answered})})
        return not probs

    layout, mode = job["layout"], job["mode"]
    st("files:" + layout if layout != "df" else "frames:" + mode)
    st("mode:" + mode)
    exp = job["expected"]
    if len(exp) > 1 and layout in ("csv", "df", "mpt"):  # consecutive sweeps in one table (not the .dta corrected/uncorrected pair)
        f0, f1, fl = exp[0]["f"][0], exp[0]["f"][1], exp[-1]["f"][-1]
        st("multi_sweep_tables")
        if (fl >= f0) if f0 > f1 else (fl <= f0):
            st("multi_sweep_tables:last_row_beyond_first_row")
        if len({len(e["f"]) for e in exp}) > 1:
            st("multi_sweep_tables:sweeps_of_different_length")
        if any(len(e["f"]) == 1 for e in exp):
            st("multi_sweep_tables:with_one_point_sweep")
        if any(max(e["f"]) < min(exp[0]["f"]) or min(e["f"]) > max(exp[0]["f"]) for e in exp[1:]):
            st("multi_sweep_tables:with_sweep_disjoint_from_first")
        rows0 = set(zip(exp[0]["f"], exp[0]["re"], exp[0]["im"]))
        shared = [sum(r in rows0 for r in zip(e["f"], e["re"], e["im"])) for e in exp[1:]]
        if any(shared):
            st("multi_sweep_tables:with_row_identical_to_earlier_sweep")
        if any(c == len(rows0) == len(e["f"]) for c, e in zip(shared, exp[1:])):
            st("multi_sweep_tables:with_whole_sweep_repeated_exactly")

    # ---- DataFrame jobs --------------------------------------------------------------------------
    if layout == "df":
        from pandas import DataFrame
        from pyimpspec import DataSet

        REC.reset()
        try:
            with warnings.catch_warnings():
                warnings.simplefilter("ignore")
                if mode == "emit":
                    em = job["emit"]
                    src = DataSet(np.array(em["f"]), np.array([complex(a, b) for a, b in em["Z"]]))
                    df = src.to_dataframe(columns=list(job["columns"]), negative_imaginary=em["negative_imaginary"], negative_phase=em["negative_phase"])
                else:
                    df = DataFrame({c: np.array(v, dtype=float) for c, v in zip(job["columns"], job["data"])})
                out = dataframe_to_data_sets(df, path="", label="frame", degrees=job["degrees"])
        except Exception as e:
            key, o = _exc_key(job, mode, e, None)
            viol.append({"key": key, "msg": f"[{job.get('header')}] " + monitors.tb_tail(e), "witness": _witness(job)})
            return
        judge(out, mode)
        if mode == "emit":
            # the emitted table written with pandas and read back through parse_data
            path = os.path.join(_TMP, "emit.csv")
            try:
                df.to_csv(path, index=False, sep=job["emit"]["sep"])
                st("files:emit-to_csv")
                with warnings.catch_warnings():
                    warnings.simplefilter("ignore")
                    out = parse_data(path)
            except Exception as e:
                key, o = _exc_key(job, "emit-csv", e, path)
                viol.append({"key": key, "msg": f"[{job.get('header')}] sep={job['emit']['sep']!r} " + monitors.tb_tail(e), "witness": _witness(job)})
                return
            judge(out, "emit-csv", cell="df:emit-csv")
        return

    # ---- file jobs -------------------------------------------------------------------------------
    d = os.path.join(_TMP, "w")
    shutil.rmtree(d, ignore_errors=True)
    os.makedirs(d)
    path = os.path.join(d, job["filename"])
    with open(path, "w", encoding=job["encoding"], newline="") as fp:
        fp.write(job["text"])
    kwargs = {"file_format": job["file_format"]} if job.get("file_format") else {}
    REC.reset()
    ok = False
    try:
        with warnings.catch_warnings():
            warnings.simplefilter("ignore")
            out = parse_data(path, **kwargs)
    except Exception as e:
        key, o = _exc_key(job, mode, e, path)
        viol.append({"key": key, "msg": f"[{job.get('header')}] parse_data({job['filename']!r}{', file_format=' + repr(job['file_format']) if kwargs else ''}) raised; tried {REC.tried()}\n" + monitors.tb_tail(e),
                     "witness": _witness(job, {"origin": o})})
    else:
        answered = REC.answered_by()
        st("answered_by:" + str(answered) + ":" + layout)
        ok = judge(out, mode, answered=answered, path=path)

    if job.get("cli"):
        st("cli_runs")
        try:
            with warnings.catch_warnings():
                warnings.simplefilter("ignore")
                printed = run_cli(["parse", path, "--output-format", "csv"])
        except SystemExit as e:
            raise RuntimeError(f"harness: CLI rejected its arguments ({e})")
        except Exception as e:
            key, o = _exc_key(job, "cli", e, path)
            if not ok:
                st("cli_skipped_after_parse_failure")  # same failure as the plain parse above, already reported
                return
            key = key.replace("-raised:", "/cli-raised:")
            viol.append({"key": key, "msg": f"[{job.get('header')}] pyimpspec parse {job['filename']} --output-format csv raised\n" + monitors.tb_tail(e),
                         "witness": _witness(job, {"origin": o})})
            return
        if not ok:  # only blame the CLI when the plain parse of the same file was right
            st("cli_skipped_after_parse_failure")
            return
        tables = _split_cli_tables(printed, path)
        st("cli_tables", len(tables))
        got = []
        for t_i, t in enumerate(tables):
            p2 = os.path.join(d, "cli_%d.csv" % t_i)
            with open(p2, "w", encoding="utf-8", newline="") as fp:
                fp.write(t)
            try:
                with warnings.catch_warnings():
                    warnings.simplefilter("ignore")
                    got.extend(parse_data(p2))
            except Exception as e:
                o = monitors.exception_origin(e)
                key = "C06/single-point-table" if (job["n"] == 1 and o["type"] == "IndexError" and o["func"] == "_split_sweeps") else f"C06/cli-table-reparse-raised:{o['type']}@{o['func']}"
                viol.append({"key": key, "msg": f"the table printed by the CLI could not be parsed: {t[:300]!r}\n" + monitors.tb_tail(e),
                             "witness": _witness(job, {"printed": printed[:1500]})})
                return
        n0 = len(viol)
        judge(got, "cli", cell="cli", norm=True)
        for v in viol[n0:]:
            v["witness"]["printed"] = printed[:1500]


# ------------------------------------------------------------------------------------------------
# case generation
# ------------------------------------------------------------------------------------------------
QUICK = {"rand_csv": 14000, "triple_rep": 3, "inst": 400, "df": 3000, "batch": 100}
THOROUGH = {"rand_csv": 100000, "inst": 6000, "df": 40000, "batch": 250}


def _rand_csv_configs(seed_list, count):
    rng = np.random.default_rng(seed_list)
    return [F.random_csv_config(rng) for _ in range(count)]


def _triple_list(coords):
    a, b = ("re", "im") if coords == "cart" else ("mag", "ph")
    return [(i, j, k) for i in range(len(F.NAMES["f"])) for j in range(len(F.NAMES[a])) for k in range(len(F.NAMES[b]))]


def _triple_configs(coords, triples, seed_list, full):
    """Configs for header-name triples. full=False: `rep` random files per triple; full=True: the exhaustive inner product."""
    rng = np.random.default_rng(seed_list)
    a, b = ("re", "im") if coords == "cart" else ("mag", "ph")
    out = []
    skipped = 0
    for (i, j, k) in triples:
        pin = {"coords": coords, "f": i, a: j, b: k}
        if not full:
            for _ in range(QUICK["triple_rep"]):
                c = F.random_csv_config(rng, pin)
                if c is not None:
                    out.append(c)
            continue
        negs = [(x, y) for x in range(3) for y in range(3)] if coords == "cart" else [(0, y) for y in range(3)]
        for case in F.CASES:
            for sep, dec in [(",", "."), ("\t", "."), ("\t", ","), (";", "."), (";", ","), (" ", "."), (" ", ",")]:
                for (n1, n2) in negs:
                    for order in F.ORDERS:
                        p = dict(pin, case=case, sep=sep, dec=dec, order=order)
                        if coords == "cart":
                            p.update(neg_re=n1, neg_im=n2)
                        else:
                            p.update(neg_ph=n2)
                        if sep in (" ", ";") and any(" " in F.NAMES[d][x] for d, x in (("f", i), (a, j), (b, k))):
                            skipped += 1  # outside the detection contract: header would contain the separator
                            continue
                        c = F.random_csv_config(rng, p)  # free dimensions (suffix, sweeps, column order, number format, mode, size) at random
                        if c is None:
                            skipped += 1
                            continue
                        c["cli"] = False
                        out.append(c)
    return out, skipped


def gen_cases(tier, seed):
    seed = int(seed)
    cases = []
    P = QUICK if tier == "quick" else THOROUGH
    B = P["batch"]
    # (a) random csv cells (+ pairwise completion in quick)
    nb = P["rand_csv"] // B
    all_cfgs = []
    for i in range(nb):
        sl = [seed, 1, i]
        cases.append({"kind": "rand_csv", "seed": sl, "count": B})
        if tier == "quick":
            all_cfgs.extend(_rand_csv_configs(sl, B))
    if tier == "quick":
        rng = np.random.default_rng([seed, 2])
        extra, covered, infeasible = F.complete_pairwise(all_cfgs, rng)
        for i in range(0, len(extra), B):
            cases.append({"kind": "configs", "configs": extra[i:i + B]})
        cases.append({"kind": "meta", "pairs_covered": covered, "pairs_without_valid_file": infeasible, "pairwise_extra_files": len(extra)})
    # (b) header-name triples
    for coords in ("cart", "polar"):
        tr = _triple_list(coords)
        step = 40 if tier == "quick" else 2
        for i in range(0, len(tr), step):
            cases.append({"kind": "triples", "coords": coords, "triples": tr[i:i + step], "seed": [seed, 3, i], "full": tier != "quick"})
    # (c) instrument layouts
    for li, layout in enumerate(sorted(F.INST)):
        for i in range(0, P["inst"], B):
            cases.append({"kind": "inst", "layout": layout, "seed": [seed, 4, li, i], "count": min(B, P["inst"] - i)})
    # (d) data frames
    for i in range(0, P["df"], B):
        cases.append({"kind": "df", "seed": [seed, 5, i], "count": min(B, P["df"] - i)})
    # (e) one-point tables (the quantifier says 1..N points)
    cases.append({"kind": "single", "seed": [seed, 6]})
    # interleave so that every shard gets a similar mix
    rng = np.random.default_rng([seed, 7])
    order = rng.permutation(len(cases))
    return [cases[int(i)] for i in order]


def _single_point_configs(seed_list):
    rng = np.random.default_rng(seed_list)
    out = []
    for mode in ("ext:.csv", "noext", "fmt:csv"):
        for sep, dec in ((",", "."), ("\t", ","), (";", "."), (" ", ".")):
            c = F.random_csv_config(rng, {"sep": sep, "dec": dec, "mode": mode, "nsweeps": 1})
            if c is not None:
                c["n"] = 1
                c["cli"] = mode == "ext:.csv"
                out.append(c)
    for layout in sorted(F.INST):
        for mode in ("ext", "noext"):
            c = F.random_inst_config(rng, layout)
            c.update(n=1, nsweeps=1, mode=mode, cli=(mode == "ext"))
            out.append(c)
    for _ in range(6):
        c = F.random_df_config(rng)
        c.update(n=1, nsweeps=1)
        out.append(c)
    return out


def _configs_of(case):
    k = case["kind"]
    if k == "rand_csv":
        return _rand_csv_configs(case["seed"], case["count"]), 0
    if k == "configs":
        return case["configs"], 0
    if k == "triples":
        return _triple_configs(case["coords"], [tuple(t) for t in case["triples"]], case["seed"], case["full"])
    if k == "inst":
        rng = np.random.default_rng(case["seed"])
        return [F.random_inst_config(rng, case["layout"]) for _ in range(case["count"])], 0
    if k == "df":
        rng = np.random.default_rng(case["seed"])
        return [F.random_df_config(rng) for _ in range(case["count"])], 0
    if k == "single":
        return _single_point_configs(case["seed"]), 0
    raise ValueError(k)


def run_case(case):
    if _TMP is None:
        setup_shard()
    res = {"evals": 0, "keys": [], "viol": [], "stats": {}, "maxobs": {}, "sample": None}
    if case["kind"] == "meta":
        res["stats"] = {"pairwise:value_pairs_covered": case["pairs_covered"], "pairwise:value_pairs_without_valid_file": case["pairs_without_valid_file"],
                        "pairwise:completion_files": case["pairwise_extra_files"]}
        return res
    if case["kind"] == "jobs":  # replay of concrete files
        for job in case["jobs"]:
            run_job(job, res)
        return res
    configs, skipped = _configs_of(case)
    if skipped:
        res["stats"]["cells_outside_detection_contract_skipped"] = skipped
    for cfg in configs:
        job = F.build_job(cfg)
        nv = len(res["viol"])
        run_job(job, res)
        res["keys"].append(F.config_key(cfg))
        if cfg["layout"] == "csv":
            for d in ("sep", "dec", "coords", "case", "numfmt", "nsweeps", "order"):
                res["stats"][f"csv:{d}={cfg[d]!r}"] = res["stats"].get(f"csv:{d}={cfg[d]!r}", 0) + 1
        if res["sample"] is None and len(res["viol"]) == nv:
            res["sample"] = {"layout": job["layout"], "mode": job["mode"], "file": job.get("filename"), "file_format": job.get("file_format"),
                             "head": (job.get("text") or job.get("header") or "")[:220], "sweeps": [len(e["f"]) for e in job["expected"]]}
    # keep the report small: at most 3 witnesses per mechanism key and case
    seen = {}
    keep = []
    for v in res["viol"]:
        seen[v["key"]] = seen.get(v["key"], 0) + 1
        if seen[v["key"]] <= 3:
            keep.append(v)
    res["stats"]["violating_observations"] = len(res["viol"])
    res["viol"] = keep
    return res


def finalize(agg):
    inc = []
    st, mon = agg["stats"], agg["monitors"]
    for layout in ("csv", "mpt", "i2b", "p00", "dfr", "dta", "z"):
        if st.get("files:" + layout, 0) == 0:
            inc.append(f"no {layout} file was written")
    for name in ("parse_csv", "parse_mpt", "parse_i2b", "parse_p00", "parse_dfr", "parse_dta", "parse_z", "dataframe_to_data_sets",
                 "_detect_columns", "_extract_data", "_split_sweeps"):
        if mon.get("start:" + name, 0) == 0:
            inc.append(f"recorder never saw {name} being called")
    if st.get("cli_tables", 0) == 0:
        inc.append("no table printed by the CLI was re-parsed")
    for name in ("last_row_beyond_first_row", "sweeps_of_different_length", "with_one_point_sweep", "with_sweep_disjoint_from_first",
                 "with_row_identical_to_earlier_sweep", "with_whole_sweep_repeated_exactly"):
        if st.get("multi_sweep_tables:" + name, 0) == 0:
            inc.append(f"no multi-sweep table of kind '{name}' was written")
    if st.get("frames:df", 0) == 0 or st.get("frames:emit", 0) == 0:
        inc.append("dataframe_to_data_sets / to_dataframe were not exercised")
    if agg["tier"] == "quick" and "pairwise:value_pairs_covered" not in st:
        inc.append("pairwise completion record missing")
    info = {"tolerance_rel": TOL, "parser_calls": {k: v for k, v in mon.items() if k.startswith("return:")}}
    return {"viol": [], "inconclusive": inc, "info": info}
