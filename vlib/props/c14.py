"""C14 - the element parameter API behaves as a consistent state machine.

History + executable reference model: a dictionary model {value, lower, upper, fixed}[key] + label is driven by the same
concrete operation list as a real element of every registered class; after every step all getters are compared.

Latitude:
 - a refused multi-key call may have applied its OTHER keys or not (the statement does not fix the application order):
   for those keys the model adopts whichever of {old, new} the element shows; the refused key itself must be unchanged;
 - at most one invalid key is generated per call, so "the parameter it addressed" is unambiguous;
 - copies are only required to succeed/equal when all values lie within their limits (NaN values are outside).
An icontract invariant on pyimpspec's Element (recording, never raising) observes every element in the process:
identical key sets in the four parameter dicts, lower < upper, instance dicts distinct from the class default dicts.
"""
import copy
import math

import numpy as np

from .. import gen_circuit as G
from .. import monitors

ID = "C14"
RULE = (
    "histories of <=25 operations over {set_values, set_lower_limits, set_upper_limits, set_fixed (positional-pair, keyword and "
    "mixed forms; valid, unknown key, odd arity, duplicate key, non-numeric, non-bool, crossing the other limit, +-inf, NaN), "
    "set_label (valid, non-string, non-ASCII, all digits, padded), reset_parameter(s), copy, deepcopy, to_string+parse} on every "
    "registered element class incl. the Tlm container, generated from rng([seed, case]) and compared step by step with a "
    "dictionary reference model. Non-trivial history = contains >=1 refused update or a limit moved past the value; distinct = "
    "distinct (class, op-kind sequence, outcome sequence)."
)
ASSUMPTIONS = [
    "reference model: ~40 lines (clamp on limit move, refuse on crossing/NaN, defaults on reset), self-checked at start-up",
    "float() conversion semantics of CPython for the argument classes used",
]
SHARDS = 16
CASE_TIMEOUT = 300
MIN_EVALS = 2000
INF = float("inf")

_EL_INSTALLED = False


def install_element_monitor():
    global _EL_INSTALLED
    if _EL_INSTALLED:
        return
    _EL_INSTALLED = True
    import icontract
    from pyimpspec.circuit.base import Element

    def element_parameters_consistent(self):
        monitors.count("Element.invariant")
        try:
            if not hasattr(self, "_parameter_fixed"):
                return True  # still inside __init__
            ks = list(self._parameter_value.keys())
            ok = ks == list(self._parameter_lower_limit.keys()) == list(self._parameter_upper_limit.keys()) == list(self._parameter_fixed.keys())
            if not ok:
                monitors.record("Element.invariant", f"{type(self).__name__}: parameter dictionaries have different keys")
            for k in ks:
                if not (self._parameter_lower_limit[k] < self._parameter_upper_limit[k]):
                    monitors.record("Element.invariant", f"{type(self).__name__}.{k}: lower {self._parameter_lower_limit[k]} !< upper {self._parameter_upper_limit[k]}")
            cls = type(self)
            if (self._parameter_value is cls._parameter_default_value or self._parameter_lower_limit is cls._parameter_default_lower_limit
                    or self._parameter_upper_limit is cls._parameter_default_upper_limit or self._parameter_fixed is cls._parameter_default_fixed):
                monitors.record("Element.invariant", f"{type(self).__name__}: instance dictionary aliases a class default dictionary")
        except Exception as e:
            monitors.record("Element.invariant", f"monitor error {e!r}")
        return True

    icontract.invariant(element_parameters_consistent)(Element)


# ------------------------------------------------------------------------------------------------
# model
# ------------------------------------------------------------------------------------------------
class Model:
    def __init__(self, cls):
        self.cls = cls
        self.v = dict(cls.get_default_values())
        self.lo = dict(cls.get_default_lower_limits())
        self.hi = dict(cls.get_default_upper_limits())
        self.fx = dict(cls.are_fixed_by_default())
        self.label = ""

    def clone(self):
        m = Model.__new__(Model)
        m.cls, m.v, m.lo, m.hi, m.fx, m.label = self.cls, dict(self.v), dict(self.lo), dict(self.hi), dict(self.fx), self.label
        return m

    def apply(self, setter, key, val):
        """returns True if applied, False if refused"""
        if key not in self.v:
            return False
        if setter == "fixed":
            if not isinstance(val, (bool, np.bool_)):
                return False
            self.fx[key] = bool(val)
            return True
        try:
            x = float(val)
        except (TypeError, ValueError):
            return False
        if setter == "values":
            self.v[key] = x
        elif setter == "lower":
            if not (x < self.hi[key]):
                return False
            if self.v[key] < x:
                self.v[key] = x
            self.lo[key] = x
        elif setter == "upper":
            if not (x > self.lo[key]):
                return False
            if self.v[key] > x:
                self.v[key] = x
            self.hi[key] = x
        return True

    def reset(self, keys):
        for k in keys:
            self.v[k] = self.cls.get_default_value(k)
            self.lo[k] = self.cls.get_default_lower_limit(k)
            self.hi[k] = self.cls.get_default_upper_limit(k)
            self.fx[k] = self.cls.is_fixed_by_default(k)

    def within(self):
        return all(self.lo[k] <= self.v[k] <= self.hi[k] for k in self.v)


def _same(a, b):
    return a == b or (isinstance(a, float) and isinstance(b, float) and math.isnan(a) and math.isnan(b))


# ------------------------------------------------------------------------------------------------
# history generation
# ------------------------------------------------------------------------------------------------
BADVALS = ["abc", None, [1.0], "1e", ""]
LABELS_OK = ["a", "ct 1", "  padded  ", "x_2", "1a", "_u", "a{b}c", "p:q,r=s", "", " a1\t", "1 2", "   "]
LABELS_BAD = [5, None, "é", "123", "0", b"x", " 26 ", "\t7\n", "3 ", " é ", 1.5, ["a"]]


def gen_history(rng, cls):
    keys = list(cls.get_default_values().keys())
    ops = []
    n = int(rng.integers(3, 26))
    for _ in range(n):
        r = rng.random()
        if r < 0.62:
            setter = str(rng.choice(["values", "lower", "upper", "fixed", "lower", "upper"]))
            nk = int(rng.choice([1, 1, 1, 2, 3]))
            ks = [str(k) for k in rng.choice(keys, size=min(nk, len(keys)), replace=False)]
            pairs = []
            invalid_used = False
            for k in ks:
                pairs.append([k, _gen_value(rng, cls, k, setter)])
            flavour = str(rng.choice(["valid"] * 6 + ["unknown-key", "odd-arity", "duplicate-key", "bad-type", "cross", "nan", "inf"]))
            form = str(rng.choice(["kw", "pos", "mixed"]))
            ops.append({"op": "set", "setter": setter, "pairs": pairs, "flavour": flavour, "form": form, "u": float(rng.random())})
        elif r < 0.72:
            bad = rng.random() < 0.4
            ops.append({"op": "label", "bad": bool(bad), "idx": int(rng.integers(0, 20))})
        elif r < 0.80:
            ks = [str(k) for k in rng.choice(keys, size=int(rng.integers(0, len(keys) + 1)), replace=False)]
            form = str(rng.choice(["pos", "pos", "kw", "mixed", "unknown-pos", "unknown-kw", "unknown-mixed"]))
            ops.append({"op": "reset", "keys": ks, "single": bool(rng.random() < 0.4 and len(ks) == 1), "kw": form == "kw", "form": form})
        elif r < 0.92:
            ops.append({"op": str(rng.choice(["copy", "deepcopy"])), "then": str(rng.choice(["mutate-copy", "mutate-original", "switch-to-copy"]))})
        else:
            ops.append({"op": "parse"})
    return ops


def _gen_value(rng, cls, k, setter):
    if setter == "fixed":
        return bool(rng.random() < 0.5)
    d = cls.get_default_value(k)
    base = abs(d) if d else 1.0
    r = rng.random()
    if r < 0.15:
        return 0.0
    if r < 0.3:
        return -base * float(10 ** rng.uniform(-2, 2))
    v = base * float(10 ** rng.uniform(-4, 4))
    if rng.random() < 0.1:
        return int(v) if v < 1e9 else v  # integers are fine too
    if rng.random() < 0.05:
        return str(v)  # numeric strings convert with float()
    return v


# ------------------------------------------------------------------------------------------------
# execution
# ------------------------------------------------------------------------------------------------
def _call(fn, pairs, form):
    if form == "kw":
        return fn(**{k: v for k, v in pairs})
    if form == "pos":
        flat = []
        for k, v in pairs:
            flat += [k, v]
        return fn(*flat)
    flat = []
    for k, v in pairs[:1]:
        flat += [k, v]
    return fn(*flat, **{k: v for k, v in pairs[1:]})


def run_history(cls, ops, st):
    from pyimpspec import parse_cdc

    viol = []
    sym = cls.get_symbol()
    e = cls()
    m = Model(cls)
    defaults = (dict(cls.get_default_values()), dict(cls.get_default_lower_limits()), dict(cls.get_default_upper_limits()), dict(cls.are_fixed_by_default()))
    outcomes = []
    log = []

    def bad(step, key, msg):
        viol.append({"key": key, "msg": f"{sym} step {step} {log[-1] if log else ''}: {msg}",
                     "witness": {"class": sym, "history": log[:], "replay_case": {"kind": "explicit", "sym": sym, "ops": ops[: step + 1]}}})

    def compare(step, what):
        got = (e.get_values(), e.get_lower_limits(), e.get_upper_limits(), e.are_fixed())
        exp = (m.v, m.lo, m.hi, m.fx)
        for nm, g, x in zip(("value", "lower", "upper", "fixed"), got, exp):
            if list(g.keys()) != list(x.keys()):
                bad(step, f"C14/keys-changed:{what}", f"{nm} keys {list(g)} expected {list(x)}")
                return False
            for k in x:
                if not _same(g[k], x[k]):
                    bad(step, f"C14/state-mismatch:{what}:{nm}", f"{nm}[{k}] = {g[k]!r}, model says {x[k]!r}")
                    return False
        for k in m.v:
            if not (_same(e.get_value(k), m.v[k]) and e.get_lower_limit(k) == m.lo[k] and e.get_upper_limit(k) == m.hi[k] and e.is_fixed(k) == m.fx[k]):
                bad(step, f"C14/single-getter-mismatch:{what}", f"single-key getters disagree with the dictionaries for {k}")
                return False
            if not (e.get_lower_limit(k) < e.get_upper_limit(k)):
                bad(step, "C14/lower-not-below-upper", f"{k}: lower {e.get_lower_limit(k)} upper {e.get_upper_limit(k)}")
                return False
        if e.get_label() != m.label:
            bad(step, f"C14/label-mismatch:{what}", f"label {e.get_label()!r} expected {m.label!r}")
            return False
        now = (cls.get_default_values(), cls.get_default_lower_limits(), cls.get_default_upper_limits(), cls.are_fixed_by_default())
        if any(a != b for a, b in zip(now, defaults)):
            bad(step, f"C14/class-defaults-changed:{what}", f"class defaults changed to {now}")
            return False
        return True

    for step, op in enumerate(ops):
        k = op["op"]
        monitors.drain()
        if k == "set":
            setter, pairs, fl, form = op["setter"], [list(p) for p in op["pairs"]], op["flavour"], op["form"]
            fn = {"values": e.set_values, "lower": e.set_lower_limits, "upper": e.set_upper_limits, "fixed": e.set_fixed}[setter]
            invalid_key = None
            pre_refuse = False  # refused before anything can be applied
            args_pairs = pairs
            if fl == "unknown-key":
                pairs[-1][0] = "nope_" + pairs[-1][0]
                invalid_key = pairs[-1][0]
            elif fl == "bad-type":
                pairs[-1][1] = BADVALS[int(op["u"] * len(BADVALS)) % len(BADVALS)] if setter != "fixed" else [1, "yes", None, 0.0][int(op["u"] * 4) % 4]
                invalid_key = pairs[-1][0]
            elif fl == "cross" and setter in ("lower", "upper"):
                kk = pairs[-1][0]
                pairs[-1][1] = (m.hi[kk] if setter == "lower" else m.lo[kk]) if op["u"] < 0.5 else ((m.hi[kk] + abs(m.hi[kk]) + 1) if setter == "lower" else (m.lo[kk] - abs(m.lo[kk]) - 1))
                invalid_key = kk
            elif fl == "nan" and setter != "fixed":
                pairs[-1][1] = float("nan")
                invalid_key = pairs[-1][0] if setter != "values" else None
            elif fl == "inf" and setter != "fixed":
                pairs[-1][1] = INF if op["u"] < 0.5 else -INF
            log.append(f"set_{setter}[{form},{fl}]({pairs})")
            raised = None
            try:
                if fl == "odd-arity":
                    flat = []
                    for kk, vv in pairs:
                        flat += [kk, vv]
                    fn(*flat[:-1]) if len(flat) > 1 else fn(flat[0])
                    pre_refuse = True
                elif fl == "duplicate-key":
                    fn(pairs[0][0], pairs[0][1], **{pairs[0][0]: pairs[0][1]})
                    pre_refuse = True
                else:
                    ret = _call(fn, pairs, form)
                    if ret is not e:
                        bad(step, "C14/setter-return", f"setter returned {ret!r} instead of the element")
            except Exception as ex:
                raised = ex
            if fl in ("odd-arity", "duplicate-key"):
                if raised is None:
                    bad(step, f"C14/invalid-call-accepted:{fl}", "call with invalid argument structure was accepted")
                elif not isinstance(raised, (ValueError, KeyError, TypeError)):
                    bad(step, f"C14/unexpected-exception:{type(raised).__name__}", monitors.tb_tail(raised))
                outcomes.append("refused-structure")
                st["refused_structure"] = st.get("refused_structure", 0) + 1
            else:
                # model: apply in the library's order (keywords first, then positional pairs)
                if form == "mixed":
                    order = pairs[1:] + pairs[:1]
                else:
                    order = pairs
                old = m.clone()
                new = m.clone()
                first_refused = None
                for kk, vv in order:
                    if first_refused is None:
                        if not new.apply(setter, kk, vv):
                            first_refused = kk
                if first_refused is None:
                    if raised is not None:
                        bad(step, f"C14/valid-update-refused:{setter}:{type(raised).__name__}", f"{type(raised).__name__}: {raised}")
                        outcomes.append("bad")
                    else:
                        m = new
                        outcomes.append("applied")
                        if any(not _same(new.v[kk], old.v[kk]) and setter in ("lower", "upper") for kk in new.v):
                            st["clamped"] = st.get("clamped", 0) + 1
                            outcomes[-1] = "applied+clamp"
                else:
                    st["refused_updates"] = st.get("refused_updates", 0) + 1
                    outcomes.append("refused:" + fl)
                    if raised is None:
                        bad(step, f"C14/invalid-update-accepted:{setter}:{fl}", f"update of {first_refused!r} with {dict((a, b) for a, b in pairs).get(first_refused)!r} was accepted")
                    elif not isinstance(raised, (ValueError, KeyError, TypeError)):
                        bad(step, f"C14/unexpected-exception:{type(raised).__name__}", monitors.tb_tail(raised))
                    # refused key unchanged; other keys of the call: old or new, whichever the element shows
                    full = m.clone()
                    for kk, vv in order:
                        if kk != first_refused:
                            full.apply(setter, kk, vv)
                    if first_refused in m.v:
                        got = (e.get_value(first_refused), e.get_lower_limit(first_refused), e.get_upper_limit(first_refused), e.is_fixed(first_refused))
                        exp = (old.v[first_refused], old.lo[first_refused], old.hi[first_refused], old.fx[first_refused])
                        if not all(_same(a, b) for a, b in zip(got, exp)):
                            bad(step, f"C14/refused-update-changed-parameter:{setter}", f"{first_refused}: (value, lower, upper, fixed) {exp} -> {got} although the update was refused")
                    for kk, vv in order:
                        if kk == first_refused or kk not in m.v:
                            continue
                        got = (e.get_value(kk), e.get_lower_limit(kk), e.get_upper_limit(kk), e.is_fixed(kk))
                        o_ = (old.v[kk], old.lo[kk], old.hi[kk], old.fx[kk])
                        n_ = (full.v[kk], full.lo[kk], full.hi[kk], full.fx[kk])
                        if all(_same(a, b) for a, b in zip(got, n_)):
                            m.v[kk], m.lo[kk], m.hi[kk], m.fx[kk] = n_
                        elif not all(_same(a, b) for a, b in zip(got, o_)):
                            bad(step, f"C14/partial-update-neither-old-nor-new:{setter}", f"{kk}: {got} is neither old {o_} nor new {n_}")
        elif k == "label":
            pool = LABELS_BAD if op["bad"] else LABELS_OK
            lab = pool[op["idx"] % len(pool)]
            log.append(f"set_label({lab!r})")
            try:
                e.set_label(lab)
                if op["bad"]:
                    bad(step, "C14/invalid-label-accepted", f"label {lab!r} accepted")
                else:
                    m.label = lab.strip()
                outcomes.append("label")
            except Exception as ex:
                if not op["bad"]:
                    bad(step, f"C14/valid-label-refused:{type(ex).__name__}", str(ex))
                elif not isinstance(ex, (TypeError, ValueError)):
                    bad(step, f"C14/unexpected-exception:{type(ex).__name__}", monitors.tb_tail(ex))
                outcomes.append("label-refused")
        elif k == "reset":
            keys = op["keys"]
            log.append(f"reset({keys}, single={op['single']}, kw={op['kw']})")
            try:
                form = op.get("form", "kw" if op["kw"] else "pos")
                if op["single"]:
                    e.reset_parameter(keys[0])
                    m.reset(keys)
                elif not keys:
                    e.reset_parameters()
                    m.reset(list(m.v.keys()))
                elif form.startswith("unknown"):
                    # an unknown key addressed positionally, as a keyword, or as a keyword next to a valid positional key
                    # must be refused, and (one refused call) the valid keys are either all reset or all untouched
                    before = m.clone()
                    try:
                        if form == "unknown-pos":
                            e.reset_parameters(*keys, "nope_key")
                        elif form == "unknown-kw":
                            e.reset_parameters(**{kk: None for kk in keys}, nope_key=True)
                        else:
                            e.reset_parameters(*keys[:1], **{kk: None for kk in keys[1:]}, nope_key=True)
                        # the statement does not say that an unknown key must be refused: if the call is accepted, the
                        # valid keys it addressed must have been reset (counted, not judged)
                        st["reset_unknown_key_accepted"] = st.get("reset_unknown_key_accepted", 0) + 1
                        m.reset(keys)
                    except Exception as ex:
                        st["refused_updates"] = st.get("refused_updates", 0) + 1
                        if not isinstance(ex, (KeyError, ValueError, TypeError)):
                            bad(step, f"C14/unexpected-exception:{type(ex).__name__}", monitors.tb_tail(ex))
                        after = m.clone()
                        after.reset(keys)
                        for kk in keys:
                            got = (e.get_value(kk), e.get_lower_limit(kk), e.get_upper_limit(kk), e.is_fixed(kk))
                            n_ = (after.v[kk], after.lo[kk], after.hi[kk], after.fx[kk])
                            if all(_same(a, b) for a, b in zip(got, n_)):
                                m.v[kk], m.lo[kk], m.hi[kk], m.fx[kk] = n_
                    outcomes.append("refused:reset-unknown-key")
                    st["resets_unknown_key"] = st.get("resets_unknown_key", 0) + 1
                elif form == "kw":
                    e.reset_parameters(**{kk: None for kk in keys})
                    m.reset(keys)
                elif form == "mixed" and len(keys) >= 2:
                    e.reset_parameters(*keys[:1], **{kk: True for kk in keys[1:]})
                    m.reset(keys)
                    st["resets_mixed_form"] = st.get("resets_mixed_form", 0) + 1
                else:
                    e.reset_parameters(*keys)
                    m.reset(keys)
                if not outcomes or not outcomes[-1].startswith("refused:reset"):
                    outcomes.append("reset")
                st["resets"] = st.get("resets", 0) + 1
            except Exception as ex:
                bad(step, f"C14/reset-raised:{type(ex).__name__}", f"{type(ex).__name__}: {ex}")
        elif k in ("copy", "deepcopy"):
            log.append(f"{k} then {op['then']}")
            fn = copy.copy if k == "copy" else copy.deepcopy
            within = m.within()
            try:
                c = fn(e)
            except Exception as ex:
                if within:
                    bad(step, f"C14/{k}-raised:{type(ex).__name__}", f"values within limits but {k} raised {type(ex).__name__}: {ex}")
                outcomes.append("copy-refused")
                continue
            st["copies"] = st.get("copies", 0) + 1
            outcomes.append("copy")
            if within:
                same = (c.get_values() == e.get_values() and c.get_lower_limits() == e.get_lower_limits() and c.get_upper_limits() == e.get_upper_limits()
                        and c.are_fixed() == e.are_fixed() and c.get_label() == e.get_label() and c.to_string(17) == e.to_string(17) and type(c) is type(e))
                if not same:
                    bad(step, f"C14/{k}-differs", f"{k} differs: {c.to_string(17)[:200]} vs {e.to_string(17)[:200]}")
                if c is e:
                    bad(step, f"C14/{k}-not-independent", "copy is the same object")
                # independence
                if op["then"] == "mutate-copy":
                    _scramble(c)
                elif op["then"] == "mutate-original":
                    before = (c.get_values(), c.get_lower_limits(), c.get_upper_limits(), c.are_fixed(), c.get_label())
                    snapshot = m.clone()
                    _scramble(e)
                    after = (c.get_values(), c.get_lower_limits(), c.get_upper_limits(), c.are_fixed(), c.get_label())
                    if before != after and not any(isinstance(x, float) and math.isnan(x) for x in before[0].values()):
                        bad(step, f"C14/{k}-not-independent", "mutating the original changed the copy")
                    e, m = c, snapshot
                else:
                    e = c
                if hasattr(e, "get_subcircuits"):
                    a, b = cls(), cls()
                    for sk in a.get_subcircuits():
                        sa, sb = a.get_subcircuit(sk), b.get_subcircuit(sk)
                        if sa is not None and (sa is sb or any(x is y for x in sa.get_elements() for y in sb.get_elements())):
                            bad(step, "C14/container-default-subcircuit-aliased", f"two fresh {sym} instances share sub-circuit objects for {sk}")
        elif k == "parse":
            log.append("to_string+parse")
            if m.within() and G.label_class(m.label) not in ("unbalanced-brace", "lead-punct") and all(math.isfinite(x) for x in m.v.values()):
                try:
                    c = parse_cdc(e.to_string(17)).get_elements()[0]
                    st["parsed"] = st.get("parsed", 0) + 1
                    if not (c.get_values() == e.get_values() and c.get_lower_limits() == e.get_lower_limits() and c.get_upper_limits() == e.get_upper_limits()
                            and c.are_fixed() == e.are_fixed() and c.get_label() == e.get_label()):
                        bad(step, "C14/parse-differs", f"parse(to_string(17)) differs from the element: {e.to_string(17)[:200]}")
                except Exception as ex:
                    bad(step, f"C14/parse-raised:{type(ex).__name__}", f"{type(ex).__name__}: {ex} for {e.to_string(17)[:200]}")
            outcomes.append("parse")
        for r in monitors.drain():
            bad(step, "C14/invariant", r["msg"])
        if not viol:
            compare(step, k if k != "set" else "set_" + op["setter"])
        # a fresh instance is unaffected by anything done so far
        fresh = cls()
        if (fresh.get_values(), fresh.get_lower_limits(), fresh.get_upper_limits(), fresh.are_fixed(), fresh.get_label()) != (defaults[0], defaults[1], defaults[2], defaults[3], ""):
            bad(step, "C14/other-instance-affected", "a freshly created instance no longer shows the class defaults")
        if viol:
            break
    return viol, outcomes


def _scramble(x):
    for kk in x.get_values():
        try:
            x.set_values(kk, x.get_value(kk) * 1.5 + 1.0)
            x.set_fixed(kk, not x.is_fixed(kk))
            x.set_upper_limits(kk, abs(x.get_upper_limit(kk)) * 3 + 10 if math.isfinite(x.get_upper_limit(kk)) else 1e30)
        except Exception:
            pass
    x.set_label("scrambled")


def _selfcheck():
    class Fake:
        @staticmethod
        def get_default_values(): return {"R": 1.0}
        @staticmethod
        def get_default_lower_limits(): return {"R": 0.0}
        @staticmethod
        def get_default_upper_limits(): return {"R": 10.0}
        @staticmethod
        def are_fixed_by_default(): return {"R": False}
    m = Model(Fake)
    assert m.apply("lower", "R", 2.0) and m.v["R"] == 2.0 and m.lo["R"] == 2.0
    assert not m.apply("upper", "R", 2.0) and not m.apply("upper", "R", float("nan"))
    assert m.apply("upper", "R", 1e9) and not m.apply("values", "R", "abc") and not m.apply("fixed", "R", 1)


_selfcheck()


def gen_cases(tier, seed):
    from pyimpspec import get_elements

    syms = sorted(get_elements(private=True).keys())
    cases = []
    reps = 6 if tier == "quick" else 120
    for i, s in enumerate(syms):
        for r in range(reps):
            cases.append({"kind": "hist", "sym": s, "seed": [int(seed), i, r], "count": 40})
    return cases


def setup_shard():
    install_element_monitor()
    G.catalogue()


def shard_report():
    return dict(monitors.COUNTERS)


def run_case(case):
    from pyimpspec import get_elements

    cls = get_elements(private=True)[case["sym"]]
    st = {}
    if case["kind"] == "explicit":
        v, oc = run_history(cls, case["ops"], st)
        return {"evals": len(case["ops"]), "keys": [str(case["ops"])], "viol": v, "stats": st}
    rng = np.random.default_rng(case["seed"])
    viol, keys = [], []
    evals = 0
    sample = None
    for _ in range(case["count"]):
        ops = gen_history(rng, cls)
        v, oc = run_history(cls, ops, st)
        viol.extend(v)
        evals += len(ops)
        st["histories"] = st.get("histories", 0) + 1
        if any(o.startswith("refused") or o == "applied+clamp" for o in oc):
            keys.append((case["sym"], tuple(o["op"] + ":" + o.get("setter", "") for o in ops), tuple(oc)))
        for o in oc:
            st["outcome:" + o.split(":")[0]] = st.get("outcome:" + o.split(":")[0], 0) + 1
        if sample is None:
            sample = {"class": case["sym"], "ops": ops[:8], "outcomes": oc[:8]}
        if len(viol) > 10:
            break
    return {"evals": evals, "keys": keys, "viol": viol[:10], "stats": st, "sample": sample}


def finalize(agg):
    inc = []
    if agg["monitors"].get("Element.invariant", 0) == 0:
        inc.append("Element invariant contract never evaluated")
    for need in ("refused_updates", "clamped", "copies", "resets", "parsed", "resets_mixed_form", "resets_unknown_key"):
        if agg["stats"].get(need, 0) == 0:
            inc.append(f"'{need}' never observed")
    return {"viol": [], "inconclusive": inc}
