"""C08 - every analysis result is internally consistent with the data it came from.

Shape: invariant at a hook + metamorphic relation between executions of the real code.

Hook.  setup_shard() re-binds `__init__` of the seven result dataclasses (KramersKronigResult, ZHITResult, FitResult,
TRNNLSResult, LMResult, MRQFitResult, BHTResult) to a recording wrapper (records, never raises).  Every instance that
is constructed anywhere in the process while an analysis entry point runs is checked after the entry point returned -
the ~60-300 KramersKronigResult of one automatic/exploratory run, the FitResult built inside m(RQ)fit, the
KramersKronigResult built inside the Loewner method's "pseudo_chisqr" order search - not only the returned object.
All calls use num_procs=1 (and set_default_num_procs(1)), so results are constructed in the observed process.

Workload data.  vlib/c08_data.py (frozen copy of the C12 spec/family helper) draws the generating circuits; the spectrum
is only *data* for C08 - no clause depends on how well an analysis reproduces it.

Reference.  The harness keeps its own arrays (f descending, Z, mask set) and derives f_u = f[~mask], Z_u = Z[~mask]
itself; DataSet getters are not part of the oracle.

Clauses, per recorded result R (class x clause table):
                        frequencies  residuals  chisqr  circuit-impedance
  KramersKronigResult       x           x         x          x
  ZHITResult                x           x         x          - (no circuit field)
  FitResult                 x           x         x          x
  TRNNLSResult              x           x         x          -
  LMResult                  x           x         x          -
  MRQFitResult              x           x         x          x
  BHTResult                 x           x         x          -
  frequencies        R.frequencies == f_u exactly (shape and every value)
  residuals          R.residuals == (Z_u - R.impedances)/|Z_u| point by point (RES_TOL, relative to max(1, max|ref|))
  chisqr             R.pseudo_chisqr == sum |(Z_u - R.impedances)/|Z_u||^2 (CHI_REL relative plus the rounding floor
                     2*d*sqrt(N*chi2)+N*d^2 with d = CHI_DELTA: Z-HIT evaluates 1/(1/Z), which moves every residual
                     by ~1e-16 - visible when the reconstruction is exact to rounding)
  circuit-impedance  R.impedances == R.circuit.get_impedances(R.frequencies) (CIRC_TOL relative), evaluated AFTER the
                     entry point returned (so a circuit that is shared with later fits is seen in its final state)
  (LMResult/BHTResult field docstrings say "residuals of the real parts"; DRTResult.get_residuals_data documents both
  parts as relative residuals and the statement names calculate_drt[bht|lm] explicitly, so the clause is applied.)
Per call:
  dataset-modified   DataSet.to_dict() (json) identical before/after
  circuit-modified   Circuit.serialize(17 decimals) and the exact (hex) value/limit/fixed state of every element of an
                     input circuit identical before/after (fit_circuit, calculate_drt(method="mrq-fit"))
Per item (when >= 1 point is masked):
  mask-influence     the same analysis (same numpy global seed, num_procs=1) on data sets that differ ONLY in the
                     impedance stored on the masked points (base: plausible outliers; poison: 1e30(1+j), -1e-30(1-j),
                     12345.678(1-j), 0, 1e300(1-j)) -> every recorded result and the returned structure bit-identical
                     (all dataclass fields: arrays by bytes, floats by hex, circuits by exact element state, fitted
                     parameters, optimiser nfev/chisqr, labels); one run raising and the other not is a violation too
  mask-presence      ... and on the data set that consists of the unmasked points only -> bit-identical as well
                     ("masked points never influence any of it": neither their values nor their being there)

List-valued arguments.  Wherever an entry point takes a list it is also fed hostile spellings of it: `num_RCs` of
evaluate_log_F_ext / perform_exploratory_kramers_kronig_tests explicit and ascending | descending | shuffled | with repeated
entries (cells logfext-list, explore-list, and the explicit-list branch of logfext; least-squares tests real/complex/imaginary
and the three -inv tests, both representations), `methods` of the num_RC suggestion shuffled/repeated, `method`/`weight` lists of
fit_circuit permuted and with repeated entries.  tuple / numpy-array spellings of `num_RCs` are tried rarely: the unchanged
tree refuses them up front (TypeError) - counted under raised.*, never a verdict.  All clauses above apply to EVERY result
object these calls construct or return (one per requested num_RC, repeated ones included), not only to the suggested one; a
result whose pseudo_chisqr belongs to a different num_RC than its circuit/impedances/residuals fails the chisqr clause.
(num_RC of a KramersKronigResult is derived from its circuit, so "num_RC matches the circuit" is true by construction and is
not a separate clause.)  When base and variant raise the same exception type, the result objects constructed before the
raise are still compared bit by bit (stats compared.*-partial).

Latitude: an analysis that raises on base AND on every variant with the same exception type produced no result; that
is counted (stats raised:*) and left to C18 - C08 constrains results.  finalize() turns a run in which an entry point
never produced a checked result, or raised in more than half of its calls, into INCONCLUSIVE.  Non-finite reference
values (NaN/inf impedances in a result) are counted and the affected comparison skipped.  TR-NNLS is driven with
max_iter=100000 (C18/F21).  tr-rbf is not in the property's quantifier and is not exercised.
"""
import dataclasses
import importlib
import json
import math
import warnings

import numpy as np

from .. import c08_data as fit_model
from .. import monitors

ID = "C08"
RULE = (
    "items drawn from rng([seed, case]): spectrum of an identifiable circuit family (R(RC), R(RQ), R(RC)(RC), R(RC)(RQ), "
    "Randles, RL(RQ); optionally plus a negative-resistance arc so that min Re(Y) < 0) on a jittered log grid of 5..80 points "
    "over the family's window, proportional noise 0..2 %, ascending or descending input, mask subset (none, random, low/high "
    "block, both ends, alternate, single; sparse or full dict) leaving the minimum the entry point needs; masked points "
    "carry outliers.  Entry points x option cells: perform_kramers_kronig_test (7 tests x Z/Y/both x C x L x fixed num_RC, "
    "log_F_ext; automatic num_RC with 0/10/20/-10 F_ext evaluations), evaluate_log_F_ext, "
    "perform_exploratory_kramers_kronig_tests, perform_zhit (5 smoothings x 4 interpolations x windows/custom weights x Z/Y, "
    "one-dimensional 'auto'), calculate_drt tr-nnls (real/imaginary/complex x fixed/suggested/L-curve lambda), lm (automatic, "
    "explicit order, pseudo_chisqr order search), bht (seeded), mrq-fit (with and without a fit object), fit_circuit (single "
    "method/weight, lists, auto).  List arguments are also given unsorted and with repeated entries: explicit num_RCs "
    "(ascending, descending, shuffled, duplicated; rarely as tuple/ndarray, which the library refuses) for evaluate_log_F_ext and "
    "perform_exploratory_kramers_kronig_tests with the real/complex/imaginary and -inv tests in both representations, the "
    "`methods` list of the num_RC suggestion, fit_circuit method/weight lists.  Thorough tier: ~10x the cases, half of them with the wide parameter range (resistance "
    "scale 1e-2..1e6 ohm), Z-HIT up to 60 points, plus the slow cells (Z-HIT with all three options 'auto', Loewner order search "
    "with the default automatic Kramers-Kronig test inside, automatic num_RC with the cnls test).  Every result object constructed during a call is checked; each item is re-run with "
    "poisoned masked points and with the masked points removed.  A case is non-trivial when >= 1 result was checked; "
    "distinct = distinct (entry point + option cell, n, ascending?, mask set) keys."
)
ASSUMPTIONS = [
    "numpy complex arithmetic for the reference residuals (Z_u - Z_model)/|Z_u| and their squared moduli",
    "the harness's own arrays (f, Z, mask) are the reference for 'unmasked points'; DataSet getters are not trusted",
    "Circuit.get_impedances of the tree under test is deterministic (used to re-evaluate the attached circuit)",
    "numpy.random.seed fixes every random draw of the analyses under test (BHT start values, differential evolution)",
    "json round-trip of DataSet.to_dict() and '%.17e' serialisation are exact for float64",
]
SHARDS = 16
CASE_TIMEOUT = 900
MIN_EVALS = 300

# ---- frozen tolerances (worst observed values: see evidence.coverage.worst_observed and the final report) ---------
RES_TOL = 1e-12     # max |R.residuals - ref| / max(1, max|ref|)            (observed: 0.0, the same formula is used)
CHI_REL = 1e-9      # |chi2 - ref| <= CHI_REL*ref + 2*CHI_DELTA*sqrt(N*ref) + N*CHI_DELTA^2
CHI_DELTA = 1e-13   # per-point rounding floor of a residual (Z-HIT: 1/(1/Z))
CIRC_TOL = 1e-12    # max |R.impedances - circuit(f)| / |circuit(f)|         (observed: 0.0)

POISON = {
    "p0": (1e30, 1e30),
    "p1": (-1e-30, 1e-30),
    "p2": (12345.678, -12345.678),
    "p3": (0.0, 0.0),
    "p4": (1e300, -1e300),
}

RESULT_CLASSES = [
    ("pyimpspec.analysis.kramers_kronig.result", "KramersKronigResult"),
    ("pyimpspec.analysis.zhit", "ZHITResult"),
    ("pyimpspec.analysis.fitting", "FitResult"),
    ("pyimpspec.analysis.drt.tr_nnls", "TRNNLSResult"),
    ("pyimpspec.analysis.drt.lm", "LMResult"),
    ("pyimpspec.analysis.drt.mrq_fit", "MRQFitResult"),
    ("pyimpspec.analysis.drt.bht", "BHTResult"),
]

KK_TESTS = ["complex", "real", "imaginary", "complex-inv", "real-inv", "imaginary-inv", "cnls"]
SMOOTHINGS = ["none", "lowess", "savgol", "modsinc", "whithend"]
INTERPOLATIONS = ["akima", "cubic", "pchip", "makima"]
WINDOWS = ["boxcar", "hann", "cosine", "triang", "blackman", "hamming"]
FIT_METHODS = ["leastsq", "least_squares", "nelder", "lbfgsb", "powell", "cg", "bfgs", "tnc", "slsqp"]
FIT_WEIGHTS = ["unity", "modulus", "proportional", "boukamp"]
RBF_TYPES = ["gaussian", "c0-matern", "c2-matern", "c4-matern", "c6-matern", "inverse-quadratic", "inverse-quadric", "cauchy"]
MRQ_FAMILIES = ["R(RC)", "R(RQ)", "R(RC)(RC)", "R(RC)(RQ)"]


# ------------------------------------------------------------------------------------------------
# constructor recorder
# ------------------------------------------------------------------------------------------------
_REC = []
_INSTALLED = False


def _wrap_init(cls):
    orig = cls.__init__
    name = cls.__name__

    def __init__(self, *args, **kwargs):
        orig(self, *args, **kwargs)
        try:
            monitors.count("constructed." + name)
            _REC.append(self)
        except Exception:  # the recorder must never break the run
            pass

    __init__.__wrapped__ = orig
    cls.__init__ = __init__


def install_recorder():
    global _INSTALLED
    if _INSTALLED:
        return
    _INSTALLED = True
    for modname, clsname in RESULT_CLASSES:
        _wrap_init(getattr(importlib.import_module(modname), clsname))
    from pyimpspec.analysis.utility import set_default_num_procs

    set_default_num_procs(1)


def setup_shard():
    install_recorder()
    _selfcheck()


def shard_report():
    return dict(monitors.COUNTERS)


# ------------------------------------------------------------------------------------------------
# canonical (bit-exact) view of results, circuits, data sets
# ------------------------------------------------------------------------------------------------
def _fhex(x):
    x = float(x)
    return "nan" if x != x else x.hex()


def circuit_state(circuit):
    """Exact observable state of a circuit: CDC at 17 decimals + per element (symbol, label, hex values/limits, fixed)."""
    els = []
    for el in circuit.get_elements(recursive=True):
        vals = el.get_values()
        lo = el.get_lower_limits()
        hi = el.get_upper_limits()
        fx = el.are_fixed()
        els.append((el.get_symbol(), el.get_label(), tuple((k, _fhex(vals[k]), _fhex(lo[k]), _fhex(hi[k]), bool(fx[k])) for k in vals)))
    return (circuit.serialize(decimals=17), tuple(els))


def dataset_state(ds):
    return json.dumps(ds.to_dict(), sort_keys=True, default=str)


def canon(o, depth=0):
    """Hashable bit-exact canonical form of a value found in a result object."""
    from pyimpspec import Circuit

    if depth > 6:
        return ("deep", type(o).__name__)
    if isinstance(o, np.ndarray):
        return ("nd", str(o.dtype), tuple(o.shape), o.tobytes())
    if isinstance(o, (bool, np.bool_)):
        return ("b", bool(o))
    if isinstance(o, (int, np.integer)):
        return ("i", int(o))
    if isinstance(o, (float, np.floating)):
        return ("f", _fhex(o))
    if isinstance(o, (complex, np.complexfloating)):
        return ("c", _fhex(o.real), _fhex(o.imag))
    if isinstance(o, str) or o is None:
        return ("s", o)
    if isinstance(o, Circuit):
        return ("circuit",) + circuit_state(o)
    if isinstance(o, dict):
        return ("d", tuple(sorted(((str(k), canon(v, depth + 1)) for k, v in o.items()), key=lambda kv: kv[0])))
    if isinstance(o, (list, tuple)):
        return ("l", tuple(canon(v, depth + 1) for v in o))
    if dataclasses.is_dataclass(o) and not isinstance(o, type):
        return ("dc", type(o).__name__, tuple((f.name, canon(getattr(o, f.name), depth + 1)) for f in dataclasses.fields(o)))
    if type(o).__name__ == "MinimizerResult":
        return ("mr", int(getattr(o, "nfev", -1)), _fhex(getattr(o, "chisqr", float("nan"))), int(getattr(o, "ndata", -1)), int(getattr(o, "nvarys", -1)))
    return ("other", type(o).__name__)


def result_fields(res):
    return [(f.name, canon(getattr(res, f.name))) for f in dataclasses.fields(res)]


def _describe_diff(res_a, res_b):
    """First differing field of two results of the same class, with the size of the difference for arrays."""
    if type(res_a) is not type(res_b):
        return f"class {type(res_a).__name__} vs {type(res_b).__name__}", "class"
    for f in dataclasses.fields(res_a):
        a, b = getattr(res_a, f.name), getattr(res_b, f.name)
        if canon(a) == canon(b):
            continue
        if isinstance(a, np.ndarray) and isinstance(b, np.ndarray):
            if a.shape != b.shape:
                return f"field {f.name}: shape {a.shape} vs {b.shape}", f.name
            with np.errstate(all="ignore"):
                d = np.abs(a - b)
                d = d[np.isfinite(d)]
            return f"field {f.name}: max abs difference {float(d.max()) if d.size else float('nan')!r}", f.name
        if isinstance(a, (float, np.floating)):
            return f"field {f.name}: {float(a)!r} vs {float(b)!r}", f.name
        if isinstance(a, str):
            return f"field {f.name}: {a!r} vs {b!r}", f.name
        return f"field {f.name} ({type(a).__name__}) differs", f.name
    return None, None


# ------------------------------------------------------------------------------------------------
# items: concrete, JSON-able descriptions of one analysis call on one data set
# ------------------------------------------------------------------------------------------------
def _arrays(item):
    f = np.array(item["f"], dtype=float)
    Z = np.array([complex(a, b) for a, b in item["Z"]], dtype=complex)
    M = np.zeros(len(f), dtype=bool)
    if item["mask"]:
        M[np.array(item["mask"], dtype=int)] = True
    return f, Z, M


def make_dataset(item, variant):
    """The data set of `item` in one of its variants: 'base', a POISON key, or 'rm' (masked points removed)."""
    from pyimpspec import DataSet

    f, Z, M = _arrays(item)
    if variant == "rm":
        f2, Z2 = f[~M].copy(), Z[~M].copy()
        if item["asc"]:
            f2, Z2 = f2[::-1].copy(), Z2[::-1].copy()
        return DataSet(f2, Z2, label="c08")
    Z2 = Z.copy()
    if variant != "base":
        Z2[M] = complex(*POISON[variant])
    n = len(f)
    idx = [int(i) for i in np.nonzero(M)[0]]
    f2 = f.copy()
    if item["asc"]:
        f2, Z2 = f2[::-1].copy(), Z2[::-1].copy()
        idx = [n - 1 - i for i in idx]
    if item.get("mask_style") == "full":
        s = set(idx)
        mask = {i: (i in s) for i in range(n)}
    else:
        mask = {i: True for i in idx}
    return DataSet(f2, Z2, mask=mask, label="c08")


def cell_of(item):
    op, o = item["op"], item["opts"]
    if op == "kk":
        rep = {None: "both", True: "Y", False: "Z"}[o.get("admittance")]
        return f"kk{'-auto' if o.get('num_RC', 0) < 1 else ''}/{o['test']}/{rep}"
    if op == "logfext":
        return f"logfext/{o['test']}/{'Y' if o.get('admittance') else 'Z'}"
    if op == "explore":
        return f"explore/{o['test']}"
    if op == "zhit":
        return f"zhit/{'Y' if o.get('admittance') else 'Z'}"
    if op == "drt":
        return f"drt-{o['method']}"
    return op


def _invoke(item, ds, circuit, hooks):
    """Call the entry point.  Returns (list of returned result objects, canonical extras of the returned structure)."""
    import pyimpspec
    from pyimpspec.analysis.kramers_kronig import evaluate_log_F_ext, perform_exploratory_kramers_kronig_tests

    op = item["op"]
    o = dict(item["opts"])
    o.pop("num_RCs_order", None)
    form = o.pop("num_RCs_form", "list")
    if "num_RCs" in o:
        o["num_RCs"] = {"list": list, "tuple": tuple, "ndarray": np.array}[form](o["num_RCs"])
    if op == "kk":
        r = pyimpspec.perform_kramers_kronig_test(ds, num_procs=1, **o)
        return [r], ()
    if op == "logfext":
        ev = evaluate_log_F_ext(ds, num_procs=1, **o)
        out = []
        extra = []
        for log_F_ext, results, statistic in ev:
            out.extend(results)
            extra.append((_fhex(log_F_ext), len(results), _fhex(statistic)))
        return out, tuple(extra)
    if op == "explore":
        tests, suggestion = perform_exploratory_kramers_kronig_tests(ds, num_procs=1, **o)
        extra = (canon(suggestion[1]), canon(suggestion[2]), canon(suggestion[3]), tuple(id(t) == id(suggestion[0]) for t in tests))
        return list(tests) + [suggestion[0]], extra
    if op == "zhit":
        if "weights" in o:
            o["weights"] = np.array(o["weights"], dtype=np.float64)
        return [pyimpspec.perform_zhit(ds, num_procs=1, **o)], ()
    if op == "drt":
        method = o.pop("method")
        if method == "mrq-fit":
            prefit = o.pop("prefit")
            foreign = o.pop("foreign", False)
            if prefit:
                fit = pyimpspec.fit_circuit(circuit, ds, method=prefit[0], weight=prefit[1], num_procs=1)
                hooks["extra_circuit"] = fit.circuit
                hooks["extra_before"] = circuit_state(fit.circuit)
                if foreign:
                    # a fit object together with a circuit that is NOT the fitted one (same code, other object and values): the library
                    # refuses this today; whatever it returns instead must still be one consistent result
                    return [pyimpspec.calculate_drt(ds, method="mrq-fit", circuit=circuit, fit=fit, num_procs=1, **o)], ()
                return [pyimpspec.calculate_drt(ds, method="mrq-fit", circuit=fit.circuit, fit=fit, num_procs=1, **o)], ()
            return [pyimpspec.calculate_drt(ds, method="mrq-fit", circuit=circuit, num_procs=1, **o)], ()
        if method == "tr-nnls":
            return [pyimpspec.calculate_drt(ds, method=method, **o)], ()
        return [pyimpspec.calculate_drt(ds, method=method, num_procs=1, **o)], ()
    if op == "fit":
        return [pyimpspec.fit_circuit(circuit, ds, num_procs=1, **o)], ()
    raise ValueError(op)


def run_variant(item, variant):
    """One execution of the item's analysis on one variant of its data set."""
    ds = make_dataset(item, variant)
    circuit = fit_model.build(item["circuit"]) if item.get("circuit") else None
    ds_before = dataset_state(ds)
    circ_before = circuit_state(circuit) if circuit is not None else None
    hooks = {}
    _REC.clear()
    np.random.seed(int(item["np_seed"]))
    out = {"variant": variant, "exc": None, "ret": [], "extra": (), "rec": []}
    try:
        with warnings.catch_warnings():
            warnings.simplefilter("ignore")
            with np.errstate(all="ignore"):
                out["ret"], out["extra"] = _invoke(item, ds, circuit, hooks)
    except Exception as e:  # library exception: classified by the caller
        out["exc"] = e
    out["rec"] = list(_REC)
    _REC.clear()
    out["ds_changed"] = dataset_state(ds) != ds_before
    out["circ_changed"] = False
    if circuit is not None and circuit_state(circuit) != circ_before:
        out["circ_changed"] = True
    if hooks.get("extra_circuit") is not None and circuit_state(hooks["extra_circuit"]) != hooks["extra_before"]:
        out["circ_changed"] = True
    return out


# ------------------------------------------------------------------------------------------------
# oracle
# ------------------------------------------------------------------------------------------------
class Acc:
    def __init__(self):
        self.viol = []
        self.stats = {}
        self.maxobs = {}
        self.evals = 0

    def stat(self, k, n=1):
        self.stats[k] = self.stats.get(k, 0) + n

    def obs(self, k, v):
        v = float(v)
        if v == v:
            self.maxobs[k] = max(self.maxobs.get(k, v), v)

    def bad(self, key, msg, item):
        if sum(1 for v in self.viol if v["key"] == key) < 3:
            self.viol.append({"key": key, "msg": msg, "witness": {"cell": cell_of(item), "opts": item["opts"], "n": len(item["f"]),
                                                                   "masked": len(item["mask"]), "asc": item["asc"],
                                                                   "replay_case": {"kind": "explicit", "item": item}}})


def check_result(res, f_u, Z_u, item, variant, acc):
    """The four identities on one recorded result."""
    cls = type(res).__name__
    cell = cell_of(item)
    tag = f"{cell} [{cls}, variant {variant}]"
    acc.stat("checked." + cls)
    acc.evals += 1
    fr = np.asarray(res.frequencies)
    if fr.shape != f_u.shape or not np.array_equal(fr, f_u):
        acc.bad(f"C08/frequencies:{cell}", f"{tag}: result has {fr.size} frequencies {fr[:4].tolist()}..., the data set has {f_u.size} unmasked "
                f"frequencies {f_u[:4].tolist()}...", item)
        if fr.shape != f_u.shape:
            return
    Zm = np.asarray(res.impedances)
    r = np.asarray(res.residuals)
    if Zm.shape != f_u.shape or r.shape != f_u.shape:
        acc.bad(f"C08/residuals:{cell}", f"{tag}: impedances {Zm.shape} / residuals {r.shape} do not have one value per unmasked frequency {f_u.shape}", item)
        return
    with np.errstate(all="ignore"):
        ref = (Z_u - Zm) / np.abs(Z_u)
        fin = np.isfinite(ref) & np.isfinite(r)
        if not fin.all():
            acc.stat("nonfinite-residuals." + cls)
        if r.tobytes() == ref.tobytes():
            dev = 0.0
        elif fin.any():
            dev = float(np.max(np.abs(r[fin] - ref[fin])) / max(1.0, float(np.max(np.abs(ref[fin])))))
        else:
            dev = 0.0
        if not np.array_equal(np.isfinite(ref), np.isfinite(r)):
            dev = float("inf")
    acc.obs("residual_dev." + cls, dev if math.isfinite(dev) else 1e300)
    if dev > RES_TOL:
        i = int(np.argmax(np.where(fin, np.abs(r - ref), -1.0))) if fin.any() else 0
        acc.bad(f"C08/residuals:{cell}", f"{tag}: residuals differ from (Z_data - Z_model)/|Z_data| by {dev!r} (point {i}: reported {complex(r[i])!r}, "
                f"reference {complex(ref[i])!r})", item)
    # pseudo chi-squared
    with np.errstate(all="ignore"):
        refchi = float(np.sum(np.abs(ref) ** 2))
    chi = float(res.pseudo_chisqr)
    n = f_u.size
    if math.isfinite(refchi) and math.isfinite(chi):
        tol = CHI_REL * refchi + 2.0 * CHI_DELTA * math.sqrt(n * refchi) + n * CHI_DELTA**2
        d = abs(chi - refchi)
        acc.obs("chisqr_dev_over_tol." + cls, d / tol)
        if refchi > 1e-20:
            acc.obs("chisqr_rel_dev." + cls, d / refchi)
        if d > tol:
            key = f"C08/chisqr:{cell}"
            if item["op"] == "zhit" and item["opts"].get("admittance"):
                with np.errstate(all="ignore"):
                    if float(np.min((1.0 / Z_u).real)) < 0.0:
                        key = "C08/zhit-admittance-offset-chisqr"
            acc.bad(key, f"{tag}: pseudo_chisqr {chi!r} but the sum of squared moduli of the residuals is {refchi!r} (N={n})", item)
    elif math.isfinite(refchi) != math.isfinite(chi):
        acc.bad(f"C08/chisqr:{cell}", f"{tag}: pseudo_chisqr {chi!r} vs reference {refchi!r}", item)
    else:
        acc.stat("nonfinite-chisqr." + cls)
    # attached circuit
    circ = getattr(res, "circuit", None)
    if circ is not None:
        try:
            with np.errstate(all="ignore"), warnings.catch_warnings():
                warnings.simplefilter("ignore")
                Zc = np.asarray(circ.get_impedances(fr))
        except Exception as e:  # cannot evaluate: counted, not decided
            acc.stat(f"circuit-eval-raised.{cls}.{type(e).__name__}")
            return
        acc.stat("circuit-checked." + cls)
        with np.errstate(all="ignore"):
            if Zc.tobytes() == Zm.tobytes():
                cdev = 0.0
            else:
                q = np.abs(Zm - Zc) / np.maximum(np.abs(Zc), 1e-300)
                q = q[np.isfinite(q)]
                cdev = float(q.max()) if q.size else 0.0
                if not np.array_equal(np.isfinite(Zc), np.isfinite(Zm)):
                    cdev = float("inf")
        acc.obs("circuit_dev." + cls, cdev if math.isfinite(cdev) else 1e300)
        if cdev > CIRC_TOL:
            acc.bad(f"C08/circuit-impedance:{cell}", f"{tag}: reported impedances differ from the attached circuit's impedance by {cdev!r} (relative); "
                    f"circuit {circ.to_string(4)[:200]}", item)


def _exc_desc(e):
    o = monitors.exception_origin(e)
    return f"{o['type']} at {o['file']}:{o['func']}: {str(e)[:160]}"


def check_item(item, acc):
    """Run base + variants of one item and apply every clause."""
    cell = cell_of(item)
    f, Z, M = _arrays(item)
    f_u, Z_u = f[~M], Z[~M]
    acc.stat("items." + cell)
    if "num_RCs_order" in item["opts"]:
        acc.stat(f"list-arg.{item['op']}.num_RCs.{item['opts']['num_RCs_order']}")
        acc.stat(f"list-arg.{item['op']}.num_RCs.form-{item['opts'].get('num_RCs_form', 'list')}")
    if "methods" in item["opts"]:
        acc.stat(f"list-arg.{item['op']}.methods")
    runs = {}
    for variant in ["base"] + list(item.get("variants", [])):
        run = run_variant(item, variant)
        runs[variant] = run
        acc.stat("calls." + item["op"])
        if variant != "base":
            acc.stat("mask-reruns." + ("removed" if variant == "rm" else "poison"))
        if run["exc"] is not None:
            acc.stat(f"raised.{item['op']}.{type(run['exc']).__name__}")
            acc.stat("calls-raised." + item["op"])
        else:
            acc.stat("calls-ok." + item["op"])
        if run["ds_changed"]:
            acc.bad(f"C08/dataset-modified:{cell}", f"{cell} [variant {variant}]: DataSet.to_dict() changed during the call", item)
        if run["circ_changed"]:
            acc.bad(f"C08/circuit-modified:{cell}", f"{cell} [variant {variant}]: the input circuit's serialisation/parameter state changed during the call", item)
        acc.evals += 1
        for res in run["rec"]:
            check_result(res, f_u, Z_u, item, variant, acc)
    base = runs["base"]
    for variant, run in runs.items():
        if variant == "base":
            continue
        clause = "mask-presence" if variant == "rm" else "mask-influence"
        what = "with the masked points removed" if variant == "rm" else f"with {complex(*POISON[variant])!r} on the masked points"
        acc.evals += 1
        if (base["exc"] is None) != (run["exc"] is None):
            a = "returned" if base["exc"] is None else "raised " + _exc_desc(base["exc"])
            b = "returned" if run["exc"] is None else "raised " + _exc_desc(run["exc"])
            acc.bad(f"C08/{clause}-raised:{cell}", f"{cell}: base run {a}; the run {what} {b}", item)
            continue
        if base["exc"] is not None and type(base["exc"]) is not type(run["exc"]):
            acc.bad(f"C08/{clause}-raised:{cell}", f"{cell}: base run raised {_exc_desc(base['exc'])}; the run {what} raised {_exc_desc(run['exc'])}", item)
            continue
        # both returned, or both raised the same exception type: whatever was constructed on the way must still agree
        if len(base["rec"]) != len(run["rec"]):
            acc.bad(f"C08/{clause}:{cell}", f"{cell}: {len(base['rec'])} result objects were constructed in the base run, {len(run['rec'])} in the run {what}", item)
            continue
        diff = None
        for k, (ra, rb) in enumerate(zip(base["rec"], run["rec"])):
            if result_fields(ra) != result_fields(rb) or type(ra) is not type(rb):
                d, field = _describe_diff(ra, rb)
                diff = f"result #{k} ({type(ra).__name__}) of {len(base['rec'])}: {d}"
                break
        if diff is None:
            ia = [next((k for k, r in enumerate(base["rec"]) if r is x), -1) for x in base["ret"]]
            ib = [next((k for k, r in enumerate(run["rec"]) if r is x), -1) for x in run["ret"]]
            if ia != ib:
                diff = f"different result objects were returned (indices among the constructed results {ia[:6]} vs {ib[:6]})"
            elif base["extra"] != run["extra"]:
                diff = "the returned structure (extension/statistic/suggestion values) differs"
        acc.stat("compared." + clause + ("" if base["exc"] is None else "-partial"))
        if diff is not None:
            acc.bad(f"C08/{clause}:{cell}", f"{cell}: the run {what} is not bit-identical to the base run: {diff}", item)
    nres = len(base["rec"])
    acc.stat("results-per-item." + item["op"], nres)
    return nres


# ------------------------------------------------------------------------------------------------
# generators
# ------------------------------------------------------------------------------------------------
def _jf(x):
    return [float(v) for v in x]


def _jz(Z):
    return [[float(z.real), float(z.imag)] for z in Z]


def gen_spectrum(rng, n, family=None, ndr=False, wide=False):
    """(f descending, Z with noise, true spec, family).  wide: resistance scale 1e-2..1e6 ohm instead of 1..1e4, shifted windows."""
    family = family or str(rng.choice(fit_model.FAMILIES))
    spec, f_lo, f_hi, _ppd = fit_model.gen_true(rng, family, wide=wide)
    lg = np.linspace(math.log10(f_hi), math.log10(f_lo), n)
    step = abs(lg[1] - lg[0])
    lg = lg + rng.uniform(-0.3, 0.3, size=n) * step
    f = 10.0**lg
    Z = np.asarray(fit_model.build(spec).get_impedances(f), dtype=complex)
    if ndr:
        # negative differential resistance arc: Re(Z) < 0 at low frequencies -> min Re(Y) < 0
        Rn = -float(rng.uniform(1.2, 3.0)) * float(Z[-1].real)
        tau = 1.0 / (2 * math.pi * 10.0 ** rng.uniform(math.log10(f_lo) + 1.0, math.log10(f_hi) - 1.0))
        Z = Z + Rn / (1.0 + 1j * 2 * math.pi * f * tau)
    sigma = float(rng.choice([0.0, 1e-4, 1e-3, 5e-3, 2e-2]))
    if sigma > 0:
        Z = Z * (1.0 + sigma * (rng.normal(size=n) + 1j * rng.normal(size=n)))
    return f, Z, spec, family


def gen_mask(rng, n, nmin):
    """Sorted indices (descending-frequency order) of masked points, leaving >= nmin unmasked."""
    style = str(rng.choice(["none", "random", "random", "random", "low", "high", "ends", "alternate", "single"]))
    M = np.zeros(n, dtype=bool)
    if style == "random":
        M = rng.random(n) < rng.uniform(0.05, 0.5)
    elif style == "low":
        M[n - int(rng.integers(1, max(2, n // 3 + 1))):] = True
    elif style == "high":
        M[: int(rng.integers(1, max(2, n // 3 + 1)))] = True
    elif style == "ends":
        M[: int(rng.integers(1, max(2, n // 4 + 1)))] = True
        M[n - int(rng.integers(1, max(2, n // 4 + 1))):] = True
    elif style == "alternate":
        M[int(rng.integers(0, 2))::2] = True
    elif style == "single":
        M[int(rng.integers(0, n))] = True
    idx = list(np.nonzero(M)[0])
    rng.shuffle(idx)
    while n - int(M.sum()) < nmin and idx:
        M[idx.pop()] = False
    return [int(i) for i in np.nonzero(M)[0]], style


def base_item(rng, op, opts_fn, n_lo, n_hi, nmin, family=None, ndr=False, nvar=None, wide=False):
    """Draw data + mask, then let opts_fn(rng, ctx) choose the options knowing the unmasked data."""
    n = int(rng.integers(max(n_lo, nmin), n_hi + 1))
    f, Z, spec, family = gen_spectrum(rng, n, family=family, ndr=ndr, wide=wide)
    mask, mstyle = gen_mask(rng, n, nmin)
    M = np.zeros(n, dtype=bool)
    M[mask] = True
    Zs = Z.copy()
    if mask:  # outliers on the masked points of the base variant
        Zs[M] = Z[M] * rng.uniform(0.2, 5.0, size=int(M.sum())) * np.exp(1j * rng.uniform(-0.5, 0.5, size=int(M.sum())))
    ctx = {"f_u": f[~M], "Z_u": Z[~M], "n_u": int((~M).sum()), "spec": spec, "family": family, "n": n}
    opts, circuit = opts_fn(rng, ctx)
    poisons = list(POISON.keys())
    if not mask:
        variants = []
    else:
        k = len(poisons) if nvar is None else nvar
        variants = [str(p) for p in rng.permutation(poisons)[:k]] + ["rm"]
    return {"op": op, "opts": opts, "f": _jf(f), "Z": _jz(Zs), "mask": mask, "mask_pattern": mstyle, "asc": bool(rng.random() < 0.5),
            "mask_style": str(rng.choice(["sparse", "full"])), "circuit": circuit, "variants": variants,
            "np_seed": int(rng.integers(0, 2**31 - 1)), "family": family}


# ---- option generators -------------------------------------------------------------------------
def _kk_common(rng, test=None):
    test = test or str(rng.choice(KK_TESTS))
    add_l = True if test.endswith("-inv") else bool(rng.random() < 0.6)
    return {"test": test, "add_capacitance": bool(rng.random() < 0.6), "add_inductance": add_l}


def opts_kk_fixed(test=None):
    def fn(rng, ctx):
        o = _kk_common(rng, test)
        n_u = ctx["n_u"]
        mx = 2 * n_u - 5
        if o["test"].endswith("-inv"):
            mx = min(n_u + 10, mx)
        mx = min(mx, 12 if o["test"] == "cnls" else 40)
        o["num_RC"] = int(rng.integers(2, mx + 1))
        o["admittance"] = [None, True, False][int(rng.integers(0, 3))]
        o["num_F_ext_evaluations"] = 0
        o["log_F_ext"] = float(rng.choice([0.0, rng.uniform(-0.5, 0.5)]))
        if o["test"] == "cnls":
            o["max_nfev"] = int(rng.choice([0, 200]))
            o["timeout"] = 3600  # the default (60 s per fit) would make the outcome depend on wall-clock time under load
        return o, None

    return fn


def opts_kk_auto(test=None, nfext=None):
    def fn(rng, ctx):
        o = _kk_common(rng, test or str(rng.choice(["real", "complex", "imaginary", "complex-inv", "real-inv", "imaginary-inv"])))
        o["num_RC"] = 0
        o["admittance"] = [None, True, False][int(rng.integers(0, 3))]
        o["num_F_ext_evaluations"] = int(nfext if nfext is not None else rng.choice([0, 10, 20, -10]))
        if o["num_F_ext_evaluations"] == 0:
            o["log_F_ext"] = float(rng.choice([0.0, rng.uniform(-0.5, 0.5)]))
        else:
            o["rapid_F_ext_evaluations"] = bool(rng.random() < 0.7)
        if o["test"] == "cnls":
            o["timeout"] = 3600  # see opts_kk_fixed
        return o, None

    return fn


def _list_arg(rng, values, forms=True):
    """A list-valued argument in a hostile spelling: (values in some order, order tag, container form).
    Orders: ascending, descending, shuffled, duplicated (shuffled with 1..3 repeated entries).  Forms: list mostly; tuple and
    numpy array rarely (the unchanged tree refuses them up front with TypeError - counted, never a verdict)."""
    vals = sorted(set(values))
    order = str(rng.choice(["ascending", "descending", "descending", "shuffled", "shuffled", "duplicated", "duplicated"]))
    if order == "descending":
        vals = vals[::-1]
    elif order in ("shuffled", "duplicated"):
        if order == "duplicated":
            vals = vals + [vals[int(i)] for i in rng.integers(0, len(vals), size=int(rng.integers(1, 4)))]
        for _ in range(8):
            vals = [vals[int(i)] for i in rng.permutation(len(vals))]
            if vals != sorted(vals) or len(vals) < 2:
                break
    form = "list"
    if forms:
        form = str(rng.choice(["list"] * 15 + ["tuple", "ndarray"]))
    return vals, order, form


def _max_num_RC(test, n_u):
    mx = 2 * n_u - 5
    if test.endswith("-inv"):
        mx = min(n_u + 10, mx)
    return min(mx, 40)


def _explicit_num_RCs(rng, o, ctx, block=0.0):
    """block: probability of a contiguous block of values (the suggestion algorithms of the exploratory route need a dense
    range; sparse lists mostly end in an IndexError of suggest_num_RC_limits, which is C18's business)."""
    mx = _max_num_RC(o["test"], ctx["n_u"])
    if rng.random() < block:
        k = int(rng.integers(6, 13))
        a = 2 if rng.random() < 0.5 else int(rng.integers(2, max(3, mx - k)))
        values = list(range(a, min(mx, a + k) + 1))
    else:
        values = [int(v) for v in rng.integers(2, mx + 1, size=int(rng.integers(3, 9)))]
    vals, order, form = _list_arg(rng, values)
    o["num_RCs"] = vals
    o["num_RCs_order"] = order   # bookkeeping only, removed before the call
    o["num_RCs_form"] = form     # list | tuple | ndarray, applied in _invoke


def _lstsq_or_inv(rng):
    return str(rng.choice(["real", "complex", "imaginary", "real", "complex", "imaginary", "complex-inv", "real-inv", "imaginary-inv"]))


def opts_logfext_list(rng, ctx):
    """evaluate_log_F_ext with an explicit num_RCs list that is not (necessarily) ascending or duplicate-free."""
    o = _kk_common(rng, _lstsq_or_inv(rng))
    o["admittance"] = bool(rng.random() < 0.5)
    o["num_F_ext_evaluations"] = 0
    o["log_F_ext"] = float(rng.choice([0.0, rng.uniform(-0.5, 0.5)]))
    _explicit_num_RCs(rng, o, ctx)
    return o, None


def opts_explore_list(rng, ctx):
    """perform_exploratory_kramers_kronig_tests with an explicit, hostile num_RCs list and (sometimes) a hostile `methods` list."""
    o = _kk_common(rng, _lstsq_or_inv(rng))
    o["admittance"] = [None, True, False][int(rng.integers(0, 3))]
    o["num_F_ext_evaluations"] = 0
    o["log_F_ext"] = float(rng.choice([0.0, rng.uniform(-0.5, 0.5)]))
    _explicit_num_RCs(rng, o, ctx, block=0.65)
    if rng.random() < 0.4:
        m, _order, _form = _list_arg(rng, [int(v) for v in rng.integers(1, 7, size=int(rng.integers(1, 5)))], forms=False)
        o["methods"] = m
        if len(m) > 1:
            o[str(rng.choice(["use_mean", "use_sum", "use_ranking"]))] = True
    return o, None


def opts_logfext(rng, ctx):
    o = _kk_common(rng, str(rng.choice(["real", "complex", "imaginary", "complex-inv", "real-inv"])))
    o["admittance"] = bool(rng.random() < 0.5)
    o["num_F_ext_evaluations"] = int(rng.choice([0, 0, 10, 20, -10]))
    if o["num_F_ext_evaluations"] == 0:
        o["log_F_ext"] = float(rng.choice([0.0, rng.uniform(-0.5, 0.5)]))
        if rng.random() < 0.5:
            _explicit_num_RCs(rng, o, ctx)
    else:
        o["rapid_F_ext_evaluations"] = bool(rng.random() < 0.7)
        o["min_log_F_ext"] = float(rng.choice([-1.0, -0.5]))
        o["max_log_F_ext"] = float(rng.choice([1.0, 0.5]))
    return o, None


def opts_explore(rng, ctx):
    o = _kk_common(rng, str(rng.choice(["real", "complex", "imaginary", "complex-inv"])))
    o["admittance"] = [None, True, False][int(rng.integers(0, 3))]
    o["num_F_ext_evaluations"] = int(rng.choice([0, 10, 20]))
    return o, None


def opts_zhit(auto=None, admittance=None):
    def fn(rng, ctx):
        n_u = ctx["n_u"]
        lf = np.log10(ctx["f_u"])
        num_points = int(rng.integers(3, max(4, min(9, n_u - 1))))
        o = {
            "smoothing": str(rng.choice(SMOOTHINGS)),
            "interpolation": str(rng.choice(INTERPOLATIONS)),
            "num_points": num_points,
            "polynomial_order": int(rng.integers(1, min(4, num_points))),
            "num_iterations": int(rng.integers(1, 4)),
            "admittance": bool(rng.random() < 0.5) if admittance is None else bool(admittance),
        }
        if o["smoothing"] == "modsinc":  # the modified-sinc kernel is defined for even degrees only (refused up front otherwise)
            o["polynomial_order"] = 2
        if rng.random() < 0.2:
            w = rng.uniform(0.0, 1.0, size=n_u)
            w[rng.random(n_u) < 0.3] = 0.0
            w[int(rng.integers(0, n_u))] = 1.0
            o["weights"] = _jf(w)
        else:
            o["window"] = str(rng.choice(WINDOWS))
            o["center"] = float(rng.uniform(lf.min() + 0.3 * (lf.max() - lf.min()), lf.max() - 0.3 * (lf.max() - lf.min())))
            o["width"] = float(rng.uniform(1.5, 4.0))
        if auto == "smoothing":
            o["smoothing"] = "auto"
            o["num_points"] = max(3, o["num_points"])
            o["polynomial_order"] = min(2, o["num_points"] - 1)
        elif auto == "interpolation":
            o["interpolation"] = "auto"
        if auto in ("window", "all"):
            o.pop("weights", None)
            o["window"] = "auto"
            o.setdefault("center", float(lf.mean()))
            o.setdefault("width", 3.0)
        if auto == "all":
            o["smoothing"] = "auto"
            o["interpolation"] = "auto"
            o["num_points"] = max(3, o["num_points"])
            o["polynomial_order"] = min(2, o["num_points"] - 1)
        return o, None

    return fn


def opts_nnls(rng, ctx):
    lam = [float(10.0 ** rng.uniform(-5, -1)), -1.0, -2.0][int(rng.integers(0, 3))]
    return {"method": "tr-nnls", "mode": str(rng.choice(["real", "imaginary", "complex"])), "lambda_value": lam, "max_iter": 100000}, None


def opts_lm(order_method=None):
    def fn(rng, ctx):
        n_even = ctx["n_u"] - (ctx["n_u"] % 2)
        o = {"method": "lm"}
        m = order_method or str(rng.choice(["matrix_rank", "explicit"]))
        if m == "explicit":
            o["model_order"] = int(rng.integers(1, n_even + 1))
        elif m == "pseudo_chisqr_default":  # the Kramers-Kronig test inside runs with its default (automatic) options
            o["model_order_method"] = "pseudo_chisqr"
        elif m == "pseudo_chisqr":
            o["model_order_method"] = "pseudo_chisqr"
            o["test"] = str(rng.choice(["complex", "real"]))
            o["admittance"] = bool(rng.random() < 0.3)
            o["num_RC"] = int(rng.integers(3, min(2 * ctx["n_u"] - 5, 20) + 1))
            o["num_F_ext_evaluations"] = 0
        else:
            o["model_order_method"] = "matrix_rank"
        return o, None

    return fn


def opts_bht(small=True):
    def fn(rng, ctx):
        return {"method": "bht", "rbf_type": str(rng.choice(RBF_TYPES)), "derivative_order": int(rng.integers(1, 3)),
                "rbf_shape": str(rng.choice(["fwhm", "factor"])), "shape_coeff": float(rng.choice([0.5, 0.3, 1.0])),
                "num_samples": int(rng.choice([50, 200])) if small else 2000, "num_attempts": int(rng.integers(1, 4)) if small else 10,
                "maximum_symmetry": float(rng.choice([0.5, 0.0, 1.0]))}, None

    return fn


def opts_mrq(prefit=True):
    def fn(rng, ctx):
        start = fit_model.perturb(rng, ctx["spec"], factor=2.0, dn=0.03)
        o = {"method": "mrq-fit", "gaussian_width": float(rng.choice([0.15, 0.3])), "num_per_decade": int(rng.choice([10, 100])),
             "prefit": [str(rng.choice(["least_squares", "leastsq"])), str(rng.choice(["boukamp", "modulus", "proportional"]))] if prefit else None}
        if prefit and rng.random() < 0.3:
            o["foreign"] = True
        return o, start

    return fn


def opts_fit(mode="single"):
    def fn(rng, ctx):
        start = fit_model.perturb(rng, ctx["spec"], factor=float(rng.choice([1.5, 3.0])), dn=0.05)
        if mode == "single":
            o = {"method": str(rng.choice(FIT_METHODS)), "weight": str(rng.choice(FIT_WEIGHTS))}
        elif mode == "list":
            o = {"method": [str(m) for m in rng.permutation(FIT_METHODS)[: int(rng.integers(2, 4))]],
                 "weight": [str(w) for w in rng.permutation(FIT_WEIGHTS)[: int(rng.integers(1, 3))]]}
            if rng.random() < 0.3:  # list arguments are also fed with repeated entries
                key = str(rng.choice(["method", "weight"]))
                o[key] = o[key] + [o[key][int(rng.integers(0, len(o[key])))]]
        else:
            o = {"method": "auto", "weight": "auto"}
        if rng.random() < 0.2:
            o["max_nfev"] = int(rng.choice([100, 1000]))
        return o, start

    return fn


# (name, op, opts_fn, n_lo, n_hi, nmin, family, ndr, nvar, items/case, estimated cpu-s per case, #cases)
def _plan(tier):
    q = tier == "quick"

    def c(a, b):
        return a if q else b

    P = []
    for t in KK_TESTS[:6]:
        P.append((f"kk-fixed-{t}", "kk", opts_kk_fixed(t), 5, 80, 5, None, "mix", None, 12, 0.4, c(2, 20)))
    P.append(("kk-fixed-cnls", "kk", opts_kk_fixed("cnls"), 8, 40, 8, None, False, 2, 2, 1.5, c(4, 30)))
    P.append(("kk-auto", "kk", opts_kk_auto(), 24, 70, 20, None, "mix", 2, 1, 6.0, c(8, 90)))
    P.append(("logfext", "logfext", opts_logfext, 24, 70, 20, None, "mix", 2, 1, 6.5, c(6, 70)))
    P.append(("explore", "explore", opts_explore, 24, 60, 20, None, "mix", 1, 1, 4.0, c(4, 50)))
    P.append(("zhit-Z", "zhit", opts_zhit(admittance=False), 8, c(40, 60), 7, None, False, 2, 3, 4.0, c(5, 60)))
    P.append(("zhit-Y", "zhit", opts_zhit(admittance=True), 8, c(40, 60), 7, None, False, 2, 3, 4.0, c(3, 40)))
    P.append(("zhit-Y-ndr", "zhit", opts_zhit(admittance=True), 8, c(40, 60), 7, None, True, 2, 3, 4.0, c(6, 70)))
    P.append(("zhit-Z-ndr", "zhit", opts_zhit(admittance=False), 8, c(40, 60), 7, None, True, 2, 3, 4.0, c(2, 20)))
    for a in ("smoothing", "interpolation", "window"):
        P.append((f"zhit-auto-{a}", "zhit", opts_zhit(auto=a), 10, 30, 9, None, "mix", 1, 1, 3.0, c(2, 20)))
    P.append(("drt-nnls", "drt", opts_nnls, 5, 80, 5, None, "mix", None, 12, 0.5, c(8, 80)))
    P.append(("drt-lm", "drt", opts_lm(), 6, 60, 5, None, False, 2, 3, 0.2, c(8, 100)))
    P.append(("drt-lm-chisqr", "drt", opts_lm("pseudo_chisqr"), 10, 30, 8, None, False, 1, 1, 0.1, c(3, 40)))
    P.append(("drt-bht", "drt", opts_bht(True), 8, 36, 7, None, False, 2, 2, 2.5, c(5, 60)))
    P.append(("drt-bht-default", "drt", opts_bht(False), 10, 30, 8, None, False, 1, 1, 6.0, c(1, 12)))
    P.append(("drt-mrq", "drt", opts_mrq(True), 12, 80, 10, MRQ_FAMILIES, False, 3, 6, 0.9, c(4, 50)))
    P.append(("drt-mrq-nofit", "drt", opts_mrq(False), 16, 40, 14, MRQ_FAMILIES, False, 1, 1, 18.0, c(1, 16)))
    P.append(("fit-single", "fit", opts_fit("single"), 10, 80, 9, None, False, 3, 6, 2.0, c(8, 100)))
    P.append(("fit-list", "fit", opts_fit("list"), 12, 60, 10, None, False, 2, 2, 3.3, c(4, 50)))
    P.append(("fit-auto", "fit", opts_fit("auto"), 14, 40, 12, None, False, 1, 1, 11.0, c(1, 16)))
    if not q:  # cells that are too slow for the quick tier
        P.append(("zhit-auto-all", "zhit", opts_zhit(auto="all"), 10, 26, 9, None, "mix", 1, 1, 12.0, 12))
        P.append(("drt-lm-chisqr-default", "drt", opts_lm("pseudo_chisqr_default"), 10, 30, 9, None, False, 1, 1, 10.0, 12))
        P.append(("kk-auto-cnls", "kk", opts_kk_auto("cnls", 0), 8, 16, 8, None, False, 1, 1, 10.0, 12))
    # hostile list arguments (appended last so that the seeds of the cells above stay what they were)
    P.append(("logfext-list", "logfext", opts_logfext_list, 10, 60, 9, None, "mix", 3, 10, 0.7, c(3, 30)))
    P.append(("explore-list", "explore", opts_explore_list, 10, 60, 9, None, "mix", 2, 10, 3.5, c(3, 30)))
    return P


def gen_cases(tier, seed):
    cases = []
    for name, *_rest in _plan(tier):
        cost, ncases = _rest[-2], _rest[-1]
        for j in range(ncases):
            cases.append({"kind": "batch", "plan": name, "cfg": name, "tier": tier, "seed": [int(seed), len(cases), j], "cost": cost})
    # longest first in boustrophedon rows of 16, so that the runner's round-robin split gives every shard a similar load
    cases.sort(key=lambda k: -k["cost"])
    out = []
    for r in range(0, len(cases), SHARDS):
        row = cases[r:r + SHARDS]
        out.extend(row if (r // SHARDS) % 2 == 0 else row[::-1])
    return out


def gen_items(case):
    plan = {p[0]: p for p in _plan(case["tier"])}[case["plan"]]
    name, op, opts_fn, n_lo, n_hi, nmin, family, ndr, nvar, count, _cost, _ncases = plan
    rng = np.random.default_rng(case["seed"])
    items = []
    for _ in range(count):
        fam = str(rng.choice(family)) if isinstance(family, list) else family
        use_ndr = bool(rng.random() < 0.3) if ndr == "mix" else bool(ndr)
        wide = case["tier"] == "thorough" and bool(rng.random() < 0.5)
        items.append(base_item(rng, op, opts_fn, n_lo, n_hi, nmin, family=fam, ndr=use_ndr, nvar=nvar, wide=wide))
    return items


# ------------------------------------------------------------------------------------------------
# runner API
# ------------------------------------------------------------------------------------------------
def _selfcheck():
    """The reference formulas on a hand-computed example, and the recorder on a constructed result."""
    from pyimpspec.analysis.zhit import ZHITResult

    Zd = np.array([3 + 4j, 1 + 0j])
    Zm = np.array([3 + 0j, 0 + 0j])
    ref = (Zd - Zm) / np.abs(Zd)
    assert np.allclose(ref, [0.8j, 1.0]) and abs(float(np.sum(np.abs(ref) ** 2)) - 1.64) < 1e-15
    _REC.clear()
    r = ZHITResult(frequencies=np.array([2.0, 1.0]), impedances=Zm, residuals=ref, pseudo_chisqr=1.64, smoothing="a", interpolation="b", window="c")
    assert len(_REC) == 1 and _REC[0] is r, "constructor recorder is not attached"
    _REC.clear()
    monitors.COUNTERS["constructed.ZHITResult"] = monitors.COUNTERS.get("constructed.ZHITResult", 1) - 1
    acc = Acc()
    item = {"op": "zhit", "opts": {"admittance": False}, "f": [2.0, 1.0], "Z": _jz(Zd), "mask": [], "asc": False}
    check_result(r, np.array([2.0, 1.0]), Zd, item, "base", acc)
    assert not acc.viol, acc.viol
    bad = ZHITResult(frequencies=np.array([2.0, 1.0]), impedances=Zm, residuals=ref * 1.001, pseudo_chisqr=1.65, smoothing="a", interpolation="b", window="c")
    _REC.clear()
    monitors.COUNTERS["constructed.ZHITResult"] -= 1
    acc = Acc()
    check_result(bad, np.array([2.0, 1.0]), Zd, item, "base", acc)
    assert sorted(v["key"] for v in acc.viol) == ["C08/chisqr:zhit/Z", "C08/residuals:zhit/Z"], acc.viol


def _slim(item):
    return {"cell": cell_of(item), "opts": {k: (v if not isinstance(v, list) or len(v) < 8 else f"<{len(v)} values>") for k, v in item["opts"].items()},
            "n": len(item["f"]), "masked": item["mask"], "mask_pattern": item.get("mask_pattern"), "asc": item["asc"], "mask_style": item.get("mask_style"),
            "family": item.get("family"), "variants": item.get("variants"), "f_max": item["f"][0], "f_min": item["f"][-1], "Z_first": item["Z"][0]}


def run_case(case):
    import time

    install_recorder()
    acc = Acc()
    t0 = time.process_time()
    items = [case["item"]] if case["kind"] == "explicit" else gen_items(case)
    keys = []
    sample = None
    for item in items:
        nres = check_item(item, acc)
        if nres > 0:
            keys.append((cell_of(item), len(item["f"]), item["asc"], tuple(item["mask"]), tuple(item["opts"].get("num_RCs", ()))))
        if sample is None:
            sample = _slim(item)
            sample["results_constructed_in_base_run"] = nres
    acc.stat("cpu_ms." + str(case.get("plan", "explicit")), int(1000 * (time.process_time() - t0)))  # cost accounting only, never a verdict
    return {"evals": acc.evals, "keys": keys, "viol": acc.viol[:20], "stats": acc.stats, "maxobs": acc.maxobs, "sample": sample}


OPS = ["kk", "logfext", "explore", "zhit", "drt", "fit"]
CLASSES = [c for _, c in RESULT_CLASSES]


def finalize(agg):
    inc = []
    st = agg["stats"]
    mon = agg["monitors"]
    for cls in CLASSES:
        if mon.get("constructed." + cls, 0) == 0:
            inc.append(f"constructor recorder never saw a {cls}")
        if st.get("checked." + cls, 0) == 0:
            inc.append(f"no {cls} was checked")
    for op in OPS:
        ok, bad = st.get("calls-ok." + op, 0), st.get("calls-raised." + op, 0)
        if ok == 0:
            inc.append(f"entry point '{op}' never returned a result")
        elif bad > ok:
            inc.append(f"entry point '{op}' raised in {bad} of {ok + bad} calls")
    for k in ("compared.mask-influence", "compared.mask-presence"):
        if st.get(k, 0) == 0:
            inc.append(f"{k} never evaluated")
    for cls in ("KramersKronigResult", "FitResult", "MRQFitResult"):
        if st.get("circuit-checked." + cls, 0) == 0:
            inc.append(f"circuit-impedance clause never evaluated on {cls}")
    info = {"results_checked_per_class": {c: st.get("checked." + c, 0) for c in CLASSES},
            "results_constructed_per_class": {c: mon.get("constructed." + c, 0) for c in CLASSES},
            "calls": {op: {"ok": st.get("calls-ok." + op, 0), "raised": st.get("calls-raised." + op, 0)} for op in OPS},
            "mask_reruns": {"poison": st.get("mask-reruns.poison", 0), "removed": st.get("mask-reruns.removed", 0)},
            "tolerances": {"RES_TOL": RES_TOL, "CHI_REL": CHI_REL, "CHI_DELTA": CHI_DELTA, "CIRC_TOL": CIRC_TOL}}
    return {"viol": [], "inconclusive": inc, "info": info}
