"""C20 - symbolic, LaTeX and diagram exports exist for every circuit that can be simulated.

Events: outcomes of to_sympy(False/True), to_latex, to_circuitikz (default, running, hide_labels), to_drawing, to_stack
for each generated circuit that simulates.  Oracle: none raises; to_sympy(True).free_symbols <= {f}; to_sympy(False) has
exactly one symbol per parameter of every element incl. those nested in containers (+ f); CircuiTikZ: one begin / one
end, exactly one `to[<kind>=$..$]` component per element of the circuit's connections (a container counts once, its
sub-circuit elements do not appear), labelled Sym_{\\rm id|label} as get_element_name names it, all coordinates finite;
to_stack concatenates to the basic CDC.

Dedicated probe cases (own mechanism keys, open known findings): labels that are not identifiers (to_sympy builds
names by string concatenation), the same label on two elements sharing a parameter key, degenerate connections
(single-child parallel, empty nested series) reachable only through the object route.
"""
import math
import re

import numpy as np

from .. import gen_circuit as G
from .. import monitors

ID = "C20"
RULE = (
    "circuits from vlib.gen_circuit that simulate: every topology with <=4 leaves (5 thorough) x leaf assignments over all 23 "
    "element classes, random trees to 14 leaves / nested containers, labels from identifier-safe classes (unique per circuit), "
    "built by the parser route and the object route; every export is produced and inspected. Non-trivial = circuit with >=2 "
    "elements; distinct = distinct (normal-form shape, label pattern). Probe cases: non-identifier labels, duplicate labels, "
    "degenerate connections."
)
ASSUMPTIONS = [
    "CircuiTikZ source is inspected textually (\\begin/\\end, to[kind=$label$] components, coordinates), not compiled with LaTeX",
    "to_drawing is required to return a schemdraw Drawing; rendering is attempted for plain labels only",
]
SHARDS = 16
CASE_TIMEOUT = 600
MIN_EVALS = 150
FREQS = np.array([0.1, 10.0, 1e4])
TIER = "quick"
COMP = re.compile(r"to\[([A-Za-z ]+)=\$(.*?)\$\]")
COORD = re.compile(r"\(([^(),]+),([^(),]+)\)")


class _Budget(BaseException):
    pass


def _limited(seconds, fn, *a, **k):
    import signal, time

    old = signal.getsignal(signal.SIGALRM)
    remaining = signal.alarm(0)
    t0 = time.time()

    def fire(s, f):
        raise _Budget()

    signal.signal(signal.SIGALRM, fire)
    signal.setitimer(signal.ITIMER_REAL, seconds)
    try:
        return fn(*a, **k)
    finally:
        signal.setitimer(signal.ITIMER_REAL, 0)
        signal.signal(signal.SIGALRM, old)
        if remaining:
            signal.alarm(max(1, int(remaining - (time.time() - t0))))


def all_elements(circuit):
    """every element incl. those nested in container sub-circuits, each once"""
    return list(circuit.generate_element_identifiers(running=True).keys())


def expected_symbols(circuit):
    ids = circuit.generate_element_identifiers(running=True)
    out = {}
    for e, i in ids.items():
        for k in e.get_values():
            out[f"{k}_{e.get_label()}" if e.get_label() else f"{k}_{i}"] = (e, k)
    return out


def _depends_on(circuit, e, k):
    v = e.get_value(k)
    try:
        with np.errstate(all="ignore"):
            z0 = circuit.get_impedances(FREQS)
            trial = v * 0.61 if v != 0 else 0.5
            if not (e.get_lower_limit(k) <= trial <= e.get_upper_limit(k)):
                trial = v * 1.3
            e.set_values(k, trial)
            z1 = circuit.get_impedances(FREQS)
    except Exception:
        return True
    finally:
        e.set_values(k, v)
    return not np.allclose(z0, z1, rtol=1e-12, atol=0)


def check_circuitikz(circuit, src, running, hide, bad, what):
    if src.count("\\begin{circuitikz}") != 1 or src.count("\\end{circuitikz}") != 1 or not src.strip().startswith("\\begin{circuitikz}") or not src.strip().endswith("\\end{circuitikz}"):
        bad("C20/circuitikz-begin-end", f"{what}: begin/end structure broken")
    comps = COMP.findall(src)
    tops = circuit.get_elements(recursive=True)  # elements of the circuit's connections (containers once)
    if len(comps) != len(tops):
        bad("C20/circuitikz-component-count", f"{what}: {len(comps)} components for {len(tops)} elements of the connections")
    ids = circuit.generate_element_identifiers(running=running)
    if not hide:
        exp = sorted(f"{e.get_symbol()}_{{\\rm {e.get_label() or ids[e]}}}" for e in tops)
        got = sorted(l for _, l in comps)
        if exp != got:
            bad("C20/circuitikz-labels", f"{what}: labels {got[:8]} expected {exp[:8]}")
        if not running:
            names = sorted(circuit.get_element_name(e) for e in tops)
            plain = sorted(l.replace("{\\rm ", "").replace("}", "") if l.endswith("}") else l for _, l in comps)
            if all("{" not in (e.get_label() or "") for e in tops) and names != plain:
                bad("C20/circuitikz-labels", f"{what}: labels {plain[:8]} differ from get_element_name {names[:8]}")
    else:
        if any(l != "" for _, l in comps):
            bad("C20/circuitikz-labels", f"{what}: hide_labels=True but labels present")
    # two different elements drawn at the identical place are indistinguishable: not "one component per element"
    placed = re.findall(r"\\draw \(([^()]+)\) to\[[A-Za-z ]+=\$.*?\$\] \(([^()]+)\);", src)
    if len(set(placed)) != len(placed):
        bad("C20/circuitikz-components-coincide", f"{what}: several element components share the same coordinates")
    for xs, ys in COORD.findall(src):
        try:
            if not (math.isfinite(float(xs)) and math.isfinite(float(ys))):
                bad("C20/circuitikz-coordinates", f"{what}: non-finite coordinate ({xs},{ys})")
                break
        except ValueError:
            bad("C20/circuitikz-coordinates", f"{what}: unparsable coordinate ({xs},{ys})")
            break


def check_exports(circuit, st, viol, witness, fkey=None, render=False):
    def bad(key, msg):
        viol.append({"key": fkey or key, "msg": f"{witness.get('cdc', '')[:160]}: {msg}", "witness": witness})

    # symbolic
    budget = 25 if TIER == "thorough" else 5
    over_budget = False
    for sub in (True, False):
        if over_budget:
            break
        try:
            expr = _limited(budget, circuit.to_sympy, substitute=sub)
        except _Budget:
            st["sympy_budget"] = st.get("sympy_budget", 0) + 1
            over_budget = True
            continue
        except Exception as e:
            o = monitors.exception_origin(e)
            bad(f"C20/to_sympy-raised:{type(e).__name__}@{o['func']}", f"to_sympy(substitute={sub}): {type(e).__name__}: {str(e)[:200]}")
            continue
        free = {str(s) for s in expr.free_symbols}
        st["sympy_checked"] = st.get("sympy_checked", 0) + 1
        if sub:
            if not free <= {"f"}:
                bad("C20/substituted-free-symbols", f"to_sympy(True) has free symbols {sorted(free)[:6]}")
        else:
            expmap = expected_symbols(circuit)
            exp = set(expmap.keys())
            missing = exp - free
            # a parameter may be absent only if the impedance genuinely does not depend on it (e.g. Zeta of a
            # transmission line whose two boundaries are shorted): verified numerically by perturbing it
            really_missing = []
            for sname in sorted(missing):
                e, k = expmap[sname]
                if _depends_on(circuit, e, k):
                    really_missing.append(sname)
                else:
                    st["symbol_absent_no_dependence"] = st.get("symbol_absent_no_dependence", 0) + 1
            n_params = sum(len(e.get_values()) for e in all_elements(circuit))
            if len(exp) < n_params:
                bad("C20/symbols-not-one-per-parameter", f"{n_params} parameters map to only {len(exp)} distinct symbol names (shared: e.g. {sorted(exp)[:4]})")
            if really_missing or (free - exp - {"f"}):
                bad("C20/symbols-not-one-per-parameter", f"to_sympy(False) symbols: missing {really_missing[:6]} unexpected {sorted(free - exp - {'f'})[:6]}")
    try:
        if over_budget:
            raise _Budget()
        tex = _limited(budget, circuit.to_latex)
        if not (isinstance(tex, str) and tex.startswith("Z = ") and len(tex) > 4):
            bad("C20/to_latex-format", f"to_latex returned {str(tex)[:60]!r}")
    except _Budget:
        st["sympy_budget"] = st.get("sympy_budget", 0) + 1
    except Exception as e:
        bad(f"C20/to_latex-raised:{type(e).__name__}", f"{type(e).__name__}: {str(e)[:200]}")
    # CircuiTikZ
    for running, hide in ((False, False), (True, False), (False, True)):
        what = f"to_circuitikz(running={running}, hide_labels={hide})"
        try:
            src = circuit.to_circuitikz(running=running, hide_labels=hide)
        except Exception as e:
            o = monitors.exception_origin(e)
            bad(f"C20/to_circuitikz-raised:{type(e).__name__}@{o['func']}", f"{what}: {type(e).__name__}: {str(e)[:200]}")
            continue
        st["circuitikz_checked"] = st.get("circuitikz_checked", 0) + 1
        check_circuitikz(circuit, src, running, hide, bad, what)
    # custom labels: a caller-supplied dict overrides the names of SOME elements; it is re-used for a second diagram with
    # running identifiers - the other elements must then follow the running identifiers, and the dict must stay as it was
    tops = circuit.get_elements(recursive=True)
    if len(tops) >= 2 and not fkey:
        custom = {e: f"X{i}" for i, e in enumerate(tops[: max(1, len(tops) // 2)])}
        snapshot = dict(custom)
        try:
            for running in (False, True):
                src = circuit.to_circuitikz(custom_labels=custom, running=running)
                ids = circuit.generate_element_identifiers(running=running)
                exp = sorted(custom[e] if e in snapshot else f"{e.get_symbol()}_{{\\rm {e.get_label() or ids[e]}}}" for e in tops)
                got = sorted(l for _, l in COMP.findall(src))
                st["custom_label_diagrams"] = st.get("custom_label_diagrams", 0) + 1
                if got != exp:
                    bad("C20/circuitikz-custom-labels", f"to_circuitikz(custom_labels=<{len(snapshot)} of {len(tops)} elements>, running={running}): labels {got[:8]} expected {exp[:8]}")
                    break
            circuit.to_drawing(custom_labels=custom)
            if custom != snapshot or len(custom) != len(snapshot):
                bad("C20/custom-labels-dict-modified", f"the caller's custom_labels dictionary grew from {len(snapshot)} to {len(custom)} entries")
        except Exception as e:
            o = monitors.exception_origin(e)
            bad(f"C20/custom-labels-raised:{type(e).__name__}@{o['func']}", f"{type(e).__name__}: {str(e)[:200]}")
    # drawing
    for kw in ({}, {"running": True}, {"hide_labels": True}):
        try:
            d = circuit.to_drawing(**kw)
            st["drawings"] = st.get("drawings", 0) + 1
            if d is None:
                bad("C20/to_drawing-none", f"to_drawing({kw}) returned None")
            elif render and not kw:
                try:
                    d.get_imagedata("svg")
                    st["drawings_rendered"] = st.get("drawings_rendered", 0) + 1
                except Exception as e:
                    bad(f"C20/drawing-render-raised:{type(e).__name__}", f"{type(e).__name__}: {str(e)[:200]}")
        except Exception as e:
            o = monitors.exception_origin(e)
            bad(f"C20/to_drawing-raised:{type(e).__name__}@{o['func']}", f"to_drawing({kw}): {type(e).__name__}: {str(e)[:200]}")
    # stack
    try:
        stack = circuit.to_stack()
        joined = "".join(s for s, _ in stack)
        if joined != circuit.to_string():
            bad("C20/to_stack-order", f"to_stack joins to {joined[:80]!r}, to_string() is {circuit.to_string()[:80]!r}")
        depth = 0
        for s, _ in stack:
            if s in "[(":
                depth += 1
            elif s in "])":
                depth -= 1
            if depth < 0:
                break
        if depth != 0:
            bad("C20/to_stack-balance", "to_stack brackets unbalanced")
        st["stacks"] = st.get("stacks", 0) + 1
    except Exception as e:
        bad(f"C20/to_stack-raised:{type(e).__name__}", f"{type(e).__name__}: {str(e)[:200]}")


def simulates(c):
    try:
        with np.errstate(all="ignore"):
            c.get_impedances(FREQS)
        return True
    except Exception:
        return False


def unique_safe_labels(rng, tree, p_label=0.4):
    pool = ["a", "ct", "bulk", "Rs", "x1", "outer_2", "Zq", "el", "dl", "s1", "s2", "film", "w", "ab", "cd", "_x", "_u1", "1a", "2nd", "k9"]
    rng.shuffle(pool)
    for e in G.iter_elements(tree):
        e["label"] = pool.pop() if (rng.random() < p_label and pool) else ""


def gen_cases(tier, seed):
    cases = []
    maxl = 4 if tier == "quick" else 5
    for n in range(1, maxl + 1):
        ntop = len(G.topologies(n)) if n > 1 else 1
        for i in range(0, ntop, 5):
            cases.append({"kind": "exh", "n": n, "lo": i, "hi": min(ntop, i + 5), "seed": [int(seed), 1, n, i], "assign": 2 if tier == "quick" else 6})
    for i in range(48 if tier == "quick" else 1500):
        cases.append({"kind": "rand", "seed": [int(seed), 2, i], "count": 2})
    for i in range(6 if tier == "quick" else 30):
        cases.append({"kind": "probe", "seed": [int(seed), 3, i], "count": 6})
    return cases


def setup_shard():
    import matplotlib, os

    global TIER
    TIER = os.environ.get("VERIF_TIER", "quick")

    matplotlib.use("Agg")
    G.catalogue()


def run_case(case):
    from pyimpspec import parse_cdc

    st, viol, keys = {}, [], []
    evals = 0
    sample = None
    if case["kind"] == "cdc":
        c = parse_cdc(case["cdc"])
        check_exports(c, st, viol, {"cdc": case["cdc"]}, render=True)
        return {"evals": 1, "keys": [case["cdc"]], "viol": viol, "stats": st}
    rng = np.random.default_rng(case["seed"])
    trees = []
    if case["kind"] == "exh":
        for shape in G.topologies(case["n"])[case["lo"]:case["hi"]]:
            for a in range(case["assign"]):
                syms = None if a % 2 == 0 else ["R", "C", "L", "Q", "W", "R", "C", "Tlm"]
                trees.append((G.random_tree(rng, case["n"], mode="physical", shape=shape, max_sub_depth=1, leaf_syms=syms, label_classes=["none"]), None))
    elif case["kind"] == "rand":
        for _ in range(case["count"]):
            n = int(rng.choice([2, 3, 5, 6, 8, 10, 14], p=[0.15, 0.2, 0.2, 0.15, 0.1, 0.1, 0.1]))
            syms = None if rng.random() < 0.5 else ["R", "C", "L", "Q", "W", "R", "C", "Tlm", "Zarc", "Ws"]
            trees.append((G.random_tree(rng, n, mode="physical", max_sub_depth=2 if n <= 6 else 1, leaf_syms=syms, label_classes=["none"], max_depth=7), None))
    else:  # probes: mechanisms that are open known findings
        for _ in range(case["count"]):
            r = rng.random()
            e1 = G.make_element_spec(rng, "R", label_classes=["none"])
            e2 = G.make_element_spec(rng, "Q", label_classes=["none"])
            e3 = G.make_element_spec(rng, "W", label_classes=["none"])
            if r < 0.35:
                e1["label"] = str(rng.choice(["x y", "a-b", "a:b", "p,q", "a(b)", "a+b", "a.b"]))
                trees.append(({"t": "S", "c": [e1, {"t": "P", "c": [e2, e3]}]}, "C20/label-not-identifier"))
            elif r < 0.6:
                e2["label"] = e3["label"] = "x"
                trees.append(({"t": "S", "c": [e1, {"t": "P", "c": [e2, e3]}]}, "C20/same-label-shared-symbols"))
            elif r < 0.8:
                trees.append(({"t": "S", "c": [{"t": "P", "c": [e1]}, e2]}, "C20/degenerate-connection"))
            else:
                trees.append(({"t": "S", "c": [{"t": "P", "c": [e1, {"t": "S", "c": []}]}, e2]}, "C20/degenerate-connection"))
    for t, fkey in trees:
        if fkey is None:
            nt = G.tiny_subcircuits(rng, t, 0.2)  # before labelling: the new elements get labels / identifiers like any other
            if nt:
                st["trees_with_tiny_subcircuit"] = st.get("trees_with_tiny_subcircuit", 0) + 1
            unique_safe_labels(rng, t)
            if rng.random() < 0.25:
                # exact shorts at the documented lower limit (R = 0, L = 0): the circuit still simulates, every export must still exist
                # and the un-substituted expression still has one variable per parameter
                top_ids = {id(e) for e in G.iter_elements(t, include_subs=False)}
                for e in G.iter_elements(t):
                    if e["sym"] in ("R", "L") and rng.random() < 0.4:
                        e["p"][e["sym"]][0] = G.enc(0.0)
                        st["elements_set_to_exact_short"] = st.get("elements_set_to_exact_short", 0) + 1
                        if id(e) not in top_ids:
                            t["_zero_in_subcircuit"] = True
        try:
            c_obj = G.build_objects(t)
        except Exception as e:
            viol.append({"key": f"C20/build-raised:{type(e).__name__}", "msg": monitors.tb_tail(e), "witness": {"tree": G.brief(G.nf(t))}})
            continue
        text = c_obj.to_string(12)
        routes = [("objects", c_obj)]
        if fkey is None or fkey in ("C20/label-not-identifier", "C20/same-label-shared-symbols"):
            try:
                routes.append(("parser", parse_cdc(text)))
            except Exception as e:
                viol.append({"key": fkey or f"C20/parse-raised:{type(e).__name__}", "msg": f"{e}", "witness": {"cdc": text}})
        n_before = len(viol)
        for name, c in routes:
            if not simulates(c):
                st["not_simulable"] = st.get("not_simulable", 0) + 1
                continue
            plain = all(G.label_class(e["label"]) in ("none", "word") for e in G.iter_elements(t))
            w = {"cdc": text, "route": name, "replay_case": {"kind": "cdc", "cdc": text}}
            check_exports(c, st, viol, w, fkey=fkey, render=plain and name == "parser" and evals % 3 == 0)
            evals += 1
            if G.count_elements(t) >= 2:
                keys.append((G.brief(G.nf(t)), tuple(bool(e["label"]) for e in G.iter_elements(t)), name))
        if isinstance(t, dict) and t.get("_zero_in_subcircuit"):
            # open finding: a container sub-circuit whose impedance is exactly zero is exported as a short, its parameters vanish
            for v in viol[n_before:]:
                if v["key"] == "C20/symbols-not-one-per-parameter" and "unexpected []" in v["msg"]:
                    v["key"] = "C20/symbols-not-one-per-parameter:exact-zero-container-subcircuit"
        for e in G.iter_elements(t):
            st["elem:" + e["sym"]] = st.get("elem:" + e["sym"], 0) + 1
        if sample is None:
            sample = {"cdc": text[:300]}
        if len(viol) > 12:
            break
    return {"evals": evals, "keys": keys, "viol": viol[:12], "stats": st, "sample": sample}


def finalize(agg):
    inc = []
    for need in ("sympy_checked", "circuitikz_checked", "drawings", "stacks", "drawings_rendered", "custom_label_diagrams"):
        if agg["stats"].get(need, 0) == 0:
            inc.append(f"'{need}' never observed")
    return {"viol": [], "inconclusive": inc}
