"""Independent reference model for the linear Kramers-Kronig tests (C07, C09).

Nothing in here imports pyimpspec.  The formulas are written from the papers the library cites:

 * time constants: Schoenleber et al. (2014) eq. 12 / Boukamp (1995) eq. 18 with the extension factor of
   Yrjana & Bobacka (2024):  tau_min = 1/(F_ext*w_max), tau_max = F_ext/w_min,
   tau_k = tau_min * (tau_max/tau_min)**((k-1)/(M-1)),  k = 1..M
   (taken literally also when the limits cross, i.e. log10(f_max/f_min) + 2 log_F_ext < 0: the tau_k then descend)
 * impedance model (Boukamp Fig. 1):   Z = R + sum_k R_k/(1 + j w tau_k) [+ 1/(j w C)] [+ j w L]
 * admittance model (Boukamp Fig. 13): Y = 1/R + sum_k j w C_k/(1 + j w tau_k) [+ j w C] [+ 1/(j w L)]

"Variables" are the coefficients in which the model is linear:
   Z: (R, R_1..R_M, 1/C, L)      Y: (1/R, C_1..C_M, C, 1/L)   (the library's own unknown for the parallel inductance
   is -1/L; here the physical 1/L is used, the sign lives in the basis function).
"""
import numpy as np

TESTS = ("complex", "real", "imaginary", "complex-inv", "real-inv", "imaginary-inv", "cnls")


def base_kind(test):
    return "complex" if test == "cnls" else test.replace("-inv", "")


def taus(f, num_RC, log_F_ext):
    w = 2.0 * np.pi * np.asarray(f, dtype=float)
    F = 10.0**log_F_ext
    tmin = 1.0 / (F * w.max())
    tmax = F / w.min()
    k = np.arange(1, num_RC + 1)
    return tmin * (tmax / tmin) ** ((k - 1.0) / (num_RC - 1.0))


def basis(f, tau, admittance, add_c, add_l):
    """Complex basis functions B (N x n): X(w) = B @ variables.  Column order: R|1/R, RC elements, [C term], [L term]."""
    w = 2.0 * np.pi * np.asarray(f, dtype=float)
    cols = [np.ones_like(w, dtype=complex)]
    for t in tau:
        if admittance:
            cols.append(1j * w / (1.0 + 1j * w * t))
        else:
            cols.append(1.0 / (1.0 + 1j * w * t))
    if add_c:
        cols.append(1j * w if admittance else 1.0 / (1j * w))
    if add_l:
        cols.append(1.0 / (1j * w) if admittance else 1j * w)
    return np.array(cols).T


def immittance(f, tau, var, admittance, add_c, add_l):
    """X = Z (impedance model) or Y (admittance model) for the variable vector var."""
    return basis(f, tau, admittance, add_c, add_l) @ np.asarray(var, dtype=float)


def impedance(f, tau, var, admittance, add_c, add_l):
    X = immittance(f, tau, var, admittance, add_c, add_l)
    return 1.0 / X if admittance else X


def contributions(f, tau, var, admittance, add_c, add_l):
    """max_w |variable_i * basis_i(w)| : the size of each term's largest contribution to the spectrum."""
    B = basis(f, tau, admittance, add_c, add_l)
    return np.abs(B).max(axis=0) * np.abs(np.asarray(var, dtype=float))


def variables_to_params(var, admittance, add_c, add_l):
    """Physical parameters as the library's circuit reports them."""
    var = list(var)
    M = len(var) - 1 - int(add_c) - int(add_l)
    out = {"R": (1.0 / var[0] if var[0] != 0 else np.inf) if admittance else var[0], "k": list(var[1 : 1 + M])}
    i = 1 + M
    if add_c:
        out["C"] = var[i] if admittance else (1.0 / var[i] if var[i] != 0 else np.inf)
        i += 1
    if add_l:
        out["L"] = (1.0 / var[i] if var[i] != 0 else np.inf) if admittance else var[i]
    return out


def params_to_variables(p, admittance, add_c, add_l):
    def inv(x):
        x = float(x)
        if x == 0.0:
            return np.inf
        if not np.isfinite(x):
            return 0.0
        return 1.0 / x

    v = [inv(p["R"]) if admittance else float(p["R"])]
    v.extend(float(x) for x in p["k"])
    if add_c:
        v.append(float(p["C"]) if admittance else inv(p["C"]))
    if add_l:
        v.append(inv(p["L"]) if admittance else float(p["L"]))
    return np.array(v, dtype=float)


def counts(N, num_RC, kind, add_c, add_l):
    """(#unknowns, #equations) of the main linear system of a variant."""
    if kind == "complex":
        return 1 + num_RC + int(add_c) + int(add_l), 2 * N
    if kind == "real":
        return 1 + num_RC, N
    return num_RC + int(add_c) + int(add_l), N


def _selfcheck():
    f = np.array([1000.0, 100.0, 10.0, 1.0])
    t = taus(f, 3, 0.0)
    w = 2 * np.pi * f
    assert abs(t[0] * w.max() - 1) < 1e-14 and abs(t[-1] * w.min() - 1) < 1e-14 and abs(t[1] ** 2 - t[0] * t[2]) < 1e-18
    t = taus(f, 2, 1.0)
    assert abs(t[0] * w.max() - 0.1) < 1e-14 and abs(t[-1] * w.min() - 10) < 1e-12
    # one RC element R_k=2 at tau: Z(w=1/tau) = R + 1 - 1j ; with series C=1/3 -> -3j/w ; L=5 -> +5jw
    tau = np.array([1.0 / (2 * np.pi * 10.0), 1.0])
    Z = impedance(np.array([10.0]), tau, [7.0, 2.0, 0.0, 3.0, 5.0], False, True, True)[0]
    w0 = 2 * np.pi * 10.0
    assert abs(Z - (7 + 1 - 1j - 3j / w0 + 5j * w0)) < 1e-12
    # admittance: series RC (C_k, R_k = tau/C_k): Y = jwC/(1+jw tau)
    Y = immittance(np.array([10.0]), tau[:1], [0.5, 4.0, 2.0, 0.25], True, True, True)[0]
    Rk = tau[0] / 4.0
    assert abs(Y - (0.5 + 1.0 / (Rk + 1.0 / (1j * w0 * 4.0)) + 1j * w0 * 2.0 + 0.25 / (1j * w0))) < 1e-9
    p = variables_to_params([0.5, 4.0, 2.0, 0.25], True, True, True)
    assert p == {"R": 2.0, "k": [4.0], "C": 2.0, "L": 4.0}
    assert np.allclose(params_to_variables(p, True, True, True), [0.5, 4.0, 2.0, 0.25])


_selfcheck()


# ------------------------------------------------------------------------------------------------
# Conditioning gate ("well-conditioned design matrix" made operational; computed from the harness's own matrices)
# ------------------------------------------------------------------------------------------------
def systems(f, tau, kind, admittance, add_c, add_l):
    """The linear systems a variant of the given kind solves, as (unscaled real matrix, slice of the variable vector).

    complex: one system (real rows over imaginary rows, all columns).
    real: main system (real rows; R and the RC columns) + a second system for C/L on the imaginary rows.
    imaginary: main system (imaginary rows; every column but R); R follows from a weighted mean (no system).
    """
    B = basis(f, tau, admittance, add_c, add_l)
    M = len(tau)
    nv = B.shape[1]
    if kind == "complex":
        return [(np.vstack([B.real, B.imag]), slice(0, nv), 2)]
    if kind == "real":
        out = [(B.real[:, : 1 + M], slice(0, 1 + M), 1)]
        if nv > 1 + M:
            out.append((B.imag[:, 1 + M :], slice(1 + M, nv), 1))
        return out
    return [(B.imag[:, 1:], slice(1, nv), 1)]


def _svals(A):
    return np.linalg.svd(A, compute_uv=False)


def solver_class(test):
    """lstsq: numpy.linalg.lstsq on the unweighted systems; pinv: pseudo-inverse of the row-scaled systems;
    inv: inverse of the normal equations of the row-scaled system; cnls: iterative fit of the Boukamp-weighted problem."""
    if test == "cnls":
        return "cnls"
    if test == "complex-inv":
        return "inv"
    return "pinv" if test.endswith("-inv") else "lstsq"


def gate_stats(f, tau, var, test, admittance, add_c, add_l, X=None):
    """Conditioning statistics of an instance (all from the harness's own matrices, never from library output).

    var: the variables of the spectrum (C07: the generating ones).  X: the immittance data if they are not exactly
    B @ var (C09: noisy / foreign spectra; var is then the harness's own least-squares solution, harness_solution()).

    ratio    #unknowns / #equations of the main system
    perdec   RC elements per decade of the (extended or contracted, possibly descending) time-constant range
    dyn      max|X| / min|X|
    cond     largest 2-norm condition number of the linear systems in the form the variant's documentation describes
             (unweighted for the lstsq variants, rows divided by |X_i| (Boukamp weighting) for the others)
    condn    the same after scaling every column to unit norm (what an inverse of the normal equations feels)
    kappa    first-order bound, in units of machine epsilon, on the relative residual (Re and Im part, both divided
             by |X_i|) that a backward-stable solver of those systems leaves:
                 sum over systems of  || S2 A_full M^+ ||_2 * ( ||M||_2 ||x||_2 + ||c||_2 )
             M x = c is the system as solved, A_full the real-over-imaginary response of the same variables (so the
             amplification of "fit one part, predict the other" of the real and imaginary tests is included),
             S2 = diag(1/|X|) on both halves.
    kpar     the same bound for the contribution-weighted parameter error relative to the largest term.
    kappan, kparn   kappa and kpar after scaling every column of M to unit norm (unknowns in their natural units)
    """
    f = np.asarray(f, dtype=float)
    var = np.asarray(var, dtype=float)
    kind = base_kind(test)
    scaled = solver_class(test) != "lstsq"
    B = basis(f, tau, admittance, add_c, add_l)
    if X is None:
        X = B @ var
    X = np.asarray(X, dtype=complex)
    aX = np.abs(X)
    unk, eq = counts(len(f), len(tau), kind, add_c, add_l)
    st = {"ratio": unk / eq, "perdec": float((len(tau) - 1) / max(1e-9, abs(np.log10(tau[-1] / tau[0])))),
          "dyn": float(aX.max() / aX.min()) if aX.min() > 0 else np.inf, "cond": 1.0, "condn": 1.0, "kappa": 0.0, "kpar": 0.0}
    if not np.isfinite(st["dyn"]):
        st.update(cond=np.inf, condn=np.inf, kappa=np.inf, kpar=np.inf, kappan=np.inf, kparn=np.inf)
        return st
    Bmax = np.abs(B).max(axis=0)
    top = float((Bmax * np.abs(var)).max())
    s1 = 1.0 / aX
    s2 = np.tile(s1, 2)
    for A, sl, rep in systems(f, tau, kind, admittance, add_c, add_l):
        x = var[sl]
        c = A @ x
        M, cc = A, c
        if scaled:
            rows = np.tile(s1, rep)
            M, cc = A * rows[:, None], c * rows
        U, sv, Vt = np.linalg.svd(M, full_matrices=False)
        if not sv[-1] > 0:
            st.update(cond=np.inf, condn=np.inf, kappa=np.inf, kpar=np.inf, kappan=np.inf, kparn=np.inf)
            return st
        st["cond"] = max(st["cond"], float(sv[0] / sv[-1]))
        Mp = (Vt.T / sv) @ U.T
        Afull = np.vstack([B.real[:, sl], B.imag[:, sl]])
        load = float(sv[0] * np.linalg.norm(x) + np.linalg.norm(cc))
        st["kappa"] += float(np.linalg.norm((Afull * s2[:, None]) @ Mp, 2)) * load
        st["kpar"] += float(np.linalg.norm(Bmax[sl][:, None] * Mp, 2)) * load / top
        n = np.linalg.norm(M, axis=0)
        n[n == 0] = 1.0
        Un, svn, Vtn = np.linalg.svd(M / n, full_matrices=False)
        st["condn"] = max(st["condn"], float(svn[0] / svn[-1]) if svn[-1] > 0 else np.inf)
        if svn[-1] > 0:  # the same bounds in natural units of the unknowns (what a solver that scales its variables feels)
            Mnp = (Vtn.T / svn) @ Un.T
            loadn = float(svn[0] * np.linalg.norm(x * n) + np.linalg.norm(cc))
            st["kappan"] = st.get("kappan", 0.0) + float(np.linalg.norm((Afull * s2[:, None] / n) @ Mnp, 2)) * loadn
            st["kparn"] = st.get("kparn", 0.0) + float(np.linalg.norm((Bmax[sl] / n)[:, None] * Mnp, 2)) * loadn / top
        else:
            st["kappan"] = st["kparn"] = np.inf
    return st


def harness_solution(f, tau, X, admittance, add_c, add_l):
    """Least-squares solution of the complex, Boukamp-weighted problem with unit-norm columns (a numerically benign
    formulation); used only to size the terms of a foreign spectrum for the conditioning gate."""
    B = basis(f, tau, admittance, add_c, add_l)
    s = 1.0 / np.abs(X)
    A = np.vstack([B.real * s[:, None], B.imag * s[:, None]])
    b = np.concatenate([X.real * s, X.imag * s])
    n = np.linalg.norm(A, axis=0)
    n[n == 0] = 1.0
    return np.linalg.lstsq(A / n, b, rcond=None)[0] / n


def placeholder_artefact(f, Z, test, admittance, add_c, var=None, add_l=True):
    """Size (relative to |Z|) of the error that the hard-coded placeholder constants of the matrix-inversion tests leave
    in their result (matrix_inversion._real_test / _update_circuit; the later stage subtracts the placeholder's
    response from the data and its coefficient REPLACES the placeholder, so the final value is off by the placeholder):
      real-inv:       1/C (Z) resp. C (Y) parked at 1e-18; for Y the inductance at -1e18 H
      imaginary-inv:  for Y the parallel resistance parked at 1e18 ohm (its column is zero in the imaginary system)
      any -inv on Y:  a fitted 1/R or 1/L of exactly 0.0 is replaced by 1e18 ohm / -1e18 H (absent elements only)
    """
    w = 2 * np.pi * np.asarray(f, dtype=float)
    aZ = np.abs(np.asarray(Z))
    a = 0.0
    if test == "real-inv":
        if admittance:
            a = float(1e-18 * (aZ / w).max())
            if add_c:
                a = max(a, float(1e-18 * (w * aZ).max()))
        elif add_c:
            a = float(1e-18 * (1.0 / (w * aZ)).max())
    elif test == "imaginary-inv" and admittance:
        a = float(1e-18 * aZ.max())
    # zero-substitution in matrix_inversion._update_circuit (admittance only): a fitted 1/R or -1/L that comes out as
    # exactly 0.0 is replaced by R = 1e18 ohm resp. L = -1e18 H.  That can only happen when the element is absent from
    # the spectrum (generating variable exactly zero; var = generating variables in basis order); upper bound of its effect:
    if var is not None and admittance and test.endswith("-inv"):
        var = np.asarray(var, dtype=float)
        if var[0] == 0.0:
            a = max(a, float(1e-18 * aZ.max()))
        if add_l and var[-1] == 0.0:
            a = max(a, float(1e-18 * (aZ / w).max()))
    return a


def circuit_variables(circuit, admittance, add_c, add_l):
    """Read (variables, taus) back from a fitted pyimpspec circuit (by class name; no pyimpspec import needed)."""
    p = {"k": [], "R": None, "C": None, "L": None}
    tau = []
    for e in circuit.get_elements(recursive=True):
        name = type(e).__name__
        if name == "Resistor":
            p["R"] = float(e.get_value("R"))
        elif name == "KramersKronigRC":
            p["k"].append(float(e.get_value("R")))
            tau.append(float(e.get_value("tau")))
        elif name == "KramersKronigAdmittanceRC":
            p["k"].append(float(e.get_value("C")))
            tau.append(float(e.get_value("tau")))
        elif name == "Capacitor":
            p["C"] = float(e.get_value("C"))
        elif name == "Inductor":
            p["L"] = float(e.get_value("L"))
        else:
            raise ValueError(f"unexpected element {name}")
    order = np.argsort(tau)
    p["k"] = [p["k"][i] for i in order]
    tau = [tau[i] for i in order]
    return p, np.array(tau)
