"""Locate the tree under test and make sure *that* tree is what gets imported.

VERIF_REPO (default /repo) names the checkout; <tree>/src goes first on sys.path so the editable
install in /venv (a .pth pointing at /repo/src) is overridden for scratch/mutant trees.  .deps
(icontract, deal) goes last so it can never shadow /venv's packages.
"""
import os
import sys

VERIF_DIR = os.path.dirname(os.path.dirname(os.path.abspath(__file__)))
REPO = os.path.abspath(os.environ.get("VERIF_REPO", "/repo"))
SRC = os.path.join(REPO, "src")
DEPS = os.path.join(VERIF_DIR, ".deps")

os.environ.setdefault("MPLBACKEND", "Agg")
os.environ.setdefault("PYTHONDONTWRITEBYTECODE", "1")
sys.dont_write_bytecode = True

if VERIF_DIR not in sys.path:
    sys.path.insert(0, VERIF_DIR)
if SRC in sys.path:
    sys.path.remove(SRC)
sys.path.insert(0, SRC)
if os.path.isdir(DEPS) and DEPS not in sys.path:
    sys.path.append(DEPS)


class WrongTree(Exception):
    pass


def import_pyimpspec():
    """Import pyimpspec and assert it comes from the tree under test."""
    import warnings

    with warnings.catch_warnings():
        warnings.simplefilter("ignore")
        import pyimpspec  # noqa

    f = os.path.abspath(pyimpspec.__file__)
    if not f.startswith(SRC + os.sep):
        raise WrongTree(f"pyimpspec imported from {f}, expected under {SRC}")
    import multiprocessing

    if multiprocessing.get_start_method(allow_none=True) not in (None, "fork"):
        raise WrongTree("multiprocessing start method is not fork")
    return pyimpspec


def in_tree(filename: str) -> bool:
    return os.path.abspath(filename).startswith(os.path.join(SRC, "pyimpspec") + os.sep)
