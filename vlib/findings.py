"""known_findings.json loader.  Read-only at run time.

Entries: {"property": "C04", "key": "C04/recursion-depth", "status": "open"|"fixed", "what": "...", "commit": "..."}
Only status == "open" suppresses a VIOLATION (printed as KNOWN-FINDING instead); "fixed" entries suppress nothing.
Keys are mechanism keys assigned by the property module's oracle from structural features of the witness.
"""
import json
import os

from . import env

PATH = os.path.join(env.VERIF_DIR, "known_findings.json")


def load_all():
    if not os.path.exists(PATH):
        return []
    with open(PATH) as fp:
        return json.load(fp)


def load_open(pid: str):
    return {e["key"]: e.get("what", "") for e in load_all() if e.get("property") == pid and e.get("status") == "open"}
