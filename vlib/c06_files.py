"""C06 helpers: spectra, layout configurations and file writers (the harness side of "write it, parse it back").

Everything here is harness code.  A *config* is a small JSON dict naming one cell of the layout cross product plus a
seed; `build_job(config)` lowers it to a concrete *job*: file name, file text, encoding, how to call the library and
the spectrum the text encodes (computed from the very tokens that were written: truth = float(token), with the sign
convention of the column applied).  Jobs are self-contained and are what replay files store.
"""
import cmath
import itertools
import math

import numpy as np

# ------------------------------------------------------------------------------------------------
# documented header vocabulary (dataframe_to_data_sets docstring) + the emitter's own spellings
# ------------------------------------------------------------------------------------------------
ALIASES = {
    "f": ["frequency", "freq", "f"],
    "re": ["z'", "z_re", "zre", "z re", "real", "re"],
    "im": ['z"', "z''", "z_im", "zim", "z im", "imaginary", "imag", "im"],
    "mag": ["|z|", "z", "magnitude", "modulus", "mag", "mod"],
    "ph": ["phase", "phz", "phi"],
}
# DataSet.to_dataframe defaults (what the CLI prints) and the "/unit" spelling used by instrument exports
EXTRA = {
    "f": ["f (Hz)", "freq/Hz"],
    "re": ["Re(Z) (ohm)", "Re(Z)/Ohm"],
    "im": ["Im(Z) (ohm)", "Im(Z)/Ohm"],
    "mag": ["Mod(Z) (ohm)", "|Z|/Ohm"],
    "ph": ["Phase(Z) (deg.)", "Phase(Z)/deg"],
}
NAMES = {k: ALIASES[k] + EXTRA[k] for k in ALIASES}
UNIT = {"f": "Hz", "re": "ohm", "im": "ohm", "mag": "ohm", "ph": "deg"}
SUFFIX = ["", "/{u}", "({u})", " ({u})", " [{u}]"]
CASES = ["lower", "upper", "title", "random"]
NEG = ["", "-", "\u2212"]  # none, hyphen, minus sign
SEPS = [",", "\t", ";", " "]
DECS = [".", ","]
ORDERS = ["desc", "asc"]
NUMFMTS = ["repr", "g17", "E15", "e7", "int", "fix3", "pos4", "fix1"]
COORDS = ["cart", "polar", "both"]
COLPERMS = ["canonical", "reversed", "random"]
CSV_MODES = ["ext:.csv", "ext:.txt", "ext:.CSV", "fmt:csv", "fmt:.CSV", "noext"]
NCLASS = ["1", "2", "3-10", "11-60"]
NCLASS_P = [0.06, 0.14, 0.4, 0.4]

CSV_DIMS = {
    "coords": COORDS,
    "f": list(range(len(NAMES["f"]))),
    "re": list(range(len(NAMES["re"]))),
    "im": list(range(len(NAMES["im"]))),
    "mag": list(range(len(NAMES["mag"]))),
    "ph": list(range(len(NAMES["ph"]))),
    "suffix": list(range(len(SUFFIX))),
    "case": CASES,
    "neg_re": [0, 1, 2],
    "neg_im": [0, 1, 2],
    "neg_ph": [0, 1, 2],
    "sep": SEPS,
    "dec": DECS,
    "order": ORDERS,
    "nsweeps": [1, 2, 3],
    "colperm": COLPERMS,
    "numfmt": NUMFMTS,
    "mode": CSV_MODES,
    "nclass": NCLASS,
}
_CART_DIMS = ("re", "im", "neg_re", "neg_im")
_POLAR_DIMS = ("mag", "ph", "neg_ph")


def active(cfg, dim):
    """Is this dimension visible in the file the config describes?"""
    if dim in _CART_DIMS:
        return cfg["coords"] in ("cart", "both")
    if dim in _POLAR_DIMS:
        return cfg["coords"] in ("polar", "both")
    return True


def keys_of(cfg):
    c = cfg["coords"]
    return ["f", "re", "im"] if c == "cart" else ["f", "mag", "ph"] if c == "polar" else ["f", "re", "im", "mag", "ph"]


def header_has_space(cfg):
    for k in keys_of(cfg):
        i = cfg[k]
        if i >= len(ALIASES[k]):
            if " " in NAMES[k][i]:
                return True
        elif " " in ALIASES[k][i] or " " in SUFFIX[cfg["suffix"]]:
            return True
    return False


def csv_valid(cfg):
    """The property's own preconditions: never comma decimal with comma separator; the header never contains the
    separator (space- or semicolon-separated files use space-free headers: the documented detection contract)."""
    if cfg["dec"] == "," and cfg["sep"] == ",":
        return False
    if cfg["sep"] in (" ", ";") and header_has_space(cfg):
        return False
    if cfg.get("mode") == "noext" and mimics_instrument_header(cfg):
        return False
    return True


def mimics_instrument_header(cfg):
    """Extension-less files are identified by brute force: a table whose frequency header is literally the signature
    line of an instrument layout ('freq/Hz' + tabs = the .mpt table, 'Freq(Hz)' = the .z table) IS that layout as far as
    the documented brute force is concerned, so such files are only generated with an extension / file_format."""
    i = cfg["f"]
    name = NAMES["f"][i]
    if i < len(ALIASES["f"]):
        name = name + SUFFIX[cfg["suffix"]].format(u="Hz")
    name = name.lower()
    return (name.startswith("freq/hz") and cfg["sep"] == "\t") or "freq(hz)" in name


def random_csv_config(rng, pinned=None):
    """Draw a valid csv config; `pinned` fixes some dimensions (returns None if no valid completion is found)."""
    for _ in range(200):
        cfg = {}
        for d, vals in CSV_DIMS.items():
            cfg[d] = vals[int(rng.integers(0, len(vals)))]
        cfg["nclass"] = NCLASS[int(rng.choice(len(NCLASS), p=NCLASS_P))]
        if pinned:
            cfg.update(pinned)
        if csv_valid(cfg):
            cfg["layout"] = "csv"
            cfg["seed"] = [int(x) for x in rng.integers(0, 2**31, size=2)]
            cfg["eol"] = "\n"
            cfg["eofnl"] = bool(rng.random() < 0.8)
            cfg["cli"] = bool(rng.random() < 0.12) and not cfg["mode"].startswith("fmt")
            return cfg
    return None


def csv_key(cfg):
    """Canonical key of the layout cell (no seeds, no values)."""
    ks = keys_of(cfg)
    return ("csv", cfg["coords"], tuple(cfg[k] for k in ks), cfg["suffix"], cfg["case"],
            tuple(cfg["neg_" + k] for k in ("re", "im", "ph") if active(cfg, "neg_" + k)),
            cfg["sep"], cfg["dec"], cfg["order"], cfg["nsweeps"], cfg["colperm"], cfg["numfmt"], cfg["mode"], cfg["nclass"])


# ------------------------------------------------------------------------------------------------
# pairwise covering bookkeeping
# ------------------------------------------------------------------------------------------------
def pairs_of(cfg):
    dims = [d for d in CSV_DIMS if active(cfg, d)]
    for a, b in itertools.combinations(dims, 2):
        yield (a, cfg[a], b, cfg[b])


def all_feasible_pairs(rng=None):
    """Every value pair of two dimensions (whether a valid file exists for it is found out by complete_pairwise)."""
    feas = {}
    dims = list(CSV_DIMS)
    for a, b in itertools.combinations(dims, 2):
        for va in CSV_DIMS[a]:
            for vb in CSV_DIMS[b]:
                feas[(a, va, b, vb)] = None
    return feas


def complete_pairwise(configs, rng, max_extra=4000):
    """Add configs until every feasible pair of (active) dimension values is covered.
    Returns (extra configs, number of covered pairs, number of pairs for which no valid file exists)."""
    covered = set()
    for c in configs:
        covered.update(pairs_of(c))
    todo = [p for p in all_feasible_pairs(rng) if p not in covered]
    extra = []
    infeasible = 0
    for p in todo:
        if p in covered:
            continue
        a, va, b, vb = p
        pin = {a: va, b: vb}
        # make both dimensions active
        need_cart = a in _CART_DIMS or b in _CART_DIMS
        need_polar = a in _POLAR_DIMS or b in _POLAR_DIMS
        if "coords" not in pin:
            pin["coords"] = "both" if (need_cart and need_polar) else "cart" if need_cart else "polar" if need_polar else None
            if pin["coords"] is None:
                del pin["coords"]
        cfg = random_csv_config(rng, pin)
        if cfg is None or p not in set(pairs_of(cfg)):
            infeasible += 1
            continue
        extra.append(cfg)
        covered.update(pairs_of(cfg))
        if len(extra) >= max_extra:
            break
    total = len(covered)
    return extra, total, infeasible


# ------------------------------------------------------------------------------------------------
# spectra
# ------------------------------------------------------------------------------------------------
def n_from_class(rng, nclass):
    if nclass == "1":
        return 1
    if nclass == "2":
        return 2
    if nclass == "3-10":
        return int(rng.integers(3, 11))
    return int(rng.integers(11, 61))


SWEEP_RELATIONS = ["same", "repeat", "beyond", "shifted", "nested", "free", "short"]
_SWEEP_REL_P = [0.15, 0.22, 0.2, 0.13, 0.08, 0.08, 0.14]
_MARGIN = 0.025  # decades (~6 %): a sweep boundary stays a strict reversal after 5-significant-digit / integer rounding


def _log_grid(rng, m, lo):
    """m ascending log10-frequencies starting at lo, neighbours 0.03 .. 0.5 decades (>= 7 %) apart, span <= ~8 decades."""
    hi_step = max(0.05, min(0.5, 8.0 / max(m, 2)))
    steps = rng.uniform(0.03, hi_step, size=max(m - 1, 0))
    return lo + np.concatenate([[0.0], np.cumsum(steps)])


def _rand_Z(rng, m, base_mag, wild):
    if wild:
        mag = 10.0 ** rng.uniform(-6.0, 6.0, size=m)
    else:
        mag = 10.0 ** np.clip(base_mag + rng.uniform(-1.0, 1.0, size=m), -6.0, 6.0)
    ang = rng.uniform(-np.pi, np.pi, size=m)
    # keep both components away from exact zero (|cos|,|sin| >= 1e-3): "both signs of Re and Im"
    ang = np.where(np.abs(np.cos(ang)) < 1e-3, ang + 0.01, ang)
    ang = np.where(np.abs(np.sin(ang)) < 1e-3, ang + 0.01, ang)
    return mag * np.exp(1j * ang)


def gen_sweeps(rng, n, nsweeps, order):
    """List of (f, Z) per sweep in *row order*.  Frequencies strictly monotonic inside a sweep (neighbours >= 7 % apart:
    survives 5-significant-digit instrument formats), all sweeps of a file in the same row order, and every following
    sweep starts strictly beyond the end of the previous one in the reverse direction - a reversal is what marks a new
    sweep, so e.g. descending rows 100k..1k followed by 100..1 are one monotonic run, not two sweeps, and are never
    written as two.  Within that contract the later sweeps are unrelated to the first: the same grid with new
    impedances (full or a row-order prefix, +-0.1 % jitter), an EXACT repeat (bit-identical rows: the whole first sweep
    again, an overlapping slice of the same noise-free spectrum possibly continued beyond its end, or a new sweep that
    shares a single row with the first), a range lying entirely beyond the first one (above it for descending rows,
    below it for ascending rows: the file then ends on the "wrong" side of where it started), shifted / partially
    overlapping, nested, anywhere, or short (one or two points among longer sweeps; the first sweep has >= 2 points
    unless the whole file is one point, because the first two rows define the row order).  Lengths differ between sweeps.
    |Z| over 12 decades, all four quadrants."""
    desc = order == "desc"
    base_mag = rng.uniform(-6.0, 6.0)
    wild = rng.random() < 0.25
    base = _log_grid(rng, n, rng.uniform(-4.0, 5.0))  # ascending log10 f of the first sweep
    baseZ = _rand_Z(rng, n, base_mag, wild)
    sweeps = [(base, baseZ)]  # ascending grids with their impedances

    def contract_ok(g, prev):
        prev_last = prev[0] if desc else prev[-1]  # last ROW of the previous sweep
        return (g[-1] >= prev_last + _MARGIN) if desc else (g[0] <= prev_last - _MARGIN)

    for k in range(1, nsweeps if n >= 2 else 1):
        rel = SWEEP_RELATIONS[int(rng.choice(len(SWEEP_RELATIONS), p=_SWEEP_REL_P))]
        prev = sweeps[-1][0]
        g = Z = None
        if rel == "repeat":
            how = rng.random()
            if how < 0.4:  # the whole first sweep again
                g, Z = base.copy(), baseZ.copy()
            elif how < 0.8:  # overlapping slice of the same spectrum, possibly continued beyond one end
                i = int(rng.integers(0, n))
                j = int(rng.integers(i + 1, n + 1))
                g, Z = base[i:j].copy(), baseZ[i:j].copy()
                e = int(rng.integers(0, 6))
                if e and j == n and rng.random() < 0.7:  # continue above the top
                    ext = _log_grid(rng, e, g[-1] + float(rng.uniform(0.03, 0.4)))
                    g, Z = np.concatenate([g, ext]), np.concatenate([Z, _rand_Z(rng, e, base_mag, wild)])
                elif e and i == 0:  # continue below the bottom
                    ext = _log_grid(rng, e, 0.0)
                    ext = ext - ext[-1] + g[0] - float(rng.uniform(0.03, 0.4))
                    g, Z = np.concatenate([ext, g]), np.concatenate([_rand_Z(rng, e, base_mag, wild), Z])
            else:  # a new sweep that shares exactly one row with the first sweep
                j = int(rng.integers(0, n))
                e = int(rng.integers(1, max(2, n)))
                if rng.random() < 0.5:
                    ext = _log_grid(rng, e, base[j] + float(rng.uniform(0.03, 0.4)))
                    g, Z = np.concatenate([[base[j]], ext]), np.concatenate([[baseZ[j]], _rand_Z(rng, e, base_mag, wild)])
                else:
                    ext = _log_grid(rng, e, 0.0)
                    ext = ext - ext[-1] + base[j] - float(rng.uniform(0.03, 0.4))
                    g, Z = np.concatenate([ext, [base[j]]]), np.concatenate([_rand_Z(rng, e, base_mag, wild), [baseZ[j]]])
            if not contract_ok(g, prev):  # an exact repeat cannot be moved: write an unrelated sweep instead
                g = Z = None
                rel = "shifted"
        if g is None:
            if rel == "same":
                m = n if (n <= 2 or rng.random() < 0.6) else int(rng.integers(2, n + 1))
                g = base + math.log10(1.0 + float(rng.choice([0.0, 1e-3, -1e-3])))
                g = g[len(g) - m:] if desc else g[:m]  # the first m rows
            else:
                m = int(rng.integers(1, 3)) if rel == "short" else int(rng.integers(2, max(3, min(60, n + n // 2) + 1)))
                span = _log_grid(rng, m, 0.0)
                width = float(span[-1])
                if rel == "beyond":
                    gap = float(rng.uniform(0.05, 3.0))
                    lo = (base[-1] + gap) if desc else (base[0] - gap - width)
                elif rel == "shifted":
                    lo = base[0] + float(rng.uniform(-2.0, 2.0))
                elif rel == "nested":
                    lo = float(rng.uniform(base[0], max(base[0], base[-1] - width)))
                else:  # free / short
                    lo = float(rng.uniform(-5.0, 6.0))
                g = span + lo
            # the contract: the first row of this sweep lies strictly beyond the last row of the previous sweep
            prev_last = prev[0] if desc else prev[-1]
            if desc and g[-1] < prev_last + _MARGIN:
                g = g + (prev_last + float(rng.uniform(_MARGIN, 1.5)) - g[-1])
            elif not desc and g[0] > prev_last - _MARGIN:
                g = g - (g[0] - prev_last + float(rng.uniform(_MARGIN, 1.5)))
            Z = _rand_Z(rng, len(g), base_mag, wild)
        sweeps.append((np.asarray(g, dtype=float), np.asarray(Z, dtype=complex)))
    out = []
    for g, Z in sweeps:
        f = 10.0 ** g
        if desc:
            f, Z = f[::-1], Z[::-1]
        out.append(([float(x) for x in f], [complex(z) for z in Z]))
    return out


# ------------------------------------------------------------------------------------------------
# number formatting (always from python floats: repr(np.float64) is 'np.float64(...)' under numpy 2)
# ------------------------------------------------------------------------------------------------
def fmt_num(x, numfmt):
    x = float(x)
    if numfmt == "repr":
        return repr(x)
    if numfmt == "g17":
        return format(x, ".17g")
    if numfmt == "E15":
        return format(x, ".15E")
    if numfmt == "e7":
        return format(x, ".7e")
    if numfmt == "int":
        if 100.0 <= abs(x) < 1e15:
            return "%d" % round(x)
        return repr(x)
    if numfmt in ("fix3", "fix1"):
        # short fixed-point cells as spreadsheets and instruments export them: 1.125, 0.050, -26.556, 12.5
        if 0.01 <= abs(x) < 1e9:
            return "%.3f" % x if numfmt == "fix3" else "%.1f" % x if abs(x) >= 1.0 else "%.3f" % x
        return _positional(x, 6)
    if numfmt == "pos4":
        return _positional(x, 4)
    raise ValueError(numfmt)


def _positional(x, digits):
    """x rounded to `digits` significant digits, written without an exponent (0.0001234, 12350000)"""
    if x == 0.0 or not (1e-12 <= abs(x) < 1e15):
        return repr(x)
    return np.format_float_positional(float("%.*g" % (digits, x)), trim="-")


def style_name(key, idx, suffix_i, case, rng, unit=None):
    name = NAMES[key][idx]
    if idx < len(ALIASES[key]):
        name = name + SUFFIX[suffix_i].format(u=unit or UNIT[key])
    if case == "lower":
        return name.lower()
    if case == "upper":
        return name.upper()
    if case == "title":
        for i, ch in enumerate(name):
            if ch.isalpha():
                return name[:i] + ch.upper() + name[i + 1:]
        return name
    if case == "random":
        flips = rng.random(len(name)) < 0.5
        return "".join(ch.upper() if fl else ch.lower() for ch, fl in zip(name, flips))
    return name


def _col_order(keys, colperm, rng):
    if colperm == "canonical":
        return list(keys)
    if colperm == "reversed":
        return list(keys)[::-1]
    p = [int(i) for i in rng.permutation(len(keys))]
    return [keys[i] for i in p]


def _table_columns(cfg, rng, unit_ph=None):
    """header cells + per-column (key, sign) in file order."""
    keys = _col_order(keys_of(cfg), cfg["colperm"], rng)
    cells = []
    for k in keys:
        neg = NEG[cfg.get("neg_" + k, 0)] if k in ("re", "im", "ph") else ""
        cells.append(neg + style_name(k, cfg[k], cfg["suffix"], cfg["case"], rng, unit=unit_ph if k == "ph" else None))
    return keys, cells


def _tokens_and_truth(cfg, keys, sweeps, degrees=True):
    """Per sweep: rows of tokens (file order of columns) and the spectrum those tokens encode."""
    numfmt = cfg["numfmt"]
    sgn = {k: (-1.0 if cfg.get("neg_" + k, 0) else 1.0) for k in ("re", "im", "ph")}
    rows_all = []
    truth = []
    for f, Z in sweeps:
        rows = []
        tf, tre, tim = [], [], []
        ffmt = numfmt
        if numfmt in ("fix3", "pos4", "fix1"):
            # rounding must not merge or reorder the frequencies of a sweep; otherwise the frequency column keeps full precision
            fr = [float(fmt_num(fi, numfmt)) for fi in f]
            d = np.diff(fr)
            if len(fr) > 1 and not (np.all(d > 0) or np.all(d < 0)):
                ffmt = "repr"
        for fi, z in zip(f, Z):
            tok = {}
            tok["f"] = fmt_num(fi, ffmt)
            fv = float(tok["f"])
            if "re" in keys:
                tok["re"] = fmt_num(sgn["re"] * z.real, numfmt)
                tok["im"] = fmt_num(sgn["im"] * z.imag, numfmt)
            if "mag" in keys:
                pf = "repr" if numfmt in ("int", "fix1") else numfmt
                ph = cmath.phase(z)
                tok["mag"] = fmt_num(abs(z), numfmt)
                tok["ph"] = fmt_num(sgn["ph"] * (math.degrees(ph) if degrees else ph), pf)
            if "re" in keys:
                zr = sgn["re"] * float(tok["re"])
                zi = sgn["im"] * float(tok["im"])
            else:
                phv = sgn["ph"] * float(tok["ph"])
                zz = cmath.rect(float(tok["mag"]), math.radians(phv) if degrees else phv)
                zr, zi = zz.real, zz.imag
            tf.append(fv)
            tre.append(zr)
            tim.append(zi)
            rows.append([tok[k] for k in keys])
        rows_all.append(rows)
        truth.append({"f": tf, "re": tre, "im": tim})
    return rows_all, truth


def build_csv_job(cfg):
    rng = np.random.default_rng(cfg["seed"])
    n = cfg.get("n") or n_from_class(rng, cfg["nclass"])
    sweeps = gen_sweeps(rng, n, cfg["nsweeps"], cfg["order"])
    keys, cells = _table_columns(cfg, rng)
    rows_all, truth = _tokens_and_truth(cfg, keys, sweeps)
    sep, dec = cfg["sep"], cfg["dec"]
    lines = [sep.join(cells)]
    for rows in rows_all:
        for r in rows:
            lines.append(sep.join(t.replace(".", ",") if dec == "," else t for t in r))
    eol = cfg.get("eol", "\n")
    text = eol.join(lines) + (eol if cfg.get("eofnl", True) else "")
    mode = cfg["mode"]
    stem = "spec_%d" % (cfg["seed"][0] % 100000)
    job = {"layout": "csv", "parser": "parse_csv", "text": text, "encoding": "utf-8", "expected": truth,
           "norm": cfg["coords"] == "polar", "n": n, "cli": bool(cfg.get("cli")), "mode": mode.split(":")[0], "dec": dec, "sep": sep,
           "cell": "csv:%s:dec%s" % (cfg["coords"], "comma" if dec == "," else "point")}
    if mode.startswith("ext:"):
        job["filename"] = stem + mode[4:]
    elif mode.startswith("fmt:"):
        job["filename"] = stem + ".dat"
        job["file_format"] = mode[4:]
    else:
        job["filename"] = stem
    job["header"] = lines[0]
    return job


# ------------------------------------------------------------------------------------------------
# DataFrame jobs (dataframe_to_data_sets observed directly; the only place where degrees=False exists)
# ------------------------------------------------------------------------------------------------
def random_df_config(rng):
    for _ in range(100):
        cfg = {d: CSV_DIMS[d][int(rng.integers(0, len(CSV_DIMS[d])))] for d in
               ("coords", "f", "re", "im", "mag", "ph", "suffix", "case", "neg_re", "neg_im", "neg_ph", "order", "nsweeps", "colperm", "nclass")}
        cfg["layout"] = "df"
        cfg["nclass"] = NCLASS[int(rng.choice(len(NCLASS), p=NCLASS_P))]
        cfg["degrees"] = bool(rng.random() < 0.5)
        cfg["emit"] = bool(rng.random() < 0.35)
        cfg["numfmt"] = "repr"
        cfg["seed"] = [int(x) for x in rng.integers(0, 2**31, size=2)]
        if cfg["emit"]:
            cfg["coords"] = "both"
            cfg["degrees"] = True
            cfg["nsweeps"] = 1
            cfg["neg_re"] = 0
            cfg["colperm"] = "canonical"
            cfg["sep"] = SEPS[int(rng.integers(0, 4))]
            if cfg["sep"] in (" ", ";") and header_has_space(cfg):
                continue
        return cfg
    raise RuntimeError("no df config")


def df_key(cfg):
    ks = keys_of(cfg)
    return ("df", cfg["coords"], tuple(cfg[k] for k in ks), cfg["suffix"], cfg["case"],
            tuple(cfg["neg_" + k] for k in ("re", "im", "ph") if active(cfg, "neg_" + k)),
            cfg["degrees"], cfg["emit"], cfg.get("sep"), cfg["order"], cfg["nsweeps"], cfg["colperm"], cfg["nclass"])


def build_df_job(cfg):
    rng = np.random.default_rng(cfg["seed"])
    n = cfg.get("n") or n_from_class(rng, cfg["nclass"])
    sweeps = gen_sweeps(rng, n, cfg["nsweeps"], cfg["order"])
    unit_ph = "deg" if cfg["degrees"] else "rad"
    keys, cells = _table_columns(cfg, rng, unit_ph=unit_ph)
    rows_all, truth = _tokens_and_truth(cfg, keys, sweeps, degrees=cfg["degrees"])
    job = {"layout": "df", "parser": "dataframe_to_data_sets", "mode": "df", "columns": cells, "degrees": cfg["degrees"],
           "expected": truth, "norm": cfg["coords"] == "polar", "n": n,
           "cell": "df:%s:%s" % (cfg["coords"], unit_ph), "header": "|".join(cells)}
    if cfg["emit"]:
        f, Z = sweeps[0]
        job["mode"] = "emit"
        job["cell"] = "df:emit"
        job["emit"] = {"f": f, "Z": [[z.real, z.imag] for z in Z], "negative_imaginary": bool(cfg["neg_im"]),
                       "negative_phase": bool(cfg["neg_ph"]), "sep": cfg["sep"]}
        job["expected"] = [{"f": f, "re": [z.real for z in Z], "im": [z.imag for z in Z]}]
        job["norm"] = False
    else:
        cols = [[] for _ in keys]
        for rows in rows_all:
            for r in rows:
                for j, t in enumerate(r):
                    cols[j].append(float(t))
        job["data"] = cols
    return job


# ------------------------------------------------------------------------------------------------
# instrument layouts (modelled on the sample files shipped in <repo>/tests)
# ------------------------------------------------------------------------------------------------
INST = {
    "mpt": {"ext": ".mpt", "parser": "parse_mpt", "sweeps": [1, 2, 3], "variants": ["meta", "bare"]},
    "i2b": {"ext": ".i2b", "parser": "parse_i2b", "sweeps": [1], "variants": ["std"]},
    "p00": {"ext": ".P00", "parser": "parse_p00", "sweeps": [1], "variants": ["std"]},
    "dfr": {"ext": ".dfr", "parser": "parse_dfr", "sweeps": [1], "variants": ["std"]},
    "dta": {"ext": ".dta", "parser": "parse_dta", "sweeps": [1],
            "variants": ["plain,comma", "plain,point", "drift,comma", "drift,point", "plain,comma,ocv", "drift,point,ocv"]},
    "z": {"ext": ".z", "parser": "parse_z", "sweeps": [1], "variants": ["std", "comments"]},
}
INST_MODES = ["ext", "ext", "extlower", "extupper", "fmt", "fmtdot", "noext"]


def random_inst_config(rng, layout):
    spec = INST[layout]
    return {"layout": layout, "variant": spec["variants"][int(rng.integers(0, len(spec["variants"])))],
            "order": ORDERS[int(rng.integers(0, 2))], "nsweeps": spec["sweeps"][int(rng.integers(0, len(spec["sweeps"])))],
            "mode": INST_MODES[int(rng.integers(0, len(INST_MODES)))], "nclass": NCLASS[int(rng.choice(len(NCLASS), p=NCLASS_P))],
            "seed": [int(x) for x in rng.integers(0, 2**31, size=2)], "cli": bool(rng.random() < 0.15)}


def inst_key(cfg):
    return (cfg["layout"], cfg["variant"], cfg["order"], cfg["nsweeps"], cfg["mode"], cfg["nclass"], cfg.get("n"))


_MPT_COLS = ["freq/Hz", "Re(Z)/Ohm", "-Im(Z)/Ohm", "|Z|/Ohm", "Phase(Z)/deg", "time/s", "<Ewe>/V", "<I>/mA", "Cs/\xb5F", "Cp/\xb5F",
             "cycle number", "I Range", "|Ewe|/V", "|I|/A", "(Q-Qo)/mA.h", "<Ece>/V", "|Ece|/V", "Phase(Zce)/deg", "|Zce|/Ohm",
             "Re(Zce)/Ohm", "-Im(Zce)/Ohm", "Phase(Zwe-ce)/deg", "|Zwe-ce|/Ohm", "Re(Zwe-ce)/Ohm", "-Im(Zwe-ce)/Ohm",
             "Re(Y)/Ohm-1", "Im(Y)/Ohm-1", "|Y|/Ohm-1", "Phase(Y)/deg", "dq/mA.h"]
_MPT_META = """Run on channel : 1 (SN SERIAL)
User :
Electrode connection : standard
Ewe ctrl range : min = 00.00 V, max = 00.00 V
Ewe,I filtering : 00 kHz
Safety Limits :
\tDo not start on E overload
Channel : Grounded
Acquisition started on : DD/MM/YYYY HH:MM:SS
Saved on :
\tFile : test_data.mpr
\tDirectory : C:\\Users\\user\\Documents\\EIS_data\\
\tHost : 127.0.0.1
Device : MODEL (SN SERIAL)
Address : USB
EC-Lab for windows v11.33 (software)
Electrode material :
Reference electrode : REFERENCE ELECTRODE
Electrode surface area : 0.000 cm\xb2
Characteristic mass : 0.000 g
Record Ece
Text export
   Mode : Standard
   Time format : Elapsed
Cycle Definition : Charge/Discharge alternance
Mode                Single sine
E (V)               0.0000
vs.                 Emeas
tE (h:m:s)          0:00:0.0000
record              0
dI                  0.000
unit dI             mA
fi                  10.000
unit fi             kHz
ff                  1.000
unit ff             Hz
Nd                  7
Points              per decade
spacing             Logarithmic
Va (mV)             00.0
I Range             0 A
Bandwidth           0
nc cycles           0                   """.split("\n")


def _write_mpt(cfg, sweeps, rng):
    ncols = int(rng.integers(3, len(_MPT_COLS) + 1))
    cols = _MPT_COLS[:ncols]
    lines = []
    if cfg["variant"] == "meta":
        keep = [ln for ln in _MPT_META if rng.random() < 0.8]
        lines += ["EC-Lab ASCII FILE", ("Nb header lines : %d" % (len(keep) + 7)).ljust(46), "",
                  "Potentio Electrochemical Impedance Spectroscopy", ""] + keep + [""]
    lines.append("\t".join(cols) + "\t")
    truth = []
    t = 0.0
    for k, (f, Z) in enumerate(sweeps):
        tf, tre, tim = [], [], []
        for fi, z in zip(f, Z):
            t += float(rng.uniform(0.1, 3.0))
            vals = [fi, z.real, -z.imag, abs(z), math.degrees(cmath.phase(z)), t]
            toks = ["%.7E" % v for v in vals[:5]] + ["%.15E" % vals[5]]
            extra = ["0.0000000E+00"] * (len(_MPT_COLS) - 6)
            extra[4] = "%.15E" % float(k + 1)  # cycle number
            extra[5] = "%d" % int(rng.integers(0, 40))  # I Range
            row = (toks + extra)[:ncols]
            lines.append("\t".join(row))
            tf.append(float(row[0]))
            tre.append(float(row[1]))
            tim.append(-float(row[2]))
        truth.append({"f": tf, "re": tre, "im": tim})
    return "\n".join(lines) + "\n", "latin-1", truth


_WORDS = ["Sample", "cell", "A1", "measurement", "EIS", "run", "operator", "2022-01-01", "25C", "electrode", "batch", "7", "notes"]


def _meta_line(rng):
    return " ".join(_WORDS[int(i)] for i in rng.integers(0, len(_WORDS), size=int(rng.integers(1, 5))))


def _write_i2b(cfg, sweeps, rng):
    f, Z = sweeps[0]
    lines = [_meta_line(rng) for _ in range(4)] + ["", "%d" % len(f)]
    tf, tre, tim = [], [], []
    for fi, z in zip(f, Z):
        toks = [repr(float(fi)), repr(float(z.real)), repr(float(z.imag))]
        lines.append(" ".join(toks))
        tf.append(float(toks[0]))
        tre.append(float(toks[1]))
        tim.append(float(toks[2]))
    return "\n".join(lines) + "\n", "latin-1", [{"f": tf, "re": tre, "im": tim}]


def _p00_num(x):
    x = float(x)
    if x == 0.0:
        return "00.000e+00"
    e = int(math.floor(math.log10(abs(x))))
    s = "%.3f" % (x / 10.0 ** (e - 1))
    if abs(float(s)) >= 100.0:
        e += 1
        s = "%.3f" % (x / 10.0 ** (e - 1))
    return "%se%+03d" % (s, e - 1)


def _write_p00(cfg, sweeps, rng):
    f, Z = sweeps[0]
    lines = ["Procedure : " + _meta_line(rng),
             "DD.MM.YYYY HH:MM:SS - DD.MM.YYYY HH:MM:SS i(init)= 183.1nA - i(end)= 7.88nA",
             "Description", "t =  %.1f s" % float(rng.uniform(10, 5000)),
             " f/Hz       \t Z'/Ohm     \t -Z''/Ohm   \t time/s    \t Edc/V     \t Idc/A     \t",
             " %d " % len(f)]
    tf, tre, tim = [], [], []
    for fi, z in zip(f, Z):
        toks = [_p00_num(fi), _p00_num(z.real), _p00_num(-z.imag), _p00_num(rng.uniform(1, 100)), _p00_num(0.30981), _p00_num(1.8311e-7)]
        lines.append("".join((" " if not t.startswith("-") else "") + t + "\t" for t in toks))
        tf.append(float(toks[0]))
        tre.append(float(toks[1]))
        tim.append(-float(toks[2]))
    return "\n".join(lines) + "\n", "latin-1", [{"f": tf, "re": tre, "im": tim}]


def _write_dfr(cfg, sweeps, rng):
    f, Z = sweeps[0]
    lines = ["VERSION8.0", " %d" % len(f), " 1"]
    tf, tre, tim = [], [], []
    for fi, z in zip(f, Z):
        toks = [repr(float(fi)), repr(float(z.real)), repr(float(-z.imag))]
        lines += [" " + t for t in toks]
        lines += [" " + repr(float(v)) for v in (0.0, 0.0, round(float(rng.uniform(0, 100)), 3), 0.0, 0.0, 0.0)]
        tf.append(float(toks[0]))
        tre.append(float(toks[1]))
        tim.append(-float(toks[2]))
    return "\n".join(lines) + "\n", "latin-1", [{"f": tf, "re": tre, "im": tim}]


def _gamry_num(x, style):
    x = float(x)
    if style == "g15":
        return format(x, ".15g").replace("e", "E")
    m, e = ("%.6E" % x).split("E")
    return "%sE%s%03d" % (m, e[0], int(e[1:]))


def _write_dta(cfg, sweeps, rng):
    parts = cfg["variant"].split(",")
    drift = parts[0] == "drift"
    comma = parts[1] == "comma"
    ocv = "ocv" in parts
    f, Z = sweeps[0]
    # the drift corrected spectrum: a second, slightly different set of impedances at the same frequencies
    Zc = [z * complex(1.0 + 0.01 * rng.normal(), 0.01 * rng.normal()) for z in Z]
    style = "g15" if rng.random() < 0.5 else "E6"

    def num(x, st=None):
        s = _gamry_num(x, st or style)
        return s.replace(".", ",") if comma else s

    lines = ["EXPLAIN", "TAG\tEISPOT", "TITLE\tLABEL\tPotentiostatic EIS\tTest &Identifier", "DATE\tLABEL\t01-01-2022\tDate",
             "TIME\tLABEL\t00:00:01\tTime", "NOTES\tNOTES\t1\t&Notes...", "\t", "PSTAT\tPSTAT\tREFxxx-yyyyy\tPotentiostat",
             "VDC\tPOTEN\t%s\tF\tDC &Voltage (V)" % num(0.0, "E6"), "FREQINIT\tQUANT\t%s\tInitial Fre&q. (Hz)" % num(f[0], "E6"),
             "FREQFINAL\tQUANT\t%s\tFinal Fre&q. (Hz)" % num(f[-1], "E6"), "PTSPERDEC\tQUANT\t%s\tPoints/&decade" % num(7.0, "E6"),
             "VAC\tQUANT\t%s\tAC &Voltage (mV rms)" % num(10.0, "E6"), "AREA\tQUANT\t%s\t&Area (cm^2)" % num(1.0, "E6"),
             "SPEED\tSELECTOR\t1\t&Optimize for:", "THD\tSELECTOR\t0\tT&HD",
             "DRIFTCOR\tSELECTOR\t%d\t&Drift Correction" % (1 if drift else 0),
             "ZGUESS\tQUANT\t%s\tE&stimated Z (ohms)" % num(100.0, "E6")]
    if ocv:
        m = int(rng.integers(2, 8))
        lines += ["OCVCURVE\tTABLE\t%d" % m, "\tPt\tT\tVf\tVm\tAch\tOver\tTemp", "\t#\ts\tV vs. Ref.\tV\tV\tbits\tdeg C"]
        for i in range(m):
            lines.append("\t%d\t%s\t%s\t%s\t%s\t...........\t%s" % (i, num(0.25 * (i + 1), "g15"), num(-0.0334979, "E6"), num(-0.0334979, "E6"),
                                                                      num(-0.0348917, "E6"), num(-327.67, "g15")))
        lines += ["EOC\tQUANT\t%s\tOpen Circuit (V)" % num(-0.0334858, "g15"), "PSTATMODEL\tIQUANT\t87\tPstat Model"]
    lines.append("ZCURVE\tTABLE")
    if drift:
        lines.append("\tPt\tTime\tFreq\tZreal\tZimag\tZsig\tZmod\tZphz\tZrealDrCor\tZimagDrCor\tZmodDrCor\tZphzDrCor\tIdc\tVdc\tIERange")
        lines.append("\t#\ts\tHz\tohm\tohm\tV\tohm\t\xb0\tohm\tohm\tohm\t\xb0\tA\tV\t#")
    else:
        lines.append("\tPt\tTime\tFreq\tZreal\tZimag\tZsig\tZmod\tZphz\tIdc\tVdc\tIERange")
        lines.append("\t#\ts\tHz\tohm\tohm\tV\tohm\t\xb0\tA\tV\t#")
    tf, tre, tim, cre, cim = [], [], [], [], []

    def val(tok):
        return float(tok.replace(",", "."))

    t = 0
    for i, (fi, z, zc) in enumerate(zip(f, Z, Zc)):
        t += int(rng.integers(1, 30))
        toks = [num(fi), num(z.real), num(z.imag)]
        row = ["%d" % i, "%d" % t] + toks + ["1", num(abs(z)), num(math.degrees(cmath.phase(z)))]
        if drift:
            ctoks = [num(zc.real), num(zc.imag)]
            row += ctoks + [num(abs(zc)), num(math.degrees(cmath.phase(zc)))]
            cre.append(val(ctoks[0]))
            cim.append(val(ctoks[1]))
        row += [num(8.08e-8, "E6"), num(-4.54e-5, "E6"), "%d" % int(rng.integers(1, 12))]
        lines.append("\t" + "\t".join(row))
        tf.append(val(toks[0]))
        tre.append(val(toks[1]))
        tim.append(val(toks[2]))
    truth = [{"f": tf, "re": tre, "im": tim}]
    if drift:
        truth = [{"f": list(tf), "re": cre, "im": cim}] + truth  # documented order: corrected first, then uncorrected
    eol = "\r\n" if drift else "\n"
    return eol.join(lines) + eol, "latin-1", truth


def _write_z(cfg, sweeps, rng):
    f, Z = sweeps[0]
    lines = ["ZPLOT2 ASCII", "  Measured Data, Software:    1.0.0"]
    if cfg["variant"] == "comments":
        lines += ["  Sweep Frequency Control Potential", "  Date: 01-01-2022, Time: 00:00:01", "  " + _meta_line(rng)]
    lines += ["  Freq(Hz)\tAmpl\tBias\tTime(Sec)\tZ'(a)\tZ''(b)\tGD\tErr\tRange", "End Comments"]
    tf, tre, tim = [], [], []
    t = 0.0
    for fi, z in zip(f, Z):
        t += float(rng.uniform(0.1, 5))
        toks = ["%.6E" % fi, "%.6E" % 0.01, "%.6E" % 0.0, "%.6E" % t, "%.6E" % z.real, "%.6E" % z.imag, "%.6E" % 0.0, "0", "%d" % int(rng.integers(0, 5))]
        lines.append("\t".join(toks))
        tf.append(float(toks[0]))
        tre.append(float(toks[4]))
        tim.append(float(toks[5]))
    return "\n".join(lines) + "\n", "latin-1", [{"f": tf, "re": tre, "im": tim}]


_WRITERS = {"mpt": _write_mpt, "i2b": _write_i2b, "p00": _write_p00, "dfr": _write_dfr, "dta": _write_dta, "z": _write_z}


def build_inst_job(cfg):
    rng = np.random.default_rng(cfg["seed"])
    n = cfg.get("n") or n_from_class(rng, cfg["nclass"])
    sweeps = gen_sweeps(rng, n, cfg["nsweeps"], cfg["order"])
    text, enc, truth = _WRITERS[cfg["layout"]](cfg, sweeps, rng)
    spec = INST[cfg["layout"]]
    stem = "meas_%d" % (cfg["seed"][0] % 100000)
    mode = cfg["mode"]
    job = {"layout": cfg["layout"], "parser": spec["parser"], "text": text, "encoding": enc, "expected": truth, "norm": False,
           "n": n, "cli": bool(cfg.get("cli")) and not mode.startswith("fmt"), "mode": "ext" if mode.startswith("ext") else "fmt" if mode.startswith("fmt") else "noext",
           "cell": "inst:" + cfg["layout"], "header": cfg["layout"] + ":" + cfg["variant"]}
    ext = spec["ext"]
    if mode == "ext":
        job["filename"] = stem + ext
    elif mode == "extlower":
        job["filename"] = stem + ext.lower()
    elif mode == "extupper":
        job["filename"] = stem + ext.upper()
    elif mode == "fmt":
        job["filename"] = stem + ".dat"
        job["file_format"] = ext[1:]
    elif mode == "fmtdot":
        job["filename"] = stem + ".dat"
        job["file_format"] = ext.upper()
    else:
        job["filename"] = stem
    return job


def build_job(cfg):
    if cfg["layout"] == "csv":
        return build_csv_job(cfg)
    if cfg["layout"] == "df":
        return build_df_job(cfg)
    return build_inst_job(cfg)


def config_key(cfg):
    if cfg["layout"] == "csv":
        return csv_key(cfg)
    if cfg["layout"] == "df":
        return df_key(cfg)
    return inst_key(cfg)


# ------------------------------------------------------------------------------------------------
# start-up self-check of the writers against hand-written expectations
# ------------------------------------------------------------------------------------------------
def _selfcheck():
    assert fmt_num(np.float64(0.1), "repr") == "0.1" and fmt_num(12345.6, "int") == "12346" and fmt_num(12.5, "int") == "12.5"
    assert _p00_num(10000.0) == "10.000e+03" and _p00_num(-26.556) == "-26.556e+00" and _p00_num(0.019310) == "19.310e-03"
    assert abs(float(_p00_num(99.9999)) - 100.0) < 1e-9
    assert _gamry_num(1.848949e-9, "E6") == "1.848949E-009" and _gamry_num(100078.1, "g15") == "100078.1"
    cfg = {"layout": "csv", "coords": "cart", "f": 2, "re": 0, "im": 1, "mag": 0, "ph": 0, "suffix": 0, "case": "title", "neg_re": 0,
           "neg_im": 1, "neg_ph": 0, "sep": ";", "dec": ",", "order": "desc", "nsweeps": 2, "colperm": "canonical", "numfmt": "repr",
           "mode": "ext:.csv", "nclass": "3-10", "seed": [1, 2], "eol": "\n", "eofnl": True, "cli": False}
    job = build_csv_job(cfg)
    lines = job["text"].split("\n")
    assert lines[0] == "F;Z';-Z''" and job["filename"].endswith(".csv") and len(job["expected"]) == 2
    first = lines[1].split(";")
    ex = job["expected"][0]
    assert float(first[0].replace(",", ".")) == ex["f"][0] and float(first[1].replace(",", ".")) == ex["re"][0]
    assert -float(first[2].replace(",", ".")) == ex["im"][0] and ex["f"][0] > ex["f"][1]
    assert ex["f"][-1] < job["expected"][1]["f"][0]  # a reversal separates the sweeps
    assert not csv_valid(dict(cfg, sep=",")) and not csv_valid(dict(cfg, re=3)) and csv_valid(dict(cfg, re=3, sep="\t"))
    pj = build_csv_job(dict(cfg, coords="polar", neg_ph=2, dec=".", sep=","))
    h = pj["text"].split("\n")
    assert h[0] == "F,|Z|,\u2212Phase"
    a = [float(t) for t in h[1].split(",")]
    z = cmath.rect(a[1], math.radians(-a[2]))
    assert abs(z.real - pj["expected"][0]["re"][0]) <= 1e-15 * abs(z) and abs(z.imag - pj["expected"][0]["im"][0]) <= 1e-15 * abs(z)


_selfcheck()
