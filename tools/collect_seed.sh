#!/bin/sh
# usage: tools/collect_seed.sh <worktree> <name> <check> [<check> ...]
# copies SEED/{patch.diff,demo.py,meta.json} to seeded/<name>/, confirms the demo (1 on changed, 0 on /repo) in a fresh
# scratch worktree, runs the quick tier of the given checks against the patch, removes the agent's worktree.
cd "$(dirname "$0")/.."
wt="$1"; n="$2"; shift 2
d=seeded/$n; mkdir -p $d
cp $wt/SEED/patch.diff $wt/SEED/demo.py $wt/SEED/meta.json $d/ || exit 3
W=/tmp/sv-$n-$$; git -C /repo worktree add --detach -q $W HEAD
git -C $W apply $PWD/$d/patch.diff && echo "patch applies"
MPLBACKEND=Agg timeout 900 /venv/bin/python $d/demo.py $W >/dev/null 2>&1; echo "demo on changed tree rc=$?"
MPLBACKEND=Agg timeout 900 /venv/bin/python $d/demo.py /repo >/dev/null 2>&1; echo "demo on /repo rc=$?"
git -C /repo worktree remove --force $W
tools/mutant.sh seeded-$n $d/patch.diff "$@"
git -C /repo worktree remove --force $wt
