"""Run the pinned baseline suite (guard off) and compare with /root/.vp/BASELINE.json stable_pass."""
import json, subprocess, sys, tempfile, os
import xml.etree.ElementTree as ET
base = json.load(open("/root/.vp/BASELINE.json"))
repo = os.environ.get("VERIF_REPO", "/repo")
with tempfile.TemporaryDirectory() as d:
    x = os.path.join(d, "j.xml")
    subprocess.run(["/venv/bin/python", "-m", "pytest", "-ra", "-q", "-p", "no:cacheprovider", "--timeout=900",
                    "--continue-on-collection-errors", f"--junitxml={x}"], cwd=repo, stdout=subprocess.DEVNULL, stderr=subprocess.DEVNULL,
                   env={**os.environ, "PYTHONPATH": os.path.join(repo, "src")})
    passed = set()
    for tc in ET.parse(x).getroot().iter("testcase"):
        if not any(c.tag in ("failure", "error", "skipped") for c in tc):
            passed.add(f"{tc.get('classname')}::{tc.get('name')}")
missing = [t for t in base["stable_pass"] if t not in passed]
print(f"baseline stable_pass={len(base['stable_pass'])} passed_now={len(passed)} missing={len(missing)}")
for m in missing: print("  MISSING", m)
sys.exit(1 if missing else 0)
