"""usage: seed_meta.py <seeded-dir-name> <check ids comma separated> <caught_by text>"""
import json, sys
n, checks, caught = sys.argv[1], sys.argv[2], sys.argv[3]
p = f"/verif/seeded/{n}/meta.json"
m = json.load(open(p))
m["origin"] = "independent sub-agent given only the property text and a scratch worktree (nothing from /verif)"
m["confirmed_by_lead"] = "patch applies to /repo HEAD in a scratch worktree; demo.py exits 1 on the changed tree and 0 on /repo; agent-reported test counts unchanged before/after"
m["ran"] = f"tools/mutant.sh seeded-{n} seeded/{n}/patch.diff {checks.replace(',', ' ')}  (quick tier, VERIF_REPO=scratch worktree)"
m["caught_by"] = caught
json.dump(m, open(p, "w"), indent=1)
