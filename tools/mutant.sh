#!/bin/sh
# usage: tools/mutant.sh <name> <patch-file|revert:SHA|sed:FILE:EXPR> <check-id>... 
# Creates a scratch worktree of /repo, applies the change, runs the given checks (quick tier) against it with
# VERIF_REPO, prints exit codes, removes the worktree. Never touches /repo's working tree or /verif/evidence.
name="$1"; change="$2"; shift 2
W=/tmp/mut-$name-$$
git -C /repo worktree add --detach -q "$W" HEAD || exit 3
case "$change" in
  revert:*) git -C "$W" revert --no-commit "${change#revert:}" >/dev/null 2>&1 || { echo "revert failed"; git -C /repo worktree remove --force "$W"; exit 3; } ;;
  sed:*) f=$(echo "$change" | cut -d: -f2); e=$(echo "$change" | cut -d: -f3-); sed -i "$e" "$W/$f"; git -C "$W" diff --quiet && { echo "sed changed nothing"; git -C /repo worktree remove --force "$W"; exit 3; } ;;
  *) case "$change" in /*) ;; *) change="$PWD/$change";; esac; git -C "$W" apply "$change" || { echo "apply failed"; git -C /repo worktree remove --force "$W"; exit 3; } ;;
esac
rc_all=0
for c in "$@"; do
  VERIF_REPO="$W" VERIF_NO_EVIDENCE=1 VERIF_SCRATCH=/tmp/mut-scratch-$$ ${TIER_ENV:-} /verif/check "$c" --tier "${TIER:-quick}" > /tmp/mut-out-$$ 2>&1; rc=$?
  echo "[$name] $c exit=$rc :: $(grep -c '^VIOLATION' /tmp/mut-out-$$) VIOLATION line(s); $(grep -m1 'witness\[' /tmp/mut-out-$$ | cut -c1-220)"
  [ $rc -eq 2 ] && grep INCONCLUSIVE /tmp/mut-out-$$ | cut -c1-300
done
rm -rf /tmp/mut-out-$$ /tmp/mut-scratch-$$
git -C /repo worktree remove --force "$W"
