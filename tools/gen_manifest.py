"""Regenerate MANIFEST.json from the table below (single source of truth for what is claimed)."""
import json, os
HERE = os.path.dirname(os.path.dirname(os.path.abspath(__file__)))
props = [json.loads(l) for l in open(os.path.join(HERE, "properties.jsonl"))]
from manifest_table import CLAIMED, NOT_APPLICABLE  # noqa

checks = []
for p in props:
    pid = p["id"]
    if pid not in CLAIMED:
        continue
    c = CLAIMED[pid]
    checks.append({
        "property_id": pid,
        "quick_cmd": f"./check {pid} --tier quick",
        "thorough_cmd": f"./check {pid} --tier thorough",
        "evidence_file": f"evidence/{pid}.json",
        "replay_cmd_template": f"./check {pid} --replay {{path}}",
        "engine": "vlib",
        "level_claimed": {"category": "exploration", "text": c["text"], "design_ref": c["design_ref"]},
        "level_note": c["note"],
        "technique": c["technique"],
    })
na = [{"property_id": p["id"], "reason": NOT_APPLICABLE.get(p["id"], "check under construction (build round in progress)")} for p in props if p["id"] not in CLAIMED]
m = {
    "version": 1,
    "setup_cmd": "./setup.sh",
    "hooks": {
        "guard": "PYIMPSPEC_VERIF",
        "enable": "no source hooks: every monitor is attached from the harness by re-binding class/module attributes before the workload runs (fork start method propagates them to pool workers); the guard name is reserved and unused",
        "baseline_off_cmd": "cd /repo && /venv/bin/python -m pytest -ra -q -p no:cacheprovider --timeout=900 --continue-on-collection-errors",
        "source_commits": [],
        "add_only": True,
    },
    "engines": [{"name": "vlib", "path": "vlib/", "serves_properties": sorted(CLAIMED), "kind_free_text": "runtime monitoring harness: generated/hostile workloads on the real library, icontract contracts and boundary recorders attached from outside, reference-model and differential oracles, pool-schedule perturbation, sharded over 16 subprocesses"}],
    "checks": checks,
    "not_applicable": na,
    "notes": "All verdicts come from oracles observing executions of /repo's working tree (VERIF_REPO overrides for scratch trees). Exit 0 held, 1 violation, 2 inconclusive (never a VIOLATION line). known_findings.json lists open/fixed findings by mechanism key. See DESIGN.md.",
}
json.dump(m, open(os.path.join(HERE, "MANIFEST.json"), "w"), indent=1)
print(f"claimed {len(checks)}, not_applicable {len(na)}")
