#!/bin/sh
# usage: tools/run_all_mutants.sh [CXX ...]   -- runs every mutants/CXX/*.diff and seeded/*/patch.diff against the
# quick tier of the property's check in scratch worktrees; prints one line per mutant; writes mutants/RESULTS.txt
cd "$(dirname "$0")/.."
props="$@"; [ -z "$props" ] && props=$(ls mutants | grep '^C')
: > mutants/RESULTS.new
for p in $props; do
  for m in mutants/$p/*.diff; do
    [ -f "$m" ] || continue
    tools/mutant.sh "$(basename $m .diff)" "$m" $p 2>&1 | grep "^\[" | tee -a mutants/RESULTS.new
  done
done
for d in seeded/*/; do
  [ -f "$d/patch.diff" ] || continue
  p=$(/venv/bin/python -c "import json;print(json.load(open('$d/meta.json'))['property'])")
  case " $props " in *" $p "*) tools/mutant.sh "seeded-$(basename $d)" "$d/patch.diff" $p 2>&1 | grep "^\[" | tee -a mutants/RESULTS.new;; esac
done
mv mutants/RESULTS.new mutants/RESULTS.txt
