#!/bin/sh
# usage: tools/run_all_mutants.sh OUTFILE CXX [CXX ...]  -- runs every mutants/CXX/*.diff and every seeded/*/patch.diff whose
# meta.json names CXX against the quick tier of that check in scratch worktrees; appends one line per mutant to OUTFILE
cd "$(dirname "$0")/.."
out="$1"; shift
: > "$out"
for p in "$@"; do
  for m in mutants/$p/*.diff; do
    [ -f "$m" ] || continue
    tools/mutant.sh "$(basename $m .diff)" "$m" $p 2>&1 | grep "^\[" | cut -c1-260 >> "$out"
  done
  for d in seeded/*/; do
    [ -f "$d/patch.diff" ] || continue
    q=$(/venv/bin/python -c "import json;print(json.load(open('$d/meta.json'))['property'])")
    [ "$q" = "$p" ] && tools/mutant.sh "seeded-$(basename $d)" "$d/patch.diff" $p 2>&1 | grep "^\[" | cut -c1-260 >> "$out"
  done
done
echo DONE >> "$out"
