#!/venv/bin/python
"""Calibration sweep for C10 (run once on the unchanged tree; output feeds vlib/c10_band.json -> "calibration").

usage: tools/c10_calibrate.py <tier> <seed> <out.jsonl> [nprocs] [filter-substring]
Runs the 'run' cases of vlib.props.c10.gen_cases(tier, seed) in a fork pool and writes one JSON record per run
(no verdicts).  Never used at check time.
"""
import json
import os
import sys

sys.path.insert(0, os.path.dirname(os.path.dirname(os.path.abspath(__file__))))
for k in ("OMP_NUM_THREADS", "OPENBLAS_NUM_THREADS", "MKL_NUM_THREADS"):
    os.environ[k] = "1"
from vlib import env  # noqa: E402

env.import_pyimpspec()
from vlib.props import c10  # noqa: E402


def work(case):
    import time

    t0 = time.process_time()
    try:
        rec, viol = c10.run_one(case)
    except BaseException as ex:  # noqa
        return {"case": case, "error": repr(ex)}
    if rec is not None:
        rec.pop("sums", None)
    return {"case": case, "rec": rec, "viol": [v["key"] + " :: " + v["msg"][:300] for v in viol], "cpu": round(time.process_time() - t0, 2)}


def main():
    import multiprocessing as mp

    tier, seed, out = sys.argv[1], int(sys.argv[2]), sys.argv[3]
    nprocs = int(sys.argv[4]) if len(sys.argv) > 4 else 8
    flt = sys.argv[5] if len(sys.argv) > 5 else ""
    cases = [c for c in c10.gen_cases(tier, seed) if c["kind"] == "run" and flt in c["cell"]]
    for c in cases:
        c["explore"] = False
    print(len(cases), "runs", file=sys.stderr)
    with mp.Pool(nprocs) as pool, open(out, "w") as fp:
        for i, r in enumerate(pool.imap_unordered(work, cases, chunksize=1)):
            fp.write(json.dumps(r) + "\n")
            fp.flush()
            if i % 50 == 0:
                print(i, file=sys.stderr, flush=True)


if __name__ == "__main__":
    main()
